"""C11 actor lifecycle: program generator and a log-driven specification (see notes/C11.md).

The specification is replayed over the kernel-ordered log of a sequential run.  It never predicts the interleaving: it takes the dates
of the requests from the log and checks what the statement says about their consequences:
  * an actor terminates at the date of the EARLIEST of: the end of its body, exit(), a kill / kill_all that targets it, its kill time,
    the shutdown of its host, the end of the last non-daemon actor (for everybody still alive: they are daemons), a deadlock;
  * its on_exit callbacks run then, once each, in reverse registration order, failed = (the body did not return);
  * join(x, t) returns at min(termination of x, t_call + t);
  * a suspended actor completes nothing before it is resumed; a suspended execution makes no progress;
  * an auto-restart actor is re-created when its host is turned on again.
"""
from hypothesis import strategies as st

from . import s4u, timing

T = s4u.T
INF = float("inf")
SPEED = timing.SPEED
UNKNOWN_DURATION = {"acquire", "acquire_timeout", "lock", "cv_wait", "cv_wait_for", "barrier", "get", "put", "mq_get", "mq_put", "io", "unlock"}

EXC_WAKES = "exception-wakes-suspended-actor"


def exception_wakes_suspended_actor(log):
    """True when an actor that is suspended (suspend request logged, no resume since) logs the return of an operation with an exception:
    ActorImpl::throw_exception() resumes a suspended actor, and the failing activity answers its simcall too (known/C11.json)."""
    susp = set()
    for l in log.lines:
        k = l.get("k")
        if k == "req" and l["op"][0] == "suspend":
            susp.add(l["op"][1])
        elif k == "req" and l["op"][0] == "resume":
            susp.discard(l["op"][1])
        elif k == "actor_end":
            susp.discard(l["a"])
        elif k == "ret" and "exc" in l and l["a"] in susp:
            return True
    return False


Q = st.integers(1, 8).map(lambda k: k / 4)                      # coinciding dates are frequent by construction
FINE = st.one_of(Q, Q, Q, st.integers(1, 2048).map(lambda k: k / 1024))


# ------------------------------------------------------------------------------------------------ generator
@st.composite
def body(draw, me, names, depth, ntmpl, allow_block=True, has_kill_time=False):
    """the operations of one worker"""
    ops = []
    others = [n for n in names if n != me]
    killset = 1 if has_kill_time else 0
    for _ in range(draw(st.integers(0, 6))):
        k = draw(st.sampled_from(["sleep", "sleep", "sleep", "exec", "exec", "exec", "exec", "on_exit_add", "yield", "now", "join", "join_t", "join_t",
                                  "kill", "suspend", "resume", "suspend_self", "daemonize", "killtime", "spawn", "exit", "block", "block"]))
        if k == "sleep":
            ops.append(["sleep", draw(FINE)])
        elif k == "exec":
            ops.append(["exec", draw(FINE) * SPEED])
        elif k in ("on_exit_add", "yield", "now"):
            ops.append([k])
        elif k == "join" and others and allow_block:
            ops.append(["join", draw(st.sampled_from(others))])
        elif k == "join_t" and others:
            ops.append(["join", draw(st.sampled_from(others)), draw(st.one_of(st.just(0.0), FINE))])
        elif k == "kill" and others and draw(st.integers(0, 2)) == 0:
            ops.append(["kill", draw(st.sampled_from([n for n in others if n != "c0"] or others))])
        elif k in ("suspend", "resume") and others and draw(st.integers(0, 1)) == 0:
            ops.append([k, draw(st.sampled_from([n for n in others if n != "c0"] or others))])
        elif k == "suspend_self" and allow_block and draw(st.integers(0, 2)) == 0:
            ops.append(["suspend_self"])
        elif k == "daemonize" and draw(st.integers(0, 2)) == 0:
            ops.append(["daemonize"])
        elif k == "killtime" and killset < (3 if draw(st.integers(0, 3)) == 0 else 1):     # several kill times: the last one set wins
            killset += 1
            ops.append(["set_kill_time", draw(FINE) * draw(st.sampled_from([1, 2, 4]))])
        elif k == "spawn" and depth == 0 and ntmpl > 0:
            ops.append(["spawn", draw(st.integers(0, ntmpl - 1))] + (["h0"] if draw(st.integers(0, 3)) == 0 else []))
        elif k == "exit" and draw(st.integers(0, 2)) == 0:
            ops.append(["exit"])
        elif k == "block":
            # operations that block on another actor: what matters here is being killed / suspended / rebooted while blocked in them
            # (their own semantics belong to C04-C10); the specification only knows that they take an unknown time
            b = draw(st.sampled_from(["acquire", "acquire_to", "release", "lock", "cv", "cv_to", "notify", "barrier", "get", "get_to", "put",
                                      "mq_get", "mq_get_to", "mq_put", "exec_async", "io"]))
            if b == "acquire" and allow_block:
                ops.append(["acquire", 0])
            elif b == "acquire_to":
                ops.append(["acquire_timeout", 0, draw(FINE)])
            elif b == "release":
                ops.append(["release", 0])
            elif b == "lock" and allow_block:
                ops += [["lock", 0], ["sleep", draw(FINE)], ["unlock", 0]]
            elif b == "cv" and allow_block:
                ops += [["lock", 0], ["cv_wait", 0], ["unlock", 0]]
            elif b == "cv_to":
                ops += [["lock", 0], ["cv_wait_for", 0, draw(FINE)], ["unlock", 0]]
            elif b == "notify":
                ops.append(["notify_all", 0])
            elif b == "barrier" and allow_block:
                ops.append(["barrier", 0])
            elif b == "get" and allow_block:
                ops.append(["get", draw(st.integers(0, 1)), {}])
            elif b == "get_to":
                ops.append(["get", draw(st.integers(0, 1)), {"timeout": draw(FINE)}])
            elif b == "put" and allow_block:
                ops.append(["put", draw(st.integers(0, 1)), float(draw(st.integers(0, 4)) * 256), {}])
            elif b == "mq_get" and allow_block:
                ops.append(["mq_get", 0, {}])
            elif b == "mq_get_to":
                ops.append(["mq_get", 0, {"timeout": draw(FINE)}])
            elif b == "mq_put":
                ops.append(["mq_put", 0, {"timeout": draw(FINE)}])
            elif b == "exec_async":
                ops.append(["exec_async", draw(FINE) * SPEED, {"nostart": draw(st.booleans())}, 100 + len(ops) + 10 * draw(st.integers(0, 50))])
            elif b == "io":
                ops.append(["io", "d_h0", float(draw(st.integers(1, 8)) * 131072), draw(st.sampled_from(["read", "write"]))])
    return ops


@st.composite
def spec_fields(draw, restartable, pd=2):
    f = {"on_exit": draw(st.integers(0, 3))}
    if draw(st.integers(0, 9)) < pd:
        f["daemon"] = True
    if draw(st.integers(0, 3)) == 0:
        f["kill_time"] = draw(FINE) * draw(st.sampled_from([1, 2, 4]))
    if restartable and draw(st.integers(0, 1)) == 0:
        f["auto_restart"] = True
    return f


@st.composite
def c11_programs(draw):
    nw = draw(st.integers(1, 4))
    names = ["w%d" % i for i in range(nw)] + ["c0"]
    ntmpl = draw(st.integers(0, 2))
    pd = draw(st.sampled_from([2, 2, 6]))      # some programs are mostly made of daemons
    templates = []
    for _ in range(ntmpl):
        t = draw(spec_fields(True, pd))
        has_kt = "kill_time" in t
        # the creator applies daemon / kill time / auto-restart to the child AFTER its creation, when the child has already run one slice:
        # a child that ends at once receives them when it is terminated (they are then ignored); most children start with a sleep
        t["ops"] = draw(body("", names, 1, 0, has_kill_time=has_kt))
        if not (t["ops"] and t["ops"][0][0] == "sleep") and draw(st.integers(0, 3)) > 0:
            t["ops"].insert(0, ["sleep", draw(FINE)])
        templates.append(t)
    actors = []
    for i in range(nw):
        host = "h%d" % draw(st.integers(0, 2))
        a = draw(spec_fields(host != "h0", pd))
        a.update(name="w%d" % i, host=host, ops=draw(body("w%d" % i, names, 0, ntmpl, has_kill_time="kill_time" in a)))
        actors.append(a)
    # the controller: never a daemon, lives on h0 (never turned off), nobody is told to kill it (kill_all may)
    ops = []
    pending = []      # actions to undo later: ("resume", x) / ("turn_on", h)
    for _ in range(draw(st.integers(1, 8))):
        ops.append(["sleep", draw(FINE)])
        if pending and draw(st.integers(0, 2)) > 0:
            ops.append(pending.pop(draw(st.integers(0, len(pending) - 1))))
            continue
        k = draw(st.sampled_from(["kill", "suspend", "suspend", "suspend", "suspend", "join", "join_t", "turn_off", "turn_off", "kill_all", "spawn",
                                  "resume", "turn_on"]))
        w = "w%d" % draw(st.integers(0, nw - 1))
        if k == "kill":
            ops.append(["kill", w])
        elif k == "suspend":
            ops.append(["suspend", w])
            if draw(st.integers(0, 4)) > 0:
                pending.append(["resume", w])
        elif k == "resume":
            ops.append(["resume", w])
        elif k == "join":
            ops.append(["join", w])
        elif k == "join_t":
            ops.append(["join", w, draw(st.one_of(st.just(0.0), FINE))])
        elif k in ("turn_off", "turn_on"):
            h = "h%d" % draw(st.integers(1, 2))
            ops.append([k, "host", h])
            if k == "turn_off" and draw(st.integers(0, 4)) > 0:
                pending.append(["turn_on", "host", h])
        elif k == "kill_all" and draw(st.integers(0, 2)) == 0:
            ops.append(["kill_all"])
        elif k == "spawn" and ntmpl:
            ops.append(["spawn", draw(st.integers(0, ntmpl - 1))])
    for p in pending:
        if draw(st.integers(0, 3)) > 0:
            ops += [["sleep", draw(FINE)], p]
    if draw(st.integers(0, 4)) == 0:
        # several reboots of one host: incarnations beyond the second one
        h = "h%d" % draw(st.integers(1, 2))
        for _ in range(draw(st.integers(2, 3))):
            ops += [["sleep", draw(FINE)], ["turn_off", "host", h], ["sleep", draw(FINE)], ["turn_on", "host", h]]
        ops.append(["sleep", draw(FINE)])
    actors.append({"name": "c0", "host": "h0", "ops": ops, "on_exit": draw(st.integers(0, 2))})
    if draw(st.integers(0, 3)) == 0:      # a second actor acting on the others, so that orders at one date vary
        o2 = []
        for _ in range(draw(st.integers(1, 4))):
            o2.append(["sleep", draw(FINE)])
            w = "w%d" % draw(st.integers(0, nw - 1))
            o2.append(draw(st.sampled_from([["kill", w], ["suspend", w], ["resume", w], ["join", w, draw(FINE)], ["join", w]])))
        actors.append({"name": "c1", "host": "h0", "ops": o2, "on_exit": 0})
    return {"cfg": list(s4u.SHARING_FREE_CFG), "platform": timing.platform(3), "actors": actors, "templates": templates,
            "objects": {"mutex": [{"recursive": False}], "sem": [0], "cond": [0], "barrier": [2], "mailbox": 2, "mqueue": 1},
            "quiet": ["act"]}


# ------------------------------------------------------------------------------------------------ specification
class Inst:
    def __init__(self, name, k, spec, host, t_new, n_new, pid):
        self.name, self.k, self.spec, self.host, self.t_new, self.n_new, self.pid = name, k, spec, host, t_new, n_new, pid
        self.daemon = bool(spec.get("daemon"))
        self.auto_restart = bool(spec.get("auto_restart"))
        self.ops = []            # records of log.ops() order
        self.started = False
        self.body_end = None
        self.exits = []          # (cb, failed, t, n)
        self.t_end = None
        self.n_end = None
        self.triggers = []       # (date, certain, cause)
        self.inherited = []      # callbacks inherited from the previous incarnation (auto-restart)
        self.added = []          # indices returned by the on_exit_add operations that completed
        self.susp = []           # [start, end|INF] suspension intervals (dates)
        self.susp_uncertain = False
        self.kill_times = []     # (date set, date, request record or None): the last one wins
        self.props_uncertain = False   # child whose creator applied daemon / kill time / auto-restart while it was terminating

    def label(self):
        return "%s#%d" % (self.name, self.k)

    def registered(self):
        own = list(range(self.spec.get("on_exit", 0))) if self.started else []
        return self.inherited + own + list(self.added)

    def suspended_at(self, t):
        """the interval that contains t strictly inside, or that starts at t"""
        for s, r in self.susp:
            if s <= t < r:
                return (s, r)
        return None


def wake(inst, natural):
    """dates at which an operation whose completion falls at `natural` may return: the actor must not be suspended.  A completion
    at the very date a suspension starts may go either way (two requests of the same date)."""
    if natural == INF:
        return {INF}
    iv = inst.suspended_at(natural)
    if iv is None:
        return {natural}
    res = wake(inst, iv[1]) if iv[1] < INF else {INF}
    if iv[0] == natural:
        res = res | {natural}
    return res


def exec_end(inst, t0, dur):
    """end of an execution of `dur` seconds of work started at t0: no progress while the actor is suspended"""
    t, rem = t0, dur
    for s, r in sorted(inst.susp):
        if r <= t:
            continue
        if s > t:
            if t + rem <= s:
                return t + rem
            rem -= s - t
        t = max(t, r)
        if t == INF:
            return INF
    return t + rem


def check_c11(case, log, oc, labels):
    spec_by_name = {a["name"]: a for a in case["actors"]}
    templates = case.get("templates", [])
    cur = {}            # name -> current Inst
    insts = []
    alive = []          # Inst in the kernel's actor list (no actor_end record yet)
    host_on = {}
    boot = {}           # host -> names of auto-restart actors registered there
    boot_maybe = {}     # host -> children whose creator may not have reached set_auto_restart (its spawn has not returned)
    pending_boot = {}   # child name -> host, until the spawn returns
    pending_child = {}  # child name -> its first incarnation, until the spawn returns
    child_tmpl = {}     # child name -> template index
    pending_spawn = {}  # actor -> template index of the spawn being executed
    pending_rec = {}    # actor -> record of that spawn request
    spawn_rec = {}      # child name -> record of the spawn request that created its first incarnation
    count = {}
    deadlock_t = None
    reqs = {}
    effects = []        # (issuer, its request, target, date, cause): triggers whose certainty is decided after the scan

    def trigger(inst, date, certain, cause):
        inst.triggers.append((date, certain, cause))

    def daemons_left(date):
        # daemon is False / "maybe" (daemonize requested, not yet known to be served) / True
        if alive and all(i.daemon for i in alive):
            sure = all(i.daemon is True for i in alive)
            for i in alive:
                trigger(i, date, sure, "only daemons remain")

    for l in log.lines:
        k = l.get("k")
        if k == "actor_new":
            name = l["a"]
            if name in spec_by_name:
                spec = spec_by_name[name]
            elif name in child_tmpl:
                spec = templates[child_tmpl[name]]
            else:
                parent = name.rpartition(".")[0]
                if parent not in pending_spawn:
                    oc.bad("harness-unknown-actor", "actor %s created out of nowhere (line %d)" % (name, l["n"]))
                    return
                child_tmpl[name] = pending_spawn[parent]
                spec = templates[child_tmpl[name]]
                spawn_rec[name] = pending_rec[parent]
            count[name] = count.get(name, 0) + 1
            inst = Inst(name, count[name] - 1, spec, l["host"], T(l["t"]), l["n"], l["pid"])
            prev = cur.get(name)
            if prev is not None and prev.props_uncertain:
                # the original terminated while its creator was still applying daemon / kill time / auto-restart to it: each is ignored
                # if it came too late, and the boot record remembers what had been applied: not modelled, both accepted
                inst.props_uncertain = True
                if inst.daemon:
                    inst.daemon = "maybe"
                labels.add("restart-of-a-child-that-ended-during-its-creation")
            if prev is not None:
                if prev.t_end is None:
                    oc.bad("two-live-actors-with-one-name", "%s re-created at %r while its previous incarnation is alive" % (name, inst.t_new))
                # documented: the on_exit functions, the daemon flag and the kill time are remembered over reboots
                # the boot record is made when auto-restart is set on the ORIGINAL actor and shares its callback list: every later
                # incarnation inherits what the original had registered when it terminated (what ran then: checked on its own)
                first = [i for i in insts if i.name == name][0]
                inst.inherited = list(reversed([cb for cb, _, _, _ in first.exits]))
                labels.add("restarted" if inst.k == 1 else "restarted-twice-or-more")
            if spec.get("auto_restart"):
                if name in spec_by_name or count[name] > 1:
                    boot.setdefault(l["host"], set()).add(name)
                else:
                    # a child is marked auto-restart by its creator after the creation: certain once the spawn has returned
                    boot_maybe.setdefault(l["host"], set()).add(name)
                    pending_boot[name] = l["host"]
            kt = spec.get("kill_time", -1)
            if kt > inst.t_new:
                inst.kill_times.append((inst.t_new, kt, None))
            if name not in spec_by_name and count[name] == 1:
                pending_child[name] = inst
                if inst.daemon:
                    inst.daemon = "maybe"    # a child is daemonized by its creator after the creation: certain once the spawn has returned
            cur[name] = inst
            insts.append(inst)
            alive.append(inst)
            if name not in spec_by_name or count[name] > 1:     # (the initial actors are created before the simulation starts)
                daemons_left(inst.t_new)
        elif k == "req":
            inst = cur.get(l["a"])
            if inst is None or inst.t_end is not None:
                oc.bad("dead-actor-acts", "line %d: %s issues %s after its termination" % (l["n"], l["a"], l["op"]))
                continue
            inst.started = True
            t = T(l["t"])
            op = l["op"]
            rec = dict(i=l["i"], op=op, t_req=t, n_req=l["n"], t_ret=None, n_ret=None)
            inst.ops.append(rec)
            reqs[(l["a"], l["i"])] = (inst, rec)
            o = op[0]
            # The kernel serves the requests in the order of their records: effects are applied here.  A request is certainly served
            # unless its issuer is killed in the very round it is issued (then it terminates at this date and logs no completion):
            # decided after the scan (`effects`).
            if o == "spawn":
                pending_spawn[l["a"]] = op[1]
                pending_rec[l["a"]] = rec
            elif o == "exit":
                trigger(inst, t, True, "exit()")
            elif o == "kill":
                tgt = cur.get(op[1])
                if tgt is not None and tgt.t_end is None:
                    effects.append((inst, rec, tgt, t, "kill by %s" % inst.label()))
            elif o == "kill_all":
                for i in alive:
                    if i is not inst:
                        effects.append((inst, rec, i, t, "kill_all by %s" % inst.label()))
            elif o in ("suspend", "resume", "join"):
                tgt = cur.get(op[1])
                tg = rec["target"] = tgt if tgt is not None and tgt.t_end is None else None
                if o == "suspend" and tg is not None and not any(s_ <= t < r_ for s_, r_ in tg.susp):
                    tg.susp.append([t, INF])
                    rec["affects"] = tg
                elif o == "resume" and tg is not None:
                    for iv in tg.susp:
                        if iv[1] == INF and iv[0] <= t:
                            iv[1] = t
                            rec["affects"] = tg
            elif o == "daemonize":
                if inst.daemon is not True:
                    inst.daemon = "maybe"
                daemons_left(t)
            elif o == "set_kill_time" and op[1] > t:
                inst.kill_times.append((t, op[1], rec))      # a date in the past is ignored (documented); the last one set wins
            elif o == "suspend_self":
                inst.susp.append([t, INF])
                rec["interval"] = inst.susp[-1]
            elif o == "turn_off" and op[1] == "host":
                if host_on.get(op[2], True):
                    host_on[op[2]] = False
                    for i in alive:
                        if i.host == op[2]:
                            effects.append((inst, rec, i, t, "host %s turned off" % op[2]))
            elif o == "turn_on" and op[1] == "host":
                if not host_on.get(op[2], True):
                    host_on[op[2]] = True
                    rec["rebooted"] = True
                    rec["boot"] = sorted(boot.get(op[2], ()))
                    rec["boot_maybe"] = sorted(boot_maybe.get(op[2], ()))
        elif k == "ret":
            got = reqs.get((l["a"], l["i"]))
            if got is None:
                continue
            inst, rec = got
            if inst is not cur.get(l["a"]) or inst.t_end is not None:
                oc.bad("dead-actor-acts", "line %d: %s completes %s after its termination" % (l["n"], l["a"], rec["op"]))
                continue
            t = T(l["t"])
            rec["t_ret"], rec["n_ret"] = t, l["n"]
            rec["r"] = l.get("r")
            rec["exc"] = l.get("exc")
            o = rec["op"][0]
            if o == "daemonize":
                inst.daemon = True
                daemons_left(t)
            elif o == "on_exit_add":
                inst.added.append(rec["r"])
            elif o == "spawn":
                child = pending_child.pop(rec["r"], None)
                if child is not None and child.daemon == "maybe" and child.t_end is None:
                    child.daemon = True
                    daemons_left(t)
                if rec["r"] in pending_boot:
                    h = pending_boot.pop(rec["r"])
                    boot_maybe[h].discard(rec["r"])
                    boot.setdefault(h, set()).add(rec["r"])
        elif k == "body_end":
            inst = cur.get(l["a"])
            if inst is not None and inst.k == 0 and inst.name in spawn_rec and spawn_rec[inst.name]["t_ret"] is None:
                inst.props_uncertain = True
            if inst is not None:
                inst.started = True
                inst.body_end = T(l["t"])
                trigger(inst, inst.body_end, True, "end of body")
        elif k == "on_exit":
            inst = cur.get(l["a"])
            if inst is not None:
                inst.exits.append((l["cb"], l["failed"], T(l["t"]), l["n"]))
        elif k == "actor_end":
            inst = cur.get(l["a"])
            if inst is None or inst.t_end is not None:
                oc.bad("actor-terminates-twice", "line %d: second termination record of %s" % (l["n"], l["a"]))
                continue
            inst.t_end, inst.n_end = T(l["t"]), l["n"]
            if inst.k == 0 and inst.name in spawn_rec and spawn_rec[inst.name]["t_ret"] is None:
                inst.props_uncertain = True
            alive.remove(inst)
            daemons_left(inst.t_end)
        elif k == "deadlock":
            deadlock_t = T(l["t"])
            labels.add("deadlock")
            for i in alive:
                trigger(i, deadlock_t, True, "deadlock")
    def served(inst, rec):
        return rec["t_ret"] is not None or inst.t_end is None or inst.t_end != rec["t_req"]

    for issuer, rec, target, date, cause in effects:
        trigger(target, date, served(issuer, rec), cause)
    for inst in insts:
        if inst.kill_times and not inst.props_uncertain:
            t_set, kt, rec = inst.kill_times[-1]
            trigger(inst, kt, rec is None or served(inst, rec), "kill time")
            if len(inst.kill_times) > 1:
                labels.add("kill-time-replaced")
        elif inst.kill_times:
            for t_set, kt, rec in inst.kill_times:
                trigger(inst, kt, False, "kill time")
    for inst in insts:
        for rec in inst.ops:
            if rec.get("affects") is not None and not served(inst, rec):
                rec["affects"].susp_uncertain = True

    # ---- terminations
    for inst in insts:
        who = inst.label()
        if inst.t_end is None:
            if log.done:
                # known defect (known/C11.json): an actor created in the scheduling round in which a kill_all / the shutdown of its host
                # is served (the creation request first) is killed before its first slice; it then runs its body up to its first simcall,
                # which is never served: a zombie without termination nor on_exit, and a spurious deadlock report at the end
                pending = [q for j in insts for q in j.ops
                           if q["t_req"] == inst.t_new and q["n_req"] < inst.n_new and (q["n_ret"] is None or q["n_ret"] > inst.n_new)
                           and (q["op"][0] == "kill_all" or (q["op"][0] == "turn_off" and q["op"][1] == "host" and q["op"][2] == inst.host))]
                sig = "actor-never-terminates:created-in-the-round-it-is-killed" if pending and inst.k == 0 else "actor-never-terminates"
                oc.bad(sig, "%s (created at %r) has no termination record%s" % (who, inst.t_new,
                       "; created while %s was being served" % pending[0]["op"] if pending else ""))
            continue
        dates = [d for d, _, _ in inst.triggers]
        certain = [d for d, c, _ in inst.triggers if c]
        causes = sorted(set(c for d, _, c in inst.triggers if d == inst.t_end))
        for c in causes:
            labels.add("ends:" + c.split(" by ")[0].split(" (")[0].replace("host h1", "host").replace("host h2", "host"))
        if inst.t_end not in dates:
            oc.bad("actor-terminates-without-cause", "%s terminated at %r; possible causes: %s" % (who, inst.t_end, sorted(set(inst.triggers), key=str)[:6]))
        elif certain and inst.t_end > min(certain):
            d0 = min(certain)
            cause = [c for d, ce, c in inst.triggers if d == d0 and ce][0]
            sig = {"kill time": "actor-outlives-kill-time", "only daemons remain": "daemon-outlives-last-regular-actor",
                   "end of body": "actor-outlives-its-body", "exit()": "actor-outlives-exit", "deadlock": "actor-outlives-deadlock"}.get(cause)
            if sig is None:
                sig = "actor-outlives-host-shutdown" if cause.startswith("host") else "actor-outlives-kill"
            oc.bad(sig, "%s should have terminated at %r (%s) but terminated at %r" % (who, d0, cause, inst.t_end))
        # on_exit
        exp = list(reversed(inst.registered()))
        got = [cb for cb, _, _, _ in inst.exits]
        # every registration is a simcall of the actor: a kill may land between two of them.  An actor that logged nothing may have
        # registered any prefix of its k initial callbacks; a pending on_exit_add may or may not have been served
        ok = [exp]
        if not inst.started:
            ok = [list(reversed(inst.inherited + list(range(j)))) for j in range(inst.spec.get("on_exit", 0) + 1)]
        elif inst.ops and inst.ops[-1]["op"][0] == "on_exit_add" and inst.ops[-1]["t_ret"] is None:
            ok += [[j] + exp for j in range(64)]
        if inst.props_uncertain and inst.k > 0:
            ok += [[cb for cb in o_ if cb not in inst.inherited] for o_ in ok] if inst.inherited else []
            own = list(range(inst.spec.get("on_exit", 0))) + list(inst.added)
            ok.append(list(reversed(own)))
        if got not in ok:
            if sorted(got) != sorted(exp):
                oc.bad("on_exit-not-exactly-once", "%s: callbacks run %s, registered %s" % (who, got, list(reversed(exp))))
            else:
                oc.bad("on_exit-order", "%s: callbacks run in order %s, expected %s (reverse registration order)" % (who, got, exp))
        if len(exp) >= 2:
            labels.add("on_exit>=2")
        for cb, failed, t, n in inst.exits:
            if t != inst.t_end or n > inst.n_end:
                oc.bad("on_exit-not-at-termination", "%s: callback %d ran at %r (line %d), termination at %r (line %d)" % (who, cb, t, n, inst.t_end, inst.n_end))
            if failed != (inst.body_end is None):
                oc.bad("on_exit-failed-flag", "%s: callback %d got failed=%s, the body %s" % (who, cb, failed, "returned" if inst.body_end is not None else "did not return"))
        if inst.daemon and any(c == "only daemons remain" for d, _, c in inst.triggers if d == inst.t_end):
            labels.add("daemon-alive-at-the-end")
    # ---- operations
    for inst in insts:
        if inst.susp:
            labels.add("suspension")
        for rec in inst.ops:
            check_op(inst, rec, oc, labels)
    # ---- auto-restart
    for inst in insts:
        for rec in inst.ops:
            if rec.get("rebooted"):
                h = rec["op"][2]
                born = sorted(i.name for i in insts if rec["n_req"] < i.n_new and (rec["n_ret"] is None or i.n_new < rec["n_ret"]))
                exp = rec["boot"]
                if not (set(exp) <= set(born) <= set(exp) | set(rec["boot_maybe"])) or len(born) != len(set(born)):
                    oc.bad("auto-restart-set-wrong", "host %s turned on at %r: actors re-created %s, auto-restart actors of that host %s" % (h, rec["t_req"], born, exp))
                if exp:
                    labels.add("auto-restart")
    for inst in insts:
        if inst.k > 0:
            first = inst.ops[0] if inst.ops else None
            if first is not None and first["t_req"] != inst.t_new and not inst.suspended_at(inst.t_new):
                oc.bad("restarted-actor-starts-late", "%s created at %r issues its first operation at %r" % (inst.label(), inst.t_new, first["t_req"]))


def check_op(inst, rec, oc, labels):
    op, o, t0, t1 = rec["op"], rec["op"][0], rec["t_req"], rec["t_ret"]
    who = "%s op %d %s called at %r" % (inst.label(), rec["i"], op, t0)
    if inst.susp_uncertain:
        return
    if o == "sleep":
        exp = wake(inst, t0 + op[1])
    elif o == "exec":
        e = exec_end(inst, t0, op[1] / SPEED)
        exp = wake(inst, e)
        if e != t0 + op[1] / SPEED:
            labels.add("exec-shifted-by-suspension")
    elif o == "join":
        tg = rec.get("target")
        limit = t0 + op[2] if len(op) > 2 and op[2] >= 0 else INF
        if rec.get("r") == "no-such-actor" or tg is None:
            death = t0
        else:
            death = tg.t_end if tg.t_end is not None else INF
        nat = min(death, limit)
        exp = wake(inst, nat)
        if nat < INF:
            if death == limit:
                labels.add("join-timeout-equals-death-date")
            elif death == t0 and tg is not None:
                labels.add("join-at-death-date")
            labels.add("join-ends-by-" + ("death" if death <= limit else "timeout"))
        if tg is not None and death < INF and inst.suspended_at(nat):
            labels.add("join-while-suspended")
    elif o in UNKNOWN_DURATION:
        # blocks on another actor for a time that this specification does not model: only "nothing completes during a suspension"
        labels.add("blocking-op")
        if t1 is not None:
            if t1 < t0:
                oc.bad("returns-before-call", "%s returned at %r" % (who, t1))
            if any(s < t1 < r for s, r in inst.susp):
                oc.bad("suspended-actor-makes-progress", "%s returned at %r; suspensions %s" % (who, t1, inst.susp))
        elif inst.t_end is not None and inst.t_end > t0:
            labels.add("ends-while-blocked")
        return
    elif o == "suspend_self":
        exp = {rec["interval"][1]}
    elif o == "exit":
        exp = {INF}
    else:
        exp = wake(inst, t0)
    if t1 is None:
        fin = max(exp)          # (a completion at the very date a suspension starts may be deferred to the resume)
        if fin < INF and inst.t_end is not None and fin < inst.t_end:
            oc.bad("operation-never-completes", "%s should complete at %r; the actor lived until %r" % (who, fin, inst.t_end))
        return
    if t1 not in exp:
        sig = {"sleep": "sleep-wrong-date", "exec": "exec-wrong-date", "join": "join-wrong-date", "suspend_self": "resume-wrong-date"}.get(o, "operation-wrong-date")
        if inst.susp and any(s <= t1 < r for s, r in inst.susp if s < r) and t1 > t0:
            sig = "suspended-actor-makes-progress"
        if t1 == t0 and [t0, t0] in inst.susp and min(exp) > t0:
            # suspended and resumed by two other actors in the very round in which it issued this blocking request (known_findings.json (C11))
            sig = "resume-in-the-round-of-a-blocking-request:returns-at-once"
        oc.bad(sig, "%s returned at %r, expected %s%s" % (who, t1, sorted(exp), "; suspensions %s" % inst.susp if inst.susp else ""))
