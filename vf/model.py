"""Shared by C19, C20, C21 (builder "model"): runner for drivers/s4u_model, the documented closed forms, configuration helpers."""
import math
import re

from . import core, s4u
from .platgen import Plat

DRIVER = "s4u_model"
EXT_VERSION = "model-ext-v5"     # must match drivers/s4u_ext_model.hpp: a stale binary is a harness error, not a verdict
PREC_T = 1e-9                    # precision/timing (default), Configuring_SimGrid.rst "Numerical Precision"
PREC_W = 1e-5                    # precision/work-amount (default)
T = s4u.T


def run(scenario, cpu=20, wall=240):
    log = s4u.Log(core.serve(DRIVER, scenario, cpu=cpu, wall=wall))
    if log.done and log.lines[-1].get("ext") != EXT_VERSION:
        raise core.Inconclusive("stale driver: built from extension header %r, expected %r" % (log.lines[-1].get("ext"), EXT_VERSION))
    return log


def crash_sig(log):
    """root-cause class of a run that did not finish: the last kernel message before the abort, else the signal"""
    msg = None
    for l in log.err.splitlines():
        m = re.match(r"^\[\s*[\d.]+\] \[[^\]]*\] (.*)$", l)
        if m and not m.group(1).startswith("Configuration change") and "numerical accuracy" not in m.group(1) \
                and not m.group(1).startswith("Switching to the L07"):
            msg = m.group(1)
    if log.cpu_exceeded:
        return "run-does-not-terminate"
    m = re.search(r"Uncaught exception ([\w:]+): \S+?:\d+:(\w+):", log.err)
    if m:
        return "run-crashed:uncaught-%s-in-%s" % (m.group(1).split("::")[-1], m.group(2))
    if msg:
        return "run-crashed:" + re.sub(r"[^a-z0-9]+", "-", msg.lower())[:60].strip("-")
    return "run-crashed:signal-%d" % (-log.rc) if log.rc < 0 else "run-crashed:rc-%d" % log.rc


# ------------------------------------------------------------------------------------------------ network parameters of the models
# defaults set by each model (src/kernel/resource/models/network_cm02.cpp; documented in Models.rst and Configuring_SimGrid.rst
# "Manual calibration factors")
SMPI_BW = "65472:0.940694;15424:0.697866;9376:0.58729;5776:1.08739;3484:0.77493;1426:0.608902;732:0.341987;257:0.338112;0:0.812084"
SMPI_LAT = "65472:11.6436;15424:3.48845;9376:2.59299;5776:2.18796;3484:1.88101;1426:1.61075;732:1.9503;257:1.95341;0:2.01467"
GAMMA_DEFAULT = 4194304.0
NET_MODELS = {
    #        latency-factor, bandwidth-factor, TCP-gamma default, crosstraffic default
    "raw": ("1.0", "1.0", 0.0, False),
    "CM02": ("1.0", "1.0", GAMMA_DEFAULT, True),
    "LV08": ("13.01", "0.97", GAMMA_DEFAULT, True),
    "SMPI": (SMPI_LAT, SMPI_BW, GAMMA_DEFAULT, True),
}
LOOPBACK_BW = 10e9               # network/loopback-bw default (documented: "10GBps bandwidth and a null latency")
LOOPBACK_LAT = 0.0


def parse_factor(spec):
    """'13.01' -> constant; 'b1:f1;b2:f2' -> sorted [(boundary, factor)]"""
    if ":" not in spec and ";" not in spec:
        return float(spec)
    res = []
    for chunk in spec.split(";"):
        b, f = chunk.split(":")
        res.append((int(b), float(f)))
    return sorted(res)


def factor_values(spec, size):
    """The factor(s) the documentation allows for a message of `size` bytes.  Configuring_SimGrid.rst describes the interval syntax twice,
    once with half-open intervals ('0:1;1000:2;5000:3' means 1 on [0,1000), 2 on [1000,5000)) and once with a closed one ('a message whose
    size is in [15424, 65472] will get 3.48845'): a size that IS a boundary may take the factor of either side; below the first boundary
    the factor is 1.  Returns a list of 1 or 2 admissible values (the implementation's choice first)."""
    f = parse_factor(spec) if isinstance(spec, str) else spec
    if isinstance(f, float):
        return [f]
    below = 1.0
    res = None
    for i, (b, v) in enumerate(f):
        if size < b:
            res = [below]
            break
        if size == b:
            res = [below, v]
            break
        below = v
    if res is None:
        res = [below]
    return res


def comm_time(plat, src, dst, size, model="LV08", crosstraffic=None, gamma=None, lat_factor=None, bw_factor=None, rate=-1.0,
              loopback=None):
    """Documented time of an isolated communication (Models.rst: raw / CM02 / LV08 sections; option docs):

        T = latency * latency_factor(size) + size / B
        B = bandwidth_factor(size) * min( min_l bandwidth_l / w_l , gamma / (2 * latency) )        [gamma > 0 and latency > 0]

    latency = sum of the physical latencies of the route; w_l = consumption of the flow on link l (1, 1.05 when cross-traffic is on and
    the reverse route uses l too, 0.05 for the links of the reverse route only; a FATPIPE link is never shared: 1).
    Returns a dict: times = admissible values (several when the documentation is ambiguous: a boundary size of an interval factor;
    a binding TCP window together with a bandwidth factor != 1, where the statement reads min(bw*factor, gamma/(2 lat)) and Models.rst
    defines the window for CM02 (factor 1) only), plus the classification of the case."""
    lf_spec, bf_spec, g0, ct0 = NET_MODELS[model]
    if crosstraffic is None:
        crosstraffic = ct0
    if gamma is None:
        gamma = g0
    lfs = factor_values(lat_factor if lat_factor is not None else lf_spec, size)
    bfs = factor_values(bw_factor if bw_factor is not None else bf_spec, size)
    if src == dst and plat.route(src, dst) is None:
        # the implicit loopback link: one FATPIPE link (network/loopback-bw, network/loopback-lat), never shared
        phys, lat = loopback if loopback else (LOOPBACK_BW, LOOPBACK_LAT)
        binding = "loopback"
        xt = False
    else:
        lat = plat.latency(src, dst)
        w = plat.flow_weights(src, dst, crosstraffic)
        phys, binding = math.inf, None
        for l, wl in sorted(w.items()):
            if wl > 0 and plat.links[l]["bw"] / wl < phys:
                phys, binding = plat.links[l]["bw"] / wl, l
        fwd = set(plat.route(src, dst))
        xt = crosstraffic and binding is not None and (w[binding] == 1.05 or binding not in fwd)
        binding = "back-only" if binding not in fwd else ("shared-1.05" if w[binding] == 1.05 else "forward")
    window = gamma / (2.0 * lat) if (gamma > 0 and lat > 0) else math.inf
    times = []
    info = {"lat": lat, "phys": phys, "window": window, "binding": binding, "crosstraffic_binding": bool(xt)}
    for lf in lfs:
        for bf in bfs:
            readings = [bf * min(phys, window)]
            if window < math.inf and bf != 1.0:
                readings.append(min(phys * bf, window))          # the statement's literal formula
            for b in readings:
                if rate >= 0:
                    b = min(b, rate)
                t = lat * lf + (size / b if size > 0 else 0.0)
                if t not in times:
                    times.append(t)
    info["times"] = times
    info["gamma_limited"] = window < phys
    info["gamma_ambiguous"] = window < math.inf and any(bf != 1.0 for bf in bfs) and len(set(
        [bf * min(phys, window) for bf in bfs] + [min(phys * bf, window) for bf in bfs])) > len(bfs)
    info["factor_boundary"] = len(lfs) > 1 or len(bfs) > 1
    return info


def close(obs, exp, rel=1e-9, abs_=PREC_T, date=0.0):
    """|obs - exp| within rel*exp + precision/timing + a few ulps of the dates involved"""
    return abs(obs - exp) <= abs_ + rel * abs(exp) + 8 * math.ulp(max(abs(date), abs(exp), 1e-300))
