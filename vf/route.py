"""Shared generators, platform builder, runner and reference models for the routing properties C24-C26.

Platform description (see drivers/route_driver.cpp) is a tree of zone dicts.  Everything the oracles use is computed from
that *description*; the only thing taken from SimGrid besides the routes is the dump of link names/latencies of the
zones that create their own links (torus, fat-tree, dragonfly).

Link latencies are dyadic rationals k/1024 (k <= 4096): sums of up to a few hundred of them are exact in binary64
whatever the order of the additions, so the latency oracle may use equality.
"""
import heapq
import json

from hypothesis import strategies as st

from . import core, known

DRIVER = "route_driver"
LOOPBACK = "__loopback__"     # the global loopback link of the network model (documented default: latency 0)


# ---------------------------------------------------------------------------------------------
# running

def run_platform(case, cpu=10, wall=120):
    """-> (RunResult, zones dump {zone: {"verts": [...], "links": {name: lat}}}, results list or None, done flag)"""
    r = core.serve(DRIVER, case, cpu=cpu, wall=wall)
    zones, res, done, build_err = {}, [], False, None
    for l in r.json_lines():
        if "zone" in l:
            zones[l["zone"]] = {"verts": l["verts"], "links": {k: float.fromhex(v) for k, v in l["links"].items()}}
        elif "i" in l:
            if "lat" in l:
                l["lat"] = float.fromhex(l["lat"])
            res.append(l)
        elif "done" in l:
            done = True
        elif "build_err" in l:
            build_err = l["build_err"]
    return r, zones, res, done, build_err


def lat_of(k):
    return k / 1024.0


def concrete(name, direction, policy, back=False):
    """Name of the link object actually put in a route for a declared <link_ctn>: split-duplex links are two links."""
    if policy != 2:
        return name
    up = (direction == 1)
    if back:
        up = not up
    return name + ("_UP" if up else "_DOWN")


# ---------------------------------------------------------------------------------------------
# C25: shortest-path zones.  A *graph* is
#   {"n": int, "types": "hhrh..", "order": [creation order of the nodes],
#    "links": [[lat_k, policy], ...],
#    "edges": [[src, dst, [[link index, dir], ...], sym], ...]      declared one-hop routes, in declaration order
#    "selfs": [[node, [[link index, dir], ...]], ...]               declared loopback routes (hosts only)
#    "pairs": [[src, dst], ...]}                                    queries, in this order (the order matters for the cache)

SP_KINDS = ["floyd", "dijkstra", "dijkstracache"]
PREFIX = {"full": "F", "floyd": "W", "dijkstra": "D", "dijkstracache": "C"}


def graph_valid(g):
    n = g["n"]
    if n < 1 or len(g["types"]) != n or sorted(g["order"]) != list(range(n)):
        return False
    seen = set()
    for s, d, ls, sym in g["edges"]:
        if not (0 <= s < n and 0 <= d < n) or s == d or not ls:
            return False
        if (s, d) in seen or (sym and (d, s) in seen):
            return False
        seen.add((s, d))
        if sym:
            seen.add((d, s))
        for li, di in ls:
            if not 0 <= li < len(g["links"]):
                return False
            if g["links"][li][1] == 2 and di not in (1, 2):
                return False
    selfs = set()
    for v, ls in g.get("selfs", []):
        if v in selfs or not ls or g["types"][v] != "h":
            return False
        selfs.add(v)
    return True


def directed_edges(g, prefix=""):
    """{(s, d): [concrete link names]} for every declared direction."""
    res = {}
    for s, d, ls, sym in g["edges"]:
        res[(s, d)] = [concrete("%sl%d" % (prefix, li), di, g["links"][li][1]) for li, di in ls]
        if sym:
            res[(d, s)] = [concrete("%sl%d" % (prefix, li), di, g["links"][li][1], back=True) for li, di in reversed(ls)]
    return res


def self_routes(g, prefix=""):
    return {v: [concrete("%sl%d" % (prefix, li), di, g["links"][li][1]) for li, di in ls] for v, ls in g.get("selfs", [])}


def graph_zone(g, kind, prefix):
    """Zone description of graph g for the driver, every name prefixed."""
    members = []
    for v in g["order"]:
        members.append(["h" if g["types"][v] == "h" else "r", "%sn%d" % (prefix, v)])
    links = [{"name": "%sl%d" % (prefix, i), "lat": lat_of(k), "policy": p} for i, (k, p) in enumerate(g["links"])]
    routes = []
    for s, d, ls, sym in g["edges"]:
        routes.append({"src": "%sn%d" % (prefix, s), "dst": "%sn%d" % (prefix, d),
                       "links": [["%sl%d" % (prefix, li), di] for li, di in ls], "sym": bool(sym)})
    for v, ls in g.get("selfs", []):
        routes.append({"src": "%sn%d" % (prefix, v), "dst": "%sn%d" % (prefix, v),
                       "links": [["%sl%d" % (prefix, li), di] for li, di in ls], "sym": False})
    return {"name": prefix + "zone", "kind": kind, "members": members, "links": links, "routes": routes}


def all_dists(n, dedges):
    """All-pairs minimal link counts over the declared one-hop routes (weights = number of links): plain Dijkstra
    from every source.  dist[s][d] = None when d cannot be reached."""
    out = [[] for _ in range(n)]
    for (s, d), ls in dedges.items():
        out[s].append((d, len(ls)))
    res = []
    for s in range(n):
        dist = [None] * n
        dist[s] = 0
        pq = [(0, s)]
        while pq:
            c, v = heapq.heappop(pq)
            if c > dist[v]:
                continue
            for (u, w) in out[v]:
                if dist[u] is None or c + w < dist[u]:
                    dist[u] = c + w
                    heapq.heappush(pq, (c + w, u))
        res.append(dist)
    return res


def decode_chain(route, s, d, dedges, reverse_hops=False):
    """Is `route` (list of link names) the concatenation, in order, of declared one-hop routes v0->v1->...->vk with
    v0 = s, vk = d?  Returns the list of hops [(v_i, v_i+1), ...] of one such decomposition, or None.
    Links may be shared by several declared routes, so this is a search over (position, node) states."""
    out = {}
    for (a, b), ls in dedges.items():
        out.setdefault(a, []).append((b, list(reversed(ls)) if reverse_hops else ls))
    L = len(route)
    start = (0, s)
    prev = {start: None}
    stack = [start]
    while stack:
        pos, v = stack.pop()
        if pos == L and v == d and (pos, v) != start:
            hops = []
            cur = (pos, v)
            while prev[cur] is not None:
                p = prev[cur]
                hops.append((p[1], cur[1]))
                cur = p
            return list(reversed(hops))
        for (b, ls) in out.get(v, []):
            k = len(ls)
            if route[pos:pos + k] == ls:
                nxt = (pos + k, b)
                if nxt not in prev:
                    prev[nxt] = (pos, v)
                    stack.append(nxt)
    return None


def reach_all(dist_row):
    return all(x is not None for x in dist_row)


@st.composite
def sp_graphs(draw, max_n=30):
    size = draw(st.sampled_from(["tiny", "small", "small", "medium", "large"]))
    n = draw({"tiny": st.integers(1, 4), "small": st.integers(3, 8), "medium": st.integers(6, 14),
              "large": st.integers(min(12, max_n), max_n)}[size])
    types = "".join(draw(st.lists(st.sampled_from("hhhr"), min_size=n, max_size=n)))
    order = draw(st.permutations(list(range(n))))
    cls = draw(st.sampled_from(["cycle", "tree-sym", "tree-sym", "mixed", "weak", "weak"]))
    perm = draw(st.permutations(list(range(n))))
    nlinks = draw(st.integers(1, min(3 * n, 40)))
    if n == 1:
        cls = "single-node"
    sd_share = draw(st.sampled_from([0, 0, 1, 3]))
    links = []
    for _ in range(nlinks):
        pol = 2 if draw(st.integers(0, 9)) < sd_share else draw(st.sampled_from([0, 1, 1]))
        links.append([draw(st.sampled_from([0, 1, 2, 3, 5, 8, 64, 1024, 4096])), pol])
    fresh = [0]
    shared = draw(st.booleans())   # may several routes use the same link object?

    def mk_links(k):
        res = []
        for _ in range(k):
            if shared:
                li = draw(st.integers(0, nlinks - 1))
            else:
                li = fresh[0] % nlinks
                fresh[0] += 1
            di = draw(st.sampled_from([1, 2])) if links[li][1] == 2 else 0
            res.append([li, di])
        return res
    nlk = st.sampled_from([1, 1, 1, 2, 2, 3, 4])
    used = set()
    edges = []

    def add(s, d, sym, k=None):
        if s == d or (s, d) in used or (sym and (d, s) in used):
            return False
        used.add((s, d))
        if sym:
            used.add((d, s))
        edges.append([s, d, mk_links(k if k is not None else draw(nlk)), sym])
        return True
    if cls == "cycle":
        for i in range(n):
            add(perm[i], perm[(i + 1) % n], False)
    elif cls == "tree-sym":
        for i in range(1, n):
            add(perm[i], perm[draw(st.integers(0, i - 1))], True)
    elif cls == "mixed":     # strongly connected: symmetric tree where some edges are declared as two one-way routes
        for i in range(1, n):
            p = perm[draw(st.integers(0, i - 1))]
            if draw(st.booleans()):
                add(perm[i], p, True)
            else:
                add(perm[i], p, False)
                add(p, perm[i], False)
    else:                    # weakly connected: a tree whose edges have a random orientation, some two-way
        for i in range(1, n):
            p = perm[draw(st.integers(0, i - 1))]
            o = draw(st.sampled_from(["up", "down", "down", "both"]))
            if o == "up":
                add(perm[i], p, False)
            elif o == "down":
                add(p, perm[i], False)
            else:
                add(perm[i], p, True)
    # extra routes: chords.  Long direct routes next to short multi-hop ones are what makes minimality non-trivial.
    nextra = draw(st.integers(0, min(2 * n, 25)))
    for _ in range(nextra):
        s = draw(st.integers(0, n - 1))
        d = draw(st.integers(0, n - 1))
        sym = draw(st.booleans()) if cls != "weak" else draw(st.sampled_from([False, False, True]))
        add(s, d, sym, draw(st.sampled_from([1, 2, 3, 3, 4, 4])))
    edges = draw(st.permutations(edges)) if len(edges) <= 12 else edges
    selfs = []
    if draw(st.integers(0, 3)) == 0:
        for v in range(n):
            if types[v] == "h" and draw(st.integers(0, 2)) == 0:
                selfs.append([v, mk_links(draw(st.sampled_from([1, 1, 2])))])
    # queries
    if n <= 6:
        pairs = [[s, d] for s in range(n) for d in range(n)]
        pairs = draw(st.permutations(pairs))
        pairs += draw(st.lists(st.tuples(st.integers(0, n - 1), st.integers(0, n - 1)).map(list), max_size=6))
    else:
        pairs = draw(st.lists(st.tuples(st.integers(0, n - 1), st.integers(0, n - 1)).map(list), min_size=8, max_size=60))
    return {"n": n, "types": types, "order": list(order), "links": links, "edges": [list(e) for e in edges],
            "selfs": selfs, "pairs": [list(p) for p in pairs], "cls": cls}


def sp_platform(g, kinds=("full",) + tuple(SP_KINDS), queries=None):
    """One platform holding the same graph once per zone kind (names prefixed), and the list of queries
    [(kind, s, d)] in the order they are issued."""
    zones = [graph_zone(g, k, PREFIX[k]) for k in kinds]
    pairs = []
    meta = []
    for k in kinds:
        for (s, d) in (queries[k] if queries else []):
            pairs.append(["%sn%d" % (PREFIX[k], s), "%sn%d" % (PREFIX[k], d)])
            meta.append((k, s, d))
    return {"zones": zones, "pairs": pairs}, meta


# =============================================================================================
# C26: structured topologies.  A *topo* is
#   {"kind": "torus", "dims": [..]} | {"kind": "fattree", "ft": [levels, [down], [up], [count]]}
#   | {"kind": "dragonfly", "df": [[groups, blue], [chassis, black], [routers, green], nodes]}
#   + {"policy": 1 shared | 2 splitduplex | 0 fatpipe, "lat_k": k, "loopback": bool, "lb_lat_k": k, "limiter": bool,
#      "pairs": [[src leaf, dst leaf], ...]}
#   | {"kind": "star", "members": [{"type": "h"|"r", "up": [[link, dir]..]|None, "down": [...]|None, "sym": bool,
#                                    "loop": [[link, dir]..]|None}], "links": [[lat_k, policy]...], "pairs": [...]}
# Leaves of the cluster zones are hosts "<zone>-<id>" created in leaf order, so netpoint id == leaf index.
import re

RE_TORUS = re.compile(r"^(.*)_link_from_(\d+)_to_(\d+)(_UP|_DOWN)?$")
RE_FT = re.compile(r"^link_from_(-?\d+)_(-?\d+)_(\d+)(_UP|_DOWN)?$")
RE_LOCAL = re.compile(r"^local_link_from_router_(\d+)_to_node_(\d+)_(\d+)(_UP|_DOWN)?$")
RE_GREEN = re.compile(r"^green_link_in_chassis_(\d+)_between_routers_(\d+)_and_(\d+)_(\d+)(_UP|_DOWN)?$")
RE_BLACK = re.compile(r"^black_link_in_group_(\d+)_between_chassis_(\d+)_and_(\d+)_blade_(\d+)_(\d+)(_UP|_DOWN)?$")
RE_BLUE = re.compile(r"^blue_link_between_group_(\d+)_and_(\d+)_routers_(\d+)_and_(\d+)_(\d+)(_UP|_DOWN)?$")
RE_LIM = re.compile(r"^(.*)-lim(\d+)c((?:_\d+)+)$")
RE_LB = re.compile(r"^(.*)-lb(\d+)$")


def prod(xs):
    r = 1
    for x in xs:
        r *= x
    return r


def topo_leaves(t):
    if t["kind"] == "torus":
        return prod(t["dims"])
    if t["kind"] == "fattree":
        return prod(t["ft"][1])
    if t["kind"] == "dragonfly":
        df = t["df"]
        return df[0][0] * df[1][0] * df[2][0] * df[3]
    return len(t["members"])


def topo_zone(t, name):
    """Zone description for the driver."""
    if t["kind"] == "star":
        members = []
        routes = []
        for i, m in enumerate(t["members"]):
            nm = "%s-%d" % (name, i)
            members.append([m["type"], nm])

            def ll(ls):
                return [["%s-l%d" % (name, li), di] for li, di in ls]
            if m.get("up") is not None:
                routes.append({"src": nm, "dst": None, "links": ll(m["up"]), "sym": bool(m.get("sym"))})
            if m.get("down") is not None and not m.get("sym"):
                routes.append({"src": None, "dst": nm, "links": ll(m["down"]), "sym": False})
            if m.get("loop"):
                routes.append({"src": nm, "dst": nm, "links": ll(m["loop"]), "sym": False})
        if t.get("route_order"):
            routes = [routes[i] for i in t["route_order"] if i < len(routes)] + \
                     [r for i, r in enumerate(routes) if i not in t["route_order"]]
        links = [{"name": "%s-l%d" % (name, i), "lat": lat_of(k), "policy": p} for i, (k, p) in enumerate(t["links"])]
        return {"name": name, "kind": "star", "members": members, "links": links, "routes": routes}
    z = {"name": name, "kind": t["kind"], "lat": lat_of(t.get("lat_k", 0)), "policy": t.get("policy", 2),
         "loopback": bool(t.get("loopback")), "lb_lat": lat_of(t.get("lb_lat_k", 0)), "limiter": bool(t.get("limiter"))}
    for k in ("dims", "ft", "df"):
        if k in t:
            z[k] = t[k]
    return z


class Bad(Exception):
    def __init__(self, sig, msg):
        Exception.__init__(self, msg)
        self.sig = sig


def split_sd(name):
    """-> (base name, 'UP'|'DOWN'|None)"""
    if name.endswith("_UP"):
        return name[:-3], "UP"
    if name.endswith("_DOWN"):
        return name[:-5], "DOWN"
    return name, None


class Walk:
    """Accumulates what a decoded route tells: visited nodes (for the limiter count), topology links with the direction
    in which they were traversed (for the split-duplex consistency check)."""

    def __init__(self):
        self.visits = []       # node keys in visiting order
        self.hops = []         # (base link name, half, from node key, to node key)
        self.limiters = []     # node keys whose limiter was found in the route
        self.loopbacks = []


def strip_special(zname, links, limiter_key):
    """Separates limiter / loopback links (created by our callbacks, named after the element) from topology links."""
    topo, lims, lbs = [], [], []
    for l in links:
        m = RE_LIM.match(l)
        if m and m.group(1) == zname:
            coords = tuple(int(x) for x in m.group(3).split("_")[1:])
            lims.append(limiter_key(int(m.group(2)), coords))
            continue
        m = RE_LB.match(l)
        if m and m.group(1) == zname:
            lbs.append(int(m.group(2)))
            continue
        topo.append(l)
    return topo, lims, lbs


# ---- torus

def torus_coords(dims, i):
    """Coordinates of leaf i: dimension 0 varies fastest (this is what the link names generated by the zone encode:
    leaf i is linked to leaf i+1 in dimension 0)."""
    c = []
    for d in dims:
        c.append(i % d)
        i //= d
    return c


def check_torus(t, zname, s, d, links):
    dims = t["dims"]
    n = prod(dims)
    topo, lims, lbs = strip_special(zname, links, lambda i, c: i)
    w = Walk()
    w.limiters = lims
    w.loopbacks = lbs
    if s == d and t.get("loopback"):
        if topo or lbs != [s] or lims:
            raise Bad("torus:loopback", "route of leaf %d to itself with a configured loopback is %s, expected only its loopback link" % (s, links))
        return w
    if lbs:
        raise Bad("torus:loopback", "loopback link in the route %d -> %d: %s" % (s, d, links))
    cur = s
    w.visits.append(cur)
    moves = []       # (dimension, +1|-1)
    for l in topo:
        m = RE_TORUS.match(l)
        if not m or m.group(1) != zname:
            raise Bad("torus:foreign-link", "link %s in route %d -> %d is not a link of the torus" % (l, s, d))
        a, b = int(m.group(2)), int(m.group(3))
        if a == cur:
            nxt = b
        elif b == cur:
            nxt = a
        else:
            raise Bad("torus:not-a-walk", "route %d -> %d: link %s does not touch the current node %d (route %s)" % (s, d, l, cur, links))
        if a == b:
            raise Bad("torus:not-a-walk", "route %d -> %d uses the self link %s of a dimension of size 1" % (s, d, l))
        ca, cb = torus_coords(dims, cur), torus_coords(dims, nxt)
        diff = [j for j in range(len(dims)) if ca[j] != cb[j]]
        if len(diff) != 1:
            raise Bad("torus:not-a-walk", "link %s joins %s and %s which are not neighbours" % (l, ca, cb))
        j = diff[0]
        step = (cb[j] - ca[j]) % dims[j]
        if step == 1 and a == cur:
            sgn = +1
        elif step == dims[j] - 1 and b == cur:
            sgn = -1
        elif dims[j] == 2:
            sgn = +1 if a == cur else -1
        else:
            raise Bad("torus:not-a-walk", "link %s joins %s and %s which are not neighbours" % (l, ca, cb))
        base, half = split_sd(l)
        w.hops.append((base, half, cur, nxt))
        moves.append((j, sgn))
        cur = nxt
        w.visits.append(cur)
    if cur != d:
        raise Bad("torus:wrong-destination", "route %d -> %d ends at leaf %d: %s" % (s, d, cur, links))
    # dimension by dimension, one direction per dimension, the shorter way round
    cs, cd = torus_coords(dims, s), torus_coords(dims, d)
    seen = []
    for j, sgn in moves:
        if not seen or seen[-1][0] != j:
            if any(x[0] == j for x in seen):
                raise Bad("torus:dimension-order", "route %d -> %d comes back to dimension %d after leaving it: moves %s" % (s, d, j, moves))
            seen.append([j, sgn, 1])
        else:
            if seen[-1][1] != sgn:
                raise Bad("torus:direction", "route %d -> %d goes both ways in dimension %d: moves %s" % (s, d, j, moves))
            seen[-1][2] += 1
    for j in range(len(dims)):
        delta = (cd[j] - cs[j]) % dims[j]
        best = min(delta, dims[j] - delta)
        got = [x for x in seen if x[0] == j]
        cnt = got[0][2] if got else 0
        if cnt != best:
            raise Bad("torus:not-shorter-way", "route %d -> %d (coords %s -> %s, dims %s) makes %d steps in dimension %d, the shorter way round is %d"
                      % (s, d, cs, cd, dims, cnt, j, best))
    return w


# ---- fat tree

class FatTree:
    def __init__(self, ft):
        self.h, self.m, self.w, self.p = ft[0], ft[1], ft[2], ft[3]
        self.n = prod(self.m)
        self.by_level = [self.n]
        for i in range(self.h):
            self.by_level.append(prod(self.w[:i + 1]) * prod(self.m[i + 1:]))
        # ids given by the zone: leaves 0..n-1, then switches 2n-1, 2n-2, ... in (level, position) order
        self.sw_id = {}
        self.by_id = {}
        k = 2 * self.n
        for lvl in range(1, self.h + 1):
            for pos in range(self.by_level[lvl]):
                k -= 1
                self.sw_id[(lvl, pos)] = k
                self.by_id.setdefault(k, []).append((lvl, pos))

    def label(self, lvl, pos):
        lab = []
        for i in range(self.h):
            mx = self.w[i] if i < lvl else self.m[i]
            lab.append(pos % mx)
            pos //= mx
        return lab

    def node_id(self, lvl, pos):
        return pos if lvl == 0 else self.sw_id[(lvl, pos)]

    def find(self, lvl, ident):
        """node of that level with that id, or None"""
        if lvl == 0:
            return (0, ident) if 0 <= ident < self.n else None
        for (l, p) in self.by_id.get(ident, []):
            if l == lvl:
                return (l, p)
        return None

    def related(self, parent, child):
        if parent[0] != child[0] + 1:
            return False
        lp, lc = self.label(*parent), self.label(*child)
        return all(lp[i] == lc[i] or i + 1 == parent[0] for i in range(self.h))

    def in_subtree(self, root, leafpos):
        lr, ln = self.label(*root), self.label(0, leafpos)
        return all(lr[i] == ln[i] for i in range(root[0], self.h))


def check_fattree(t, zname, s, d, links, pos_offset=0):
    ft = FatTree(t["ft"])
    topo, lims, lbs = strip_special(zname, links, lambda i, c: (c[0], c[1]))
    w = Walk()
    w.limiters = lims
    w.loopbacks = lbs
    if s == d and t.get("loopback"):
        if topo or lbs != [s] or lims:
            raise Bad("fattree:loopback", "route of leaf %d to itself with a configured loopback is %s, expected only its loopback link" % (s, links))
        return w
    if lbs:
        raise Bad("fattree:loopback", "loopback link in the route %d -> %d: %s" % (s, d, links))
    cur = (0, s)
    w.visits.append(cur)
    phase = "up"
    ups = []
    top = None
    for l in topo:
        m = RE_FT.match(l)
        if not m:
            raise Bad("fattree:foreign-link", "link %s in route %d -> %d is not a link of the fat tree" % (l, s, d))
        child, parent, uid = int(m.group(1)), int(m.group(2)), int(m.group(3))
        base, half = split_sd(l)
        nxt = None
        if phase == "up" and child == ft.node_id(*cur) and cur[0] < ft.h:
            cand = ft.find(cur[0] + 1, parent)
            if cand and ft.related(cand, cur):
                nxt = cand
                ups.append((cur, cand, uid, l))
        if nxt is None and parent == ft.node_id(*cur) and cur[0] >= 1:
            cand = ft.find(cur[0] - 1, child)
            if cand and ft.related(cur, cand):
                nxt = cand
                if phase == "up":
                    top = cur
                phase = "down"
        if nxt is None:
            raise Bad("fattree:not-a-walk", "route %d -> %d: link %s does not continue from node (level %d, position %d, id %d) in the %s phase: %s"
                      % (s, d, l, cur[0], cur[1], ft.node_id(*cur), phase, links))
        w.hops.append((base, half, cur, nxt))
        cur = nxt
        w.visits.append(cur)
    if cur != (0, d):
        raise Bad("fattree:wrong-destination", "route %d -> %d ends at node %s: %s" % (s, d, cur, links))
    if top is None:
        raise Bad("fattree:not-a-walk", "route %d -> %d never turns down: %s" % (s, d, links))
    # nearest common ancestor: the lowest level whose switches have the destination below them
    ls, ld = ft.label(0, s), ft.label(0, d)
    differ = [i for i in range(ft.h) if ls[i] != ld[i]]
    lvl = (max(differ) + 1) if differ else 1
    if top[0] != lvl:
        raise Bad("fattree:not-nearest-ancestor", "route %d -> %d (labels %s -> %s) climbs to level %d, the nearest common ancestor is at level %d: %s"
                  % (s, d, ls, ld, top[0], lvl, links))
    if len(topo) != 2 * lvl:
        raise Bad("fattree:length", "route %d -> %d has %d tree links, expected %d" % (s, d, len(topo), 2 * lvl))
    # documented up-port choice: destination-mod-k
    D = d + pos_offset
    for (c, par, uid, l) in ups:
        x = D // prod(ft.w[:c[0]])
        digit = ft.label(*par)[c[0]]
        if digit != x % ft.w[c[0]]:
            raise Bad("fattree:d-mod-k", "route %d -> %d: from node (level %d, position %d) the up link %s leads to the parent whose digit is %d, "
                      "destination-mod-k selects parent %d" % (s, d, c[0], c[1], l, digit, x % ft.w[c[0]]))
    return w


# ---- dragonfly

class Dragonfly:
    def __init__(self, df, link_names):
        (self.G, _), (self.C, _), (self.B, _), self.N = df[0], df[1], df[2], df[3]
        # green links do not carry their group in their name: they are created group by group, chassis by chassis, so the
        # rank of their unique id among the green links gives it
        greens = []
        for l in link_names:
            base, half = split_sd(l)
            m = RE_GREEN.match(base)
            if m:
                greens.append((int(m.group(4)), base))
        greens = sorted(set(greens))
        per_chassis = self.B * (self.B - 1) // 2
        self.green_group = {}
        for rank, (uid, base) in enumerate(greens):
            self.green_group[base] = (rank // per_chassis) // self.C if per_chassis else 0

    def router(self, g, c, b):
        return (g * self.C + c) * self.B + b

    def coords(self, leaf):
        n = leaf % self.N
        r = leaf // self.N
        return (r // (self.C * self.B), (r // self.B) % self.C, r % self.B, n)

    def rcoords(self, r):
        return (r // (self.C * self.B), (r // self.B) % self.C, r % self.B)

    def ends(self, base):
        """router-to-router link -> (colour, router a, router b) with a < b in the zone's own orientation (a -> b is 'UP')"""
        m = RE_GREEN.match(base)
        if m:
            c, j, k = int(m.group(1)), int(m.group(2)), int(m.group(3))
            g = self.green_group[base]
            return "green", self.router(g, c, j), self.router(g, c, k)
        m = RE_BLACK.match(base)
        if m:
            g, j, k, b = int(m.group(1)), int(m.group(2)), int(m.group(3)), int(m.group(4))
            return "black", self.router(g, j, b), self.router(g, k, b)
        m = RE_BLUE.match(base)
        if m:
            return "blue", int(m.group(3)), int(m.group(4))
        return None


def check_dragonfly(t, zname, s, d, links, link_names):
    df = Dragonfly(t["df"], link_names)
    UMAX = 4294967295
    topo, lims, lbs = strip_special(zname, links, lambda i, c: ("r",) + c[:3] if c[3] == UMAX else ("n", i))
    w = Walk()
    w.limiters = lims
    w.loopbacks = lbs
    if s == d and t.get("loopback"):
        if topo or lbs != [s] or lims:
            raise Bad("dragonfly:loopback", "route of leaf %d to itself with a configured loopback is %s, expected only its loopback link" % (s, links))
        return w
    if lbs:
        raise Bad("dragonfly:loopback", "loopback link in the route %d -> %d: %s" % (s, d, links))
    cs, cd = df.coords(s), df.coords(d)
    if len(topo) < 2:
        raise Bad("dragonfly:not-a-walk", "route %d -> %d has no local links: %s" % (s, d, links))
    first, last = topo[0], topo[-1]
    b0, h0 = split_sd(first)
    m = RE_LOCAL.match(b0)
    r_src = df.router(*cs[:3])
    r_dst = df.router(*cd[:3])
    if not m or int(m.group(1)) != r_src or int(m.group(2)) != cs[3]:
        raise Bad("dragonfly:not-a-walk", "route %d -> %d %s does not start with the local link of node %s (router %d)" % (s, d, links, cs, r_src))
    w.visits.append(("n", s))
    w.hops.append((b0, h0, ("n", s), ("r",) + cs[:3]))
    cur = r_src
    w.visits.append(("r",) + df.rcoords(cur))
    colours = []    # (colour, group in which / towards which)
    for l in topo[1:-1]:
        base, half = split_sd(l)
        e = df.ends(base)
        if e is None:
            raise Bad("dragonfly:foreign-link", "link %s inside route %d -> %d is not a router-to-router link of the dragonfly" % (l, s, d))
        col, a, b = e
        if a == cur:
            nxt = b
        elif b == cur:
            nxt = a
        else:
            raise Bad("dragonfly:not-a-walk", "route %d -> %d (%s -> %s): %s link %s joins routers %s and %s but the route is at router %s: %s"
                      % (s, d, cs, cd, col, l, df.rcoords(a), df.rcoords(b), df.rcoords(cur), links))
        w.hops.append((base, half, ("r",) + df.rcoords(cur), ("r",) + df.rcoords(nxt)))
        colours.append((col, df.rcoords(cur), df.rcoords(nxt)))
        cur = nxt
        w.visits.append(("r",) + df.rcoords(cur))
    b1, h1 = split_sd(last)
    m = RE_LOCAL.match(b1)
    if not m or int(m.group(1)) != r_dst or int(m.group(2)) != cd[3]:
        raise Bad("dragonfly:not-a-walk", "route %d -> %d %s does not end with the local link of node %s (router %d)" % (s, d, links, cd, r_dst))
    if cur != r_dst:
        raise Bad("dragonfly:not-a-walk", "route %d -> %d (%s -> %s) reaches router %s before the last local link, the destination hangs off router %s: %s"
                  % (s, d, cs, cd, df.rcoords(cur), df.rcoords(r_dst), links))
    w.hops.append((b1, h1, ("r",) + cd[:3], ("n", d)))
    w.visits.append(("n", d))
    # hierarchy: exactly one blue link between different groups, none inside a group; inside each group at most one
    # green move (only if the blades differ) and at most one black move (only if the chassis differ)
    nblue = sum(1 for c in colours if c[0] == "blue")
    if nblue != (1 if cs[0] != cd[0] else 0):
        raise Bad("dragonfly:blue-count", "route %d -> %d (%s -> %s) uses %d blue links: %s" % (s, d, cs, cd, nblue, links))
    segs = [[]]
    for c in colours:
        if c[0] == "blue":
            segs.append([])
        else:
            segs[-1].append(c)
    for seg in segs:
        if not seg:
            continue
        a, b = seg[0][1], seg[-1][2]
        need = sorted((["green"] if a[2] != b[2] else []) + (["black"] if a[1] != b[1] else []))
        if sorted(x[0] for x in seg) != need:
            raise Bad("dragonfly:not-minimal", "route %d -> %d (%s -> %s): inside group %d it goes from router %s to router %s with links %s, expected %s: %s"
                      % (s, d, cs, cd, a[0], a, b, [x[0] for x in seg], need, links))
    return w


# ---- star

def star_expected(t, zname, s, d):
    ms = t["members"]

    def conc(ls, back=False):
        seq = reversed(ls) if back else ls
        return [concrete("%s-l%d" % (zname, li), di, t["links"][li][1], back=back) for li, di in seq]

    def up(m):
        return conc(m["up"]) if m.get("up") is not None else []

    def down(m):
        if m.get("sym") and m.get("up") is not None:
            return conc(m["up"], back=True)
        return conc(m["down"]) if m.get("down") is not None else []
    if s == d and ms[s].get("loop"):
        seq = conc(ms[s]["loop"])
    else:
        seq = up(ms[s]) + down(ms[d])
    res = []
    for l in seq:
        if l not in res:
            res.append(l)
    return res


# ---- limiter / split-duplex bookkeeping shared by the three cluster kinds

def check_limiters(t, w, s, d, links, kind):
    """Limiter links: one per visit of a node (leaf or switch/router) iff configured, none otherwise."""
    exp = sorted(map(repr, w.visits)) if t.get("limiter") else []
    if s == d and t.get("loopback"):
        exp = []
    got = sorted(map(repr, w.limiters))
    if got != exp:
        raise Bad(kind + ":limiter", "route %d -> %d: limiter links of %s, the visited elements are %s (limiter configured: %s): %s"
                  % (s, d, got, exp, bool(t.get("limiter")), links))


@st.composite
def topos(draw):
    kind = draw(st.sampled_from(["torus", "torus", "fattree", "fattree", "dragonfly", "dragonfly", "star"]))  # noqa
    t = {"kind": kind}
    if kind == "torus":
        nd = draw(st.sampled_from([1, 1, 2, 2, 2, 3, 3, 4, 5]))
        dims = []
        left = 64
        for _ in range(nd):
            hi = max(1, min(left, 9))
            x = draw(st.sampled_from([v for v in [1, 2, 2, 3, 3, 4, 4, 5, 5, 6, 7, 8, 9] if v <= hi]))
            if x == 1 and 1 in dims:      # two dimensions of size 1 make the zone create the link "from_i_to_i" twice
                x = 2 if hi >= 2 else 1
            if x == 1 and 1 in dims:
                continue
            dims.append(x)
            left //= x
        t["dims"] = dims
    elif kind == "fattree":
        h = draw(st.sampled_from([1, 2, 2, 3, 3]))
        while True:
            m = [draw(st.integers(1, 4)) for _ in range(h)]
            w = [draw(st.sampled_from([1, 1, 2, 2, 3])) for _ in range(h)]
            p = [draw(st.sampled_from([1, 1, 1, 2, 3])) for _ in range(h)]
            ft = FatTree([h, m, w, p])
            if ft.n <= 64 and sum(ft.by_level) <= 160:
                break
            m = [min(x, 2) for x in m]
            w = [min(x, 2) for x in w]
            ft = FatTree([h, m, w, p])
            if ft.n <= 64 and sum(ft.by_level) <= 160:
                break
        t["ft"] = [h, m, w, p]
    elif kind == "dragonfly":
        B = draw(st.integers(1, 3))
        G = draw(st.integers(1, B))      # documented limitation: groups <= routers per chassis
        C = draw(st.integers(1, 3))
        N = draw(st.integers(1, 3))
        t["df"] = [[G, draw(st.integers(1, 3))], [C, draw(st.integers(1, 3))], [B, draw(st.integers(1, 3))], N]
    else:
        n = draw(st.integers(1, 8))
        nl = draw(st.integers(1, 2 * n + 2))
        links = [[draw(st.sampled_from([0, 1, 2, 8, 1024])), draw(st.sampled_from([0, 1, 1, 2]))] for _ in range(nl)]

        def lst(lo, hi):
            res = []
            for _ in range(draw(st.integers(lo, hi))):
                li = draw(st.integers(0, nl - 1))
                res.append([li, draw(st.sampled_from([1, 2])) if links[li][1] == 2 else 0])
            return res
        members = []
        for i in range(n):
            conf = draw(st.sampled_from(["none", "updown", "updown", "sym", "sym"]))
            m = {"type": draw(st.sampled_from("hhhr")), "up": None, "down": None, "sym": False, "loop": None}
            if conf == "updown":
                m["up"] = lst(0, 4)
                m["down"] = lst(0, 4)
            elif conf == "sym":
                m["up"] = lst(0, 4)
                m["sym"] = True
            # a member with a loopback route only is refused by StarZone ("no link UP from source node")
            if conf != "none" and draw(st.integers(0, 2)) == 0:
                m["loop"] = lst(1, 3)
            members.append(m)
        t["members"] = members
        t["links"] = links
    if kind != "star":
        t["policy"] = draw(st.sampled_from([2, 2, 1, 0]))
        t["lat_k"] = draw(st.sampled_from([0, 1, 3, 1024]))
        t["loopback"] = draw(st.booleans())
        t["lb_lat_k"] = draw(st.sampled_from([0, 2]))
        t["limiter"] = draw(st.booleans())
    n = topo_leaves(t)
    if n <= 9:
        pairs = [[a, b] for a in range(n) for b in range(n)]
    else:
        pairs = draw(st.lists(st.tuples(st.integers(0, n - 1), st.integers(0, n - 1)).map(list), min_size=10, max_size=90))
    t["pairs"] = pairs
    return t


# =============================================================================================
# C24: hierarchical platforms.  The case IS the description given to route_driver (zones / links / routes of the root zone
# "_world_" + "pairs"), cluster zones use {"leaf": null | template}.  The reference resolver below is written from the
# documentation (Platform_routing.rst, "Calculating network paths"): common ancestor, route declared there between the two
# child zones, recursion towards the gateways on both sides; local routes per zone kind as documented.

class NoRoute(Exception):
    pass


class Z:
    """One zone of the description (cluster leaves expanded)."""

    def __init__(self, name, kind, parent):
        self.name, self.kind, self.parent = name, kind, parent
        self.members = []        # (type, name) in creation order
        self.links = {}          # declared name -> (lat, policy)
        self.routes = []         # dicts with concrete names: src, dst, gw_src, gw_dst, links [[name, dir]], sym
        self.bypass = []
        self.gateway = None      # default gateway name
        self.cluster = None      # topo dict (kind/dims/ft/df/policy/loopback/limiter) for cluster kinds
        self.leaves = []         # cluster: leaf netpoint names in leaf order
        self.router = None       # cluster: name of the extra router
        self.ap = None
        self.coords = {}         # vivaldi: member -> (x, y, z)
        self.desc = None

    def depth(self):
        return 0 if self.parent is None else 1 + self.parent.depth()


def _sfx_zone(z, sfx):
    """The template of a cluster leaf zone with every name suffixed (what route_driver does)."""
    if not sfx:
        return z
    z = json.loads(json.dumps(z))

    def s(x):
        return None if x is None else x + sfx
    z["name"] = s(z["name"])
    mem = []
    for m in z.get("members", []):
        if m[0] == "z":
            mem.append(["z", _sfx_zone(m[1], sfx)])
        else:
            mem.append([m[0], s(m[1])] + m[2:])
    z["members"] = mem
    for l in z.get("links", []):
        l["name"] = s(l["name"])
    for key in ("routes", "bypass"):
        for r in z.get(key, []):
            for f in ("src", "dst", "gw_src", "gw_dst"):
                if r.get(f) is not None:
                    r[f] = s(r[f])
            r["links"] = [[s(a), b] for a, b in r["links"]]
    if z.get("gateway") is not None:
        z["gateway"] = s(z["gateway"])
    if z.get("ap") is not None:
        z["ap"] = s(z["ap"])
    for p in z.get("peers", []):
        p[0] = s(p[0])
    return z


class Platform:
    def __init__(self, case):
        self.zones = {}
        self.np = {}             # netpoint name -> (type 'h'|'r'|'z', Z containing it)
        self.link_owner = {}     # concrete link name -> zone name (declared links)
        self.link_lat = {}
        world = {"name": "_world_", "kind": "full",
                 "members": [["z", z] for z in case.get("zones", [])] + list(case.get("members", [])),
                 "links": case.get("links", []), "routes": case.get("routes", []), "bypass": case.get("bypass", [])}
        self.root = self._add(world, None)

    def _add(self, d, parent):
        z = Z(d["name"], d.get("kind", "full"), parent)
        z.desc = d
        self.zones[z.name] = z
        if z.kind in ("torus", "fattree", "dragonfly"):
            t = {k: d[k] for k in ("kind", "dims", "ft", "df", "policy", "loopback", "limiter") if k in d}
            t["kind"] = z.kind
            z.cluster = t
            n = topo_leaves(t)
            for i in range(n):
                if d.get("leaf") is None:
                    nm = "%s-%d" % (z.name, i)
                    z.members.append(("h", nm))
                    self.np[nm] = ("h", z)
                    z.leaves.append(nm)
                else:
                    sub = self._add(_sfx_zone(d["leaf"], "-%d" % i), z)
                    z.members.append(("z", sub.name))
                    self.np[sub.name] = ("z", z)
                    z.leaves.append(sub.name)
            if d.get("gateway") is not None:
                z.router = d["gateway"]
                z.gateway = d["gateway"]
                z.members.append(("r", z.router))
                self.np[z.router] = ("r", z)
            return z
        for m in d.get("members", []):
            if m[0] == "z":
                sub = self._add(m[1], z)
                z.members.append(("z", sub.name))
                self.np[sub.name] = ("z", z)
            else:
                z.members.append((m[0], m[1]))
                self.np[m[1]] = (m[0], z)
                if len(m) > 2 and m[2] is not None:
                    z.coords[m[1]] = tuple(float(x) for x in m[2].split(" "))
        for l in d.get("links", []):
            z.links[l["name"]] = (l.get("lat", 0.0), l.get("policy", 1))
            for nm in ([l["name"] + "_UP", l["name"] + "_DOWN"] if l.get("policy", 1) == 2 else [l["name"]]):
                self.link_owner[nm] = z.name
                self.link_lat[nm] = l.get("lat", 0.0)
        for p in d.get("peers", []):
            for nm in ("link_%s_UP" % p[0], "link_%s_DOWN" % p[0]):
                self.link_owner[nm] = z.name
                self.link_lat[nm] = 0.0
        z.routes = d.get("routes", [])
        z.bypass = d.get("bypass", [])
        z.gateway = d.get("gateway")
        z.ap = d.get("ap")
        if z.gateway is None:
            hosts = [m for m in z.members if m[0] == "h"]
            if len(hosts) == 1:
                z.gateway = hosts[0][1]      # documented in NetZoneImpl::seal: a single host is its zone's default gateway
            elif not hosts and len(z.members) == 1 and z.members[0][0] == "r":
                z.gateway = z.members[0][1]
        return z

    # ---- helpers
    def zone_of(self, name):
        return self.np[name][1]

    def path(self, name):
        """zones from the root down to the zone containing netpoint `name`"""
        res = []
        z = self.zone_of(name)
        while z is not None:
            res.append(z)
            z = z.parent
        return list(reversed(res))

    def conc(self, z, ls, back=False):
        seq = list(reversed(ls)) if back else ls
        res = []
        for nm, di in seq:
            pol = self._policy(nm)
            res.append(concrete(nm, di, pol, back=back))
        return res

    def _policy(self, nm):
        for z in self.zones.values():
            if nm in z.links:
                return z.links[nm][1]
        return 1

    def hosts(self):
        return [n for n, (t, _) in self.np.items() if t == "h"]

    # ---- local routes.  Each returns (segments, gw_src, gw_dst, extra latency); a segment is
    #      ("exact", [links]) | ("sp", zone name, a, b) | ("cluster", zone name, leaf a, leaf b) | ("sub", Expected)
    def local(self, z, a, b, ctx):
        k = z.kind
        if k == "full":
            return self._full(z, a, b)
        if k in ("floyd", "dijkstra", "dijkstracache"):
            return self._sp(z, a, b, ctx)
        if k == "star":
            return self._star(z, a, b)
        if k == "vivaldi":
            segs, ga, gb, _ = self._star(z, a, b)
            ca, cb = z.coords[a], z.coords[b]
            extra = (((ca[0] - cb[0]) ** 2 + (ca[1] - cb[1]) ** 2) ** 0.5 + abs(ca[2]) + abs(cb[2])) / 1000.0
            return segs, ga, gb, extra
        if k == "wifi":
            wl = list(z.links.keys())[0]
            ls = ([wl] if a != z.ap else []) + ([wl] if b != z.ap else [])
            return [("exact", ls)], None, None, 0.0
        if k == "empty":
            return [("exact", [])], None, None, 0.0
        if k in ("torus", "fattree", "dragonfly"):
            if a == z.router or b == z.router:
                ga = self._leafgw(z, a)
                gb = self._leafgw(z, b)
                return [("exact", [])], ga, gb, 0.0
            return [("cluster", z.name, z.leaves.index(a), z.leaves.index(b))], self._leafgw(z, a), self._leafgw(z, b), 0.0
        raise NoRoute("zone kind %s" % k)

    def _leafgw(self, z, a):
        if self.np[a][0] == "z":
            g = self.zones[a].gateway
            if g is None:
                raise NoRoute("leaf zone %s has no default gateway" % a)
            return g
        return None

    def _table(self, z):
        tab = {}
        for r in z.routes:
            s, d = r["src"], r["dst"]
            tab[(s, d)] = (self.conc(z, r["links"]), r.get("gw_src"), r.get("gw_dst"))
            if r.get("sym") and s != d:
                tab[(d, s)] = (self.conc(z, r["links"], back=True), r.get("gw_dst"), r.get("gw_src"))
        return tab

    def _full(self, z, a, b):
        tab = self._table(z)
        if (a, b) in tab:
            ls, ga, gb = tab[(a, b)]
            return [("exact", ls)], ga, gb, 0.0
        if a == b and self.np[a][0] != "z" and not any(m[0] == "z" for m in z.members):
            return [("exact", [LOOPBACK])], None, None, 0.0
        raise NoRoute("no route declared from %s to %s in Full zone %s" % (a, b, z.name))

    def _sp(self, z, a, b, ctx):
        tab = self._table(z)
        interior = any(m[0] == "z" for m in z.members)
        if not interior:
            if a == b:
                if (a, a) in tab:
                    return [("exact", tab[(a, a)][0])], None, None, 0.0
                return [("exact", [LOOPBACK])], None, None, 0.0
            if ctx.get("accumulating") and z.kind != "floyd":
                ctx["flags"].add("dijkstra-local-route-appended-to-gathered-links")
            return [("sp", z.name, a, b)], None, None, 0.0
        # zones as vertices: the generator makes the zone graph a tree of symmetrical (or paired one-way) routes, so the
        # chain is unique; consecutive zone routes whose gateways differ are joined by the route between the two gateways
        adj = {}
        for (s, d), v in tab.items():
            adj.setdefault(s, []).append((d, v))
        prev = {a: None}
        todo = [a]
        while todo:
            v = todo.pop(0)
            for (u, e) in adj.get(v, []):
                if u not in prev:
                    prev[u] = (v, e)
                    todo.append(u)
        if b not in prev or a == b:
            raise NoRoute("no chain of zone routes from %s to %s in %s" % (a, b, z.name))
        chain = []
        cur = b
        while prev[cur] is not None:
            v, e = prev[cur]
            chain.append(e)
            cur = v
        chain.reverse()
        segs = []
        for i, (ls, ga, gb) in enumerate(chain):
            if i > 0 and chain[i - 1][2] != ga:
                ctx["flags"].add("sp-interior-gateway-mismatch:" + z.kind)
                # Floyd hands the list of links gathered so far to the recursive call (so does the bypass code)
                ctx["accumulating"] = ctx.get("accumulating", 0) + 1
                try:
                    segs.append(("sub", self.resolve(chain[i - 1][2], ga, ctx)))
                finally:
                    ctx["accumulating"] -= 1
            segs.append(("exact", ls))
        if len(chain) > 1:
            ctx["flags"].add("sp-interior-multi-hop:" + z.kind)
        return segs, chain[0][1], chain[-1][2], 0.0

    def star_members(self, z):
        ms = {}
        for r in z.routes:
            s, d = r["src"], r["dst"]
            if s is not None and s == d:
                ms.setdefault(s, {})["loop"] = self.conc(z, r["links"])
            elif s is not None:
                m = ms.setdefault(s, {})
                m["up"] = self.conc(z, r["links"])
                m["gw"] = r.get("gw_src")
                if r.get("sym"):
                    m["down"] = self.conc(z, r["links"], back=True)
            else:
                m = ms.setdefault(d, {})
                m["down"] = self.conc(z, r["links"])
                m["gw"] = r.get("gw_dst")
        for p in z.desc.get("peers", []):
            ms.setdefault(p[0], {})["up"] = ["link_%s_UP" % p[0]]
            ms[p[0]]["down"] = ["link_%s_DOWN" % p[0]]
        return ms

    def _star(self, z, a, b):
        ms = self.star_members(z)
        ma, mb = ms.get(a, {}), ms.get(b, {})
        if a == b and ma.get("loop"):
            seq = ma["loop"]
        else:
            if (ma and "up" not in ma) or (mb and "down" not in mb):
                raise NoRoute("star member without up/down links")
            seq = ma.get("up", []) + mb.get("down", [])
        res = []
        for l in seq:
            if l not in res:
                res.append(l)
        return [("exact", res)], ma.get("gw"), mb.get("gw"), 0.0

    # ---- the documented recursive algorithm
    def resolve(self, src, dst, ctx, role=None):
        """-> {"segs": [...], "extra": latency term}.  role="up": this is the recursion from an endpoint up to the source
        gateway of a zone route (used only to classify a known defect)."""
        ctx["depth"] = ctx.get("depth", 0) + 1
        if ctx["depth"] > 40:
            raise NoRoute("recursion too deep")
        try:
            ps, pd = self.path(src), self.path(dst)
            i = 0
            while i < len(ps) and i < len(pd) and ps[i] is pd[i]:
                i += 1
            ca = ps[i - 1]
            byp = self._bypass(ca, src, dst, ps[i:], pd[i:], ctx)
            if byp is not None:
                return byp
            if len(ps) == i and len(pd) == i:            # same zone
                segs, _, _, extra = self.local(ca, src, dst, ctx)
                return {"segs": segs, "extra": extra}
            sa = ps[i].name if len(ps) > i else src
            da = pd[i].name if len(pd) > i else dst
            segs, ga, gb, extra = self.local(ca, sa, da, ctx)
            if role == "up" and len(ps) > i and len(pd) == i:
                segs = [("exact", s_[1], "up-mid") if s_[0] == "exact" else s_ for s_ in segs]
                if any(s_[0] == "exact" and len(s_[1]) > 1 for s_ in segs):
                    ctx["flags"].add("up-intermediate-segment-with-several-links")
            out = []
            if len(ps) > i:
                if ga is None:
                    raise NoRoute("no source gateway for %s in the route %s -> %s of %s" % (sa, sa, da, ca.name))
                self._flag_gw(ps[i], src, ga, ctx)
                if src != ga:
                    out.append(("sub", self.resolve(src, ga, ctx, role="up")))
            out.extend(segs)
            if len(pd) > i:
                if gb is None:
                    raise NoRoute("no destination gateway for %s in the route %s -> %s of %s" % (da, sa, da, ca.name))
                self._flag_gw(pd[i], dst, gb, ctx)
                if dst != gb:
                    out.append(("sub", self.resolve(gb, dst, ctx)))
            if len(ps) > i + 1 or len(pd) > i + 1:
                ctx["flags"].add("endpoint-two-levels-below-ancestor")
            return {"segs": out, "extra": extra}
        finally:
            ctx["depth"] -= 1

    def _flag_gw(self, child, endpoint, gw, ctx):
        """Bookkeeping for the triage: is the gateway a direct member of the child zone it speaks for?"""
        zg = self.zone_of(gw)
        if zg is not child:
            ctx["flags"].add("gateway-nested-in-sub-zone")
            if zg is not self.zone_of(endpoint):
                ctx["flags"].add("gateway-nested-in-other-sub-zone")

    def _bypass(self, ca, src, dst, below_s, below_d, ctx):
        """Bypass routes are looked up in the common ancestor: between the two netpoints when both are its direct members,
        else between an ancestor zone of src and an ancestor zone of dst (the generator declares at most one that applies)."""
        if not ca.bypass:
            return None
        if not below_s and not below_d:
            for r in ca.bypass:
                if r["src"] == src and r["dst"] == dst:
                    ctx["flags"].add("bypass-route")
                    if ctx.get("depth", 1) > 1:
                        ctx["flags"].add("bypass-inside-recursion")
                    return {"segs": [("exact", self.conc(ca, r["links"]))], "extra": 0.0}
            return None
        cand_s = [z.name for z in below_s]
        cand_d = [z.name for z in below_d]
        hits = [r for r in ca.bypass if r["src"] in cand_s and r["dst"] in cand_d]
        if not hits:
            return None
        if len(hits) > 1:
            raise NoRoute("several bypass routes apply (generator bug)")
        r = hits[0]
        ctx["flags"].add("bypass-zone-route")
        if ctx.get("depth", 1) > 1:
            ctx["flags"].add("bypass-inside-recursion")
        out = []
        if src == r["gw_src"] or dst == r["gw_dst"]:
            ctx["flags"].add("bypass-endpoint-is-its-gateway")
        if src != r["gw_src"]:
            out.append(("sub", self.resolve(src, r["gw_src"], ctx)))
        out.append(("exact", self.conc(ca, r["links"])))
        if dst != r["gw_dst"]:
            # the implementation hands the links gathered so far to this recursive call
            ctx["accumulating"] = ctx.get("accumulating", 0) + 1
            try:
                out.append(("sub", self.resolve(r["gw_dst"], dst, ctx)))
            finally:
                ctx["accumulating"] -= 1
        return {"segs": out, "extra": 0.0}


def flatten(exp):
    """Expected -> (flat list of non-sub segments, total extra latency)"""
    segs, extra = [], exp["extra"]
    for s in exp["segs"]:
        if s[0] == "sub":
            f, e = flatten(s[1])
            segs.extend(f)
            extra += e
        else:
            segs.append(s)
    return segs, extra


def describe_segs(segs):
    res = []
    for s in segs:
        if s[0] == "exact":
            res.append("[" + " ".join(s[1]) + "]")
        elif s[0] == "sp":
            res.append("<minimal chain %s->%s in %s>" % (s[2], s[3], s[1]))
        else:
            res.append("<%s route leaf %d->%d>" % (s[1], s[2], s[3]))
    return " + ".join(res)


def match_route(plat, owner, links, segs, zdump, reverse_up_mid=False):
    """Consumes `links` segment by segment.  Raises Bad."""
    pos = 0
    for s in segs:
        if s[0] == "exact":
            k = len(s[1])
            want = list(reversed(s[1])) if (reverse_up_mid and len(s) > 2 and s[2] == "up-mid") else s[1]
            if links[pos:pos + k] != want:
                raise Bad("route-mismatch", "at position %d expected %s, got %s" % (pos, s[1], links[pos:pos + k + 2]))
            pos += k
            continue
        zname = s[1]
        end = pos
        while end < len(links) and owner.get(links[end]) == zname:
            end += 1
        run = links[pos:end]
        z = plat.zones[zname]
        if s[0] == "sp":
            a, b = s[2], s[3]
            tab = plat._table(z)
            names = [m[1] for m in z.members]
            idx = {n: i for i, n in enumerate(names)}
            dedges = {(idx[x], idx[y]): v[0] for (x, y), v in tab.items() if x != y}
            dist = all_dists(len(names), dedges)
            hops = decode_chain(run, idx[a], idx[b], dedges)
            if hops is None:
                if z.kind != "floyd" and decode_chain(run, idx[a], idx[b], dedges, reverse_hops=True) is not None:
                    raise Bad("dijkstra-hop-links-reversed", "segment %s of zone %s has its hops' links reversed" % (run, zname))
                raise Bad("sp-segment-not-a-chain", "the links %s owned by %s are not a chain of its declared routes from %s to %s" % (run, zname, a, b))
            if len(run) != dist[idx[a]][idx[b]]:
                raise Bad("sp-segment-not-minimal", "the segment %s in %s from %s to %s has %d links, minimum %s" % (run, zname, a, b, len(run), dist[idx[a]][idx[b]]))
        else:
            t = z.cluster
            a, b = s[2], s[3]
            if t["kind"] == "torus":
                w = check_torus(t, zname, a, b, run)
            elif t["kind"] == "fattree":
                w = check_fattree(t, zname, a, b, run)
            else:
                w = check_dragonfly(t, zname, a, b, run, list(zdump.get(zname, {}).get("links", {}).keys()))
            check_limiters(t, w, a, b, run, t["kind"])
        pos = end
    if pos != len(links):
        raise Bad("route-mismatch", "%d extra links at the end: %s" % (len(links) - pos, links[pos:]))


# ---- generator of hierarchical platforms (valid by construction)

class _Gen:
    def __init__(self, draw, opts):
        self.draw = draw
        self.opts = opts
        self.n = {"z": 0, "h": 0, "r": 0, "l": 0}
        self.hosts = 0
        self.fattrees = 0
        self.zinfo = {}          # zone name -> (description, info) of every zone made by zone()
        self.noself = set()      # hosts whose zone documents no route to itself (Empty: "no routing", WIFI)

    def name(self, t):
        self.n[t] += 1
        return "%s%d" % (t, self.n[t])

    def i(self, lo, hi):
        return self.draw(st.integers(lo, hi))

    def pick(self, xs):
        return self.draw(st.sampled_from(list(xs)))

    def links(self, zone, k, single=False):
        """k fresh links declared in `zone` (a description dict) -> [[name, dir], ...]"""
        res = []
        for _ in range(k):
            nm = self.name("l")
            pol = 1 if single else self.pick([0, 1, 1, 2])
            zone["links"].append({"name": nm, "lat": lat_of(self.pick([0, 1, 2, 3, 8, 64, 1024])), "policy": pol})
            res.append([nm, self.pick([1, 2]) if pol == 2 else 0])
        return res

    # every generator returns (zone description, info) with info = {"direct": [gateway candidates that are direct members],
    #                                                              "nested": [candidates inside sub-zones], "hosts": [...]}
    def zone(self, depth, needs_gw=True):
        d, info = self._zone(depth, needs_gw)
        self.zinfo[d["name"]] = (d, info)
        return d, info

    def _zone(self, depth, needs_gw=True):
        """needs_gw: the parent will declare a route to/from this zone, so it needs a gateway candidate"""
        room = 40 - self.hosts
        leaf_kinds = ["full", "full", "floyd", "dijkstra", "dijkstracache", "star", "star", "vivaldi", "wifi", "empty",
                      "torus", "fattree", "dragonfly"]
        interior_kinds = ["full", "full", "floyd", "dijkstra", "dijkstracache", "star", "star", "star", "cluster"]
        if depth < 3 and room >= 6 and self.i(0, 9) < (6 if depth == 1 else 4):
            k = self.pick(interior_kinds)
            if k != "star" and needs_gw and not self.opts["nested_gw"]:
                # a zone made of sub-zones only (Full/Floyd/Dijkstra with children, cluster of zones) can only be entered
                # through a gateway nested in one of its sub-zones (the g5k.xml pattern): labelled class
                k = "star"
            if k == "cluster":
                return self.cluster(depth, zone_leaves=True)
            if k == "star":
                return self.star(depth, interior=True)
            return self.routed_interior(k, depth)
        k = self.pick(leaf_kinds)
        if k == "fattree" and self.fattrees >= 1:
            k = "torus"
        if k in ("torus", "fattree", "dragonfly"):
            return self.cluster(depth, zone_leaves=False)
        if k == "star":
            return self.star(depth, interior=False)
        if k == "vivaldi":
            return self.vivaldi()
        if k == "wifi":
            return self.wifi()
        if k == "empty":
            z = {"name": self.name("z"), "kind": "empty", "members": [["h", self.name("h")]], "links": [], "routes": []}
            self.hosts += 1
            h = z["members"][0][1]
            self.noself.add(h)
            return z, {"direct": [h], "nested": [], "hosts": [h]}
        return self.routed_leaf(k)

    def members(self, lo, hi, routers=True):
        n = max(lo, min(hi, 40 - self.hosts))
        n = self.i(lo, max(lo, n))
        mem = []
        for j in range(n):
            t = "h" if (j == 0 or not routers) else self.pick("hhr")
            mem.append([t, self.name(t)])
            if t == "h":
                self.hosts += 1
        return mem

    def routed_leaf(self, kind):
        lo = 2 if (kind in ("dijkstra", "dijkstracache") and self.opts["dijkstra_single_link"]) else 1
        z = {"name": self.name("z"), "kind": kind, "members": self.members(lo, 4), "links": [], "routes": []}
        names = [m[1] for m in z["members"]]
        single = kind in ("dijkstra", "dijkstracache") and self.opts["dijkstra_single_link"]
        if kind == "full":
            for a in range(len(names)):
                for b in range(a + 1, len(names)):
                    if self.draw(st.booleans()):
                        z["routes"].append({"src": names[a], "dst": names[b], "links": self.links(z, self.i(1, 3)), "sym": True})
                    else:
                        z["routes"].append({"src": names[a], "dst": names[b], "links": self.links(z, self.i(1, 3)), "sym": False})
                        z["routes"].append({"src": names[b], "dst": names[a], "links": self.links(z, self.i(1, 3)), "sym": False})
        else:
            used = set()
            for j in range(1, len(names)):
                p = self.i(0, j - 1)
                z["routes"].append({"src": names[j], "dst": names[p], "links": self.links(z, 1 if single else self.i(1, 2), single), "sym": True})
                used.add((j, p))
                used.add((p, j))
            for _ in range(self.i(0, 3)):
                a, b = self.i(0, len(names) - 1), self.i(0, len(names) - 1)
                if a != b and (a, b) not in used and (b, a) not in used:
                    used.add((a, b))
                    used.add((b, a))
                    z["routes"].append({"src": names[a], "dst": names[b], "links": self.links(z, 1 if single else self.i(1, 4), single), "sym": True})
        for m in z["members"]:
            if m[0] == "h" and self.i(0, 5) == 0:
                z["routes"].append({"src": m[1], "dst": m[1], "links": self.links(z, 1, single), "sym": False})
        z["routes"] = list(self.draw(st.permutations(z["routes"])))
        if self.i(0, 2) == 0 and len(names) > 1:
            z["gateway"] = self.pick(names)
        return z, {"direct": names, "nested": [], "hosts": [m[1] for m in z["members"] if m[0] == "h"]}

    def directional_leaf(self):
        """A leaf zone with >= 2 members in which the route between any two members differs from the route of the opposite
        direction in an observable way: every declared route has >= 2 links or a split-duplex link, or the two directions
        are declared separately with links of their own.  Used as the transit zone of `transit()`."""
        kind = self.pick(["full", "full", "floyd", "star", "star"])
        z = {"name": self.name("z"), "kind": kind, "members": self.members(2, 4), "links": [], "routes": []}
        names = [m[1] for m in z["members"]]

        def dlinks():
            style = self.pick(["two", "three", "sd", "sd+1"])
            if style in ("two", "three"):
                return self.links(z, 2 if style == "two" else 3)
            nm = self.name("l")
            z["links"].append({"name": nm, "lat": lat_of(self.pick([0, 1, 3, 8])), "policy": 2})
            res = [[nm, self.pick([1, 2])]]
            return res + self.links(z, 1) if style == "sd+1" else res
        if kind == "full":
            for a in range(len(names)):
                for b in range(a + 1, len(names)):
                    if self.draw(st.booleans()):
                        z["routes"].append({"src": names[a], "dst": names[b], "links": dlinks(), "sym": True})
                    else:     # two one-way routes over different links (1 link each is enough to tell them apart)
                        z["routes"].append({"src": names[a], "dst": names[b], "links": self.links(z, self.i(1, 2)), "sym": False})
                        z["routes"].append({"src": names[b], "dst": names[a], "links": self.links(z, self.i(1, 2)), "sym": False})
        elif kind == "floyd":
            for j in range(1, len(names)):
                z["routes"].append({"src": names[j], "dst": names[self.i(0, j - 1)], "links": dlinks(), "sym": True})
        else:
            for nm in names:
                if self.draw(st.booleans()):
                    z["routes"].append({"src": nm, "dst": None, "gw_src": None, "gw_dst": None, "links": dlinks(), "sym": True})
                else:
                    z["routes"].append({"src": nm, "dst": None, "gw_src": None, "gw_dst": None, "links": self.links(z, 1), "sym": False})
                    z["routes"].append({"src": None, "dst": nm, "gw_src": None, "gw_dst": None, "links": self.links(z, 1), "sym": False})
        z["routes"] = list(self.draw(st.permutations(z["routes"])))
        return z, {"direct": names, "nested": [], "hosts": [m[1] for m in z["members"] if m[0] == "h"]}

    def transit(self):
        """A shortest-path zone over sub-zones in which some pairs of sub-zones are only connected THROUGH another sub-zone
        (zone-level multi-hop A -> M -> B) that is entered by one gateway and left by another one, the route between these
        two gateways inside M being directional (label transit-two-gateways)."""
        kinds = ["floyd", "floyd", "floyd"]
        if not self.opts["dijkstra_single_link"]:      # Dijkstra zones crash on this class while their finding is open
            kinds += ["dijkstra", "dijkstracache"]
        kind = self.pick(kinds)
        z = {"name": self.name("z"), "kind": kind, "members": [], "links": [], "routes": []}
        m_d, m_info = self.directional_leaf()
        self.zinfo[m_d["name"]] = (m_d, m_info)
        outer = []
        for _ in range(self.i(2, 3)):
            d, info = self.zone(3)          # leaf zones (depth 3 = no further nesting), gateways are direct members
            outer.append((d, info))
        order = [(m_d, m_info)] + outer
        order = list(self.draw(st.permutations(order)))      # creation order of the sub-zones (= vertex ids in the zone)
        for d, _ in order:
            z["members"].append(["z", d])
        gws = list(self.draw(st.permutations(m_info["direct"])))
        for j, (d, info) in enumerate(outer):
            gm = gws[j % len(gws)] if j < 2 else self.pick(gws)       # the first two neighbours use different gateways of M
            go = self.pick(info["direct"])
            k = self.i(1, 3)
            if self.draw(st.booleans()):
                a, b = ((d["name"], go), (m_d["name"], gm)) if self.draw(st.booleans()) else ((m_d["name"], gm), (d["name"], go))
                z["routes"].append({"src": a[0], "dst": b[0], "gw_src": a[1], "gw_dst": b[1], "links": self.links(z, k), "sym": True})
            else:     # two one-way zone routes; the way back may use yet another gateway of M
                gm2 = self.pick(gws)
                z["routes"].append({"src": d["name"], "dst": m_d["name"], "gw_src": go, "gw_dst": gm, "links": self.links(z, k), "sym": False})
                z["routes"].append({"src": m_d["name"], "dst": d["name"], "gw_src": gm2, "gw_dst": self.pick(info["direct"]),
                                    "links": self.links(z, self.i(1, 3)), "sym": False})
        z["routes"] = list(self.draw(st.permutations(z["routes"])))
        hosts = [h for _, i in order for h in i["hosts"]]
        first = []
        for x in range(len(outer)):
            for y in range(len(outer)):
                if x != y and outer[x][1]["hosts"] and outer[y][1]["hosts"]:
                    first.append([self.pick(outer[x][1]["hosts"]), self.pick(outer[y][1]["hosts"])])
        info = {"direct": [], "nested": [g_ for _, i in order for g_ in i["direct"]], "hosts": hosts, "first_pairs": first}
        self.zinfo[z["name"]] = (z, info)
        return z, info

    def gw(self, info):
        """a gateway for a child zone: a direct member, or (labelled class) one nested in a sub-zone"""
        if info["nested"] and (not info["direct"] or (self.opts["nested_gw"] and self.i(0, 1) == 0)):
            return self.pick(info["nested"])
        return self.pick(info["direct"])

    def routed_interior(self, kind, depth):
        z = {"name": self.name("z"), "kind": kind, "members": [], "links": [], "routes": []}
        subs = []
        for _ in range(self.i(2, 3)):
            d, info = self.zone(depth + 1)
            z["members"].append(["z", d])
            subs.append((d["name"], info))
        single = kind in ("dijkstra", "dijkstracache") and self.opts["dijkstra_single_link"]

        fixed = {}

        def gw1(x):
            # Dijkstra zones crash when a traversed sub-zone is entered and left through different gateways (known finding):
            # while it is open every sub-zone of a Dijkstra zone keeps one gateway
            if kind in ("dijkstra", "dijkstracache") and self.opts["dijkstra_single_link"]:
                if x[0] not in fixed:
                    fixed[x[0]] = self.gw(x[1])
                return fixed[x[0]]
            return self.gw(x[1])

        def zr(a, b, sym):
            return {"src": a[0], "dst": b[0], "gw_src": gw1(a), "gw_dst": gw1(b),
                    "links": self.links(z, 1 if single else self.i(1, 3), single), "sym": sym}
        if kind == "full":
            for a in range(len(subs)):
                for b in range(a + 1, len(subs)):
                    if self.draw(st.booleans()):
                        z["routes"].append(zr(subs[a], subs[b], True))
                    else:
                        z["routes"].append(zr(subs[a], subs[b], False))
                        z["routes"].append(zr(subs[b], subs[a], False))
        else:
            for j in range(1, len(subs)):
                p = self.i(0, j - 1)
                if self.draw(st.booleans()) or kind != "floyd":
                    z["routes"].append(zr(subs[j], subs[p], True))
                else:
                    z["routes"].append(zr(subs[j], subs[p], False))
                    z["routes"].append(zr(subs[p], subs[j], False))
        hosts = [h for _, i in subs for h in i["hosts"]]
        nested = [g for _, i in subs for g in i["direct"] + i["nested"]]
        return z, {"direct": [], "nested": nested, "hosts": hosts}

    def star(self, depth, interior):
        z = {"name": self.name("z"), "kind": "star", "members": [], "links": [], "routes": []}
        direct, nested, hosts = [], [], []
        bb = self.links(z, 1)[0] if self.draw(st.booleans()) else None
        entries = []
        if interior:
            for _ in range(self.i(1, 3)):
                d, info = self.zone(depth + 1)
                z["members"].append(["z", d])
                entries.append((d["name"], self.gw(info)))
                nested += info["direct"] + info["nested"]
                hosts += info["hosts"]
        for m in self.members(0 if interior else 1, 2 if interior else 4):
            z["members"].append(m)
            entries.append((m[1], None))
            direct.append(m[1])
            if m[0] == "h":
                hosts.append(m[1])
        if self.i(0, 2) == 0 or not direct:
            r = self.name("r")
            z["members"].append(["r", r])
            entries.append((r, None))
            direct.append(r)
            if self.draw(st.booleans()):
                z["gateway"] = r
        for (nm, g) in entries:
            up = self.links(z, self.i(0, 2))
            if bb and self.draw(st.booleans()):
                up = up + [bb]
            if self.draw(st.booleans()):
                z["routes"].append({"src": nm, "dst": None, "gw_src": g, "gw_dst": None, "links": up, "sym": True})
            else:
                down = self.links(z, self.i(0, 2))
                if bb and self.draw(st.booleans()):
                    down = [bb] + down
                z["routes"].append({"src": nm, "dst": None, "gw_src": g, "gw_dst": None, "links": up, "sym": False})
                z["routes"].append({"src": None, "dst": nm, "gw_src": None, "gw_dst": g, "links": down, "sym": False})
            if g is None and self.i(0, 4) == 0:
                z["routes"].append({"src": nm, "dst": nm, "links": self.links(z, self.i(1, 2)), "sym": False})
        return z, {"direct": direct, "nested": nested, "hosts": hosts}

    def vivaldi(self):
        z = {"name": self.name("z"), "kind": "vivaldi", "members": [], "links": [], "routes": [], "peers": []}
        names = []
        for m in self.members(1, 3, routers=False):
            c = "%d %d %d" % (self.i(-50, 50), self.i(-50, 50), self.i(0, 5))
            z["members"].append([m[0], m[1], c])
            z["peers"].append([m[1], 1e8, 1e8])
            names.append(m[1])
        return z, {"direct": names, "nested": [], "hosts": names}

    def wifi(self):
        z = {"name": self.name("z"), "kind": "wifi", "members": self.members(1, 3, routers=False), "links": [], "routes": []}
        names = [m[1] for m in z["members"]]
        if self.draw(st.booleans()):
            ap = self.name("r")
            z["members"].append(["r", ap])
        else:
            ap = names[0]
        z["ap"] = ap
        z["gateway"] = ap
        self.noself.update(names)
        nm = self.name("l")
        z["links"].append({"name": nm, "lat": 0.0, "policy": 1})
        return z, {"direct": [ap], "nested": [], "hosts": names}

    def cluster(self, depth, zone_leaves):
        kind = self.pick(["torus", "fattree", "dragonfly"])
        if kind == "fattree" and self.fattrees >= 1:
            kind = "torus"
        z = {"name": self.name("z"), "kind": kind, "lat": lat_of(self.pick([0, 1, 8])), "policy": self.pick([2, 2, 1, 0]),
             "loopback": self.draw(st.booleans()), "lb_lat": lat_of(self.pick([0, 2])), "limiter": self.draw(st.booleans()), "leaf": None}
        small = zone_leaves or (40 - self.hosts) < 12
        if kind == "torus":
            z["dims"] = self.pick([[2], [3], [2, 2]] if small else [[2], [3], [4], [5], [2, 2], [3, 2], [2, 3], [3, 3], [2, 2, 2], [4, 2]])
        elif kind == "fattree":
            self.fattrees += 1
            z["ft"] = self.pick([[1, [2], [1], [1]], [1, [3], [2], [1]], [2, [2, 2], [1, 2], [1, 1]]] if small else
                                [[1, [2], [1], [1]], [1, [4], [2], [2]], [2, [2, 2], [1, 2], [1, 2]], [2, [2, 3], [2, 2], [1, 1]], [2, [3, 2], [1, 2], [2, 1]]])
        else:
            cmax = 1 if self.opts["dragonfly_one_chassis"] else 2
            z["df"] = self.pick([[[1, 1], [1, 1], [2, 1], 1], [[2, 1], [1, 1], [2, 1], 1], [[1, 1], [cmax, 1], [1, 1], 2]] if small else
                                [[[2, 1], [1, 1], [2, 2], 2], [[2, 2], [cmax, 1], [2, 1], 1], [[1, 1], [cmax, 2], [3, 1], 1], [[3, 1], [1, 1], [3, 1], 1]])
        n = topo_leaves(z)
        if zone_leaves:
            # every leaf is a copy of one small zone (names get the suffix "-<leaf index>")
            self.depth_hint = depth
            tk = self.pick(["star", "full1", "star"])
            t = {"name": self.name("z"), "kind": "star" if tk == "star" else "full", "members": [], "links": [], "routes": []}
            hs = []
            for j in range(1 if tk == "full1" else self.i(1, 2)):
                h = self.name("h")
                hs.append(h)
                t["members"].append(["h", h])
                if tk == "star":
                    t["routes"].append({"src": h, "dst": None, "gw_src": None, "gw_dst": None, "links": self.links(t, 1), "sym": True})
            if tk == "star" and (len(hs) > 1 or self.draw(st.booleans())):
                if self.draw(st.booleans()):
                    r = self.name("r")
                    t["members"].append(["r", r])
                    t["gateway"] = r
                else:
                    t["gateway"] = hs[0]
            z["leaf"] = t
            self.hosts += n * len(hs)
            leafnames = ["%s-%d" % (t["name"], i) for i in range(n)]
            hosts = ["%s-%d" % (h, i) for i in range(n) for h in hs]
            gws = ["%s-%d" % (t.get("gateway") or hs[0], i) for i in range(n)]
            info = {"direct": [], "nested": gws, "hosts": hosts}
        else:
            self.hosts += n
            hosts = ["%s-%d" % (z["name"], i) for i in range(n)]
            info = {"direct": list(hosts), "nested": [], "hosts": hosts}
        # no extra router: the XML loader creates none for torus / fat-tree / dragonfly clusters, and one created before
        # sealing would shift the netpoint ids on which these zones compute coordinates
        return z, info


def _subzones(d):
    return [m[1] for m in d.get("members", []) if m[0] == "z"]


def _descend(g, d):
    """all zones of the sub-tree of description d that zone() made (cluster leaf templates are not), d included"""
    res = [d]
    for c in _subzones(d):
        res.extend(_descend(g, c))
    return [x for x in res if x["name"] in g.zinfo]


def _add_bypasses(g, draw, tops, world):
    """At most one bypass route per zone, so that at most one applies to a pair (the lookup order is not documented).
    - bypassRoute between two hosts of the same zone: the links replace the zone's own route;
    - bypassZoneRoute, declared in the common ancestor, between a zone below one child and a zone below another child:
      route(src, gw_src) + links + route(gw_dst, dst)."""
    holders = [({"name": "_world_", "members": [["z", d] for d, _ in tops]}, world)]
    for name, (d, info) in g.zinfo.items():
        if d["kind"] in ("full", "floyd", "dijkstra", "dijkstracache", "star"):
            holders.append((d, d))
    for (d, store) in holders:
        if draw(st.integers(0, 3)) != 0:
            continue
        subs = [c for c in _subzones(d) if c["name"] in g.zinfo]
        hosts = [m[1] for m in d.get("members", []) if m[0] == "h"]
        store.setdefault("bypass", [])
        if len(subs) >= 2:
            a, b = draw(st.permutations(subs))[:2]
            x = draw(st.sampled_from(_descend(g, a)))
            y = draw(st.sampled_from(_descend(g, b)))
            ix, iy = g.zinfo[x["name"]][1], g.zinfo[y["name"]][1]
            if (ix["direct"] or ix["nested"]) and (iy["direct"] or iy["nested"]):
                store["bypass"].append({"src": x["name"], "dst": y["name"], "gw_src": g.gw(ix), "gw_dst": g.gw(iy),
                                        "links": g.links(store, draw(st.integers(1, 3)))})
        elif len(hosts) >= 2 and d["name"] != "_world_":
            a, b = draw(st.permutations(hosts))[:2]
            store["bypass"].append({"src": a, "dst": b, "gw_src": None, "gw_dst": None,
                                    "links": g.links(store, draw(st.integers(1, 2)))})


@st.composite
def platforms(draw, nested_gw=False, dijkstra_single_link=True, dragonfly_one_chassis=True, bypass=True):
    """nested_gw: probability (in tenths) that the platform may use gateways nested in sub-zones (g5k.xml style)"""
    nested_gw = draw(st.integers(0, 9)) < int(nested_gw)
    g = _Gen(draw, {"nested_gw": nested_gw, "dijkstra_single_link": dijkstra_single_link,
                    "dragonfly_one_chassis": dragonfly_one_chassis})
    world = {"links": [], "routes": [], "bypass": []}
    tops = []
    first_pairs = []
    shape = g.i(0, 9)
    if shape == 0:
        tops.append(g.cluster(1, zone_leaves=True))     # a cluster of small zones alone in the platform
    elif shape <= 3:
        tops.append(g.transit())                        # zone-level transit through a sub-zone with two gateways
        first_pairs = tops[0][1]["first_pairs"]
    else:
        ntop = g.i(1, 3)
        for _ in range(ntop):
            d, info = g.zone(1, needs_gw=ntop > 1)
            tops.append((d, info))
    for a in range(len(tops)):
        for b in range(a + 1, len(tops)):
            A, B = (tops[a][0]["name"], tops[a][1]), (tops[b][0]["name"], tops[b][1])

            def zr(x, y, sym):
                return {"src": x[0], "dst": y[0], "gw_src": g.gw(x[1]), "gw_dst": g.gw(y[1]), "links": g.links(world, g.i(1, 3)), "sym": sym}
            if draw(st.booleans()):
                world["routes"].append(zr(A, B, True))
            else:
                world["routes"].append(zr(A, B, False))
                world["routes"].append(zr(B, A, False))
    if bypass:
        _add_bypasses(g, draw, tops, world)
    hosts = [h for _, i in tops for h in i["hosts"]]
    if len(hosts) <= 7:
        pairs = [[a, b] for a in hosts for b in hosts if a != b] + [[a, a] for a in hosts[:2]]
    else:
        idx = st.integers(0, len(hosts) - 1)
        pairs = [[hosts[a], hosts[b]] for a, b in draw(st.lists(st.tuples(idx, idx), min_size=10, max_size=50))]
    pairs = first_pairs + [p for p in pairs if p not in first_pairs]
    pairs = [p for p in pairs if p[0] != p[1] or p[0] not in g.noself][:60]
    case = {"zones": [d for d, _ in tops], "links": world["links"], "routes": world["routes"], "bypass": world["bypass"],
            "pairs": pairs, "dump": True}
    return case


# =============================================================================================
# C26, second entry point: the same zones declared with the XML <cluster> tag (sg_platf.cpp): host names come from
# prefix + radical + suffix (radicals need not be contiguous), limiter / loopback links are named by the loader, flat
# clusters (Star zones with private links, optional backbone) only exist this way.
# xml topo = {"kind": "xml", "topology": "FLAT"|"TORUS"|"FAT_TREE"|"DRAGONFLY", "dims"|"ft"|"df", "radical": [ints],
#             "policy": 0|1|2, "lat_k", "bb": bool, "bb_policy": 0|1, "loopback": bool, "limiter": bool, "pairs": [...]}

RE_XLIM = re.compile(r"^(.*)_link_(-?\d+)_limiter$")
RE_XLB = re.compile(r"^(.*)_link_(-?\d+)_loopback$")


def radical_str(rad):
    out = []
    i = 0
    while i < len(rad):
        j = i
        while j + 1 < len(rad) and rad[j + 1] == rad[j] + 1:
            j += 1
        out.append("%d-%d" % (rad[i], rad[j]) if j > i else "%d" % rad[i])
        i = j + 1
    return ",".join(out)


def xml_host(zname, t, i):
    return "%s-%d.x" % (zname, t["radical"][i])


def xml_cluster_tag(t, zname):
    pol = {0: "FATPIPE", 1: "SHARED", 2: "SPLITDUPLEX"}[t.get("policy", 2)]
    a = ['id="%s"' % zname, 'prefix="%s-"' % zname, 'suffix=".x"', 'radical="%s"' % radical_str(t["radical"]),
         'speed="1Gf"', 'bw="125MBps"', 'lat="%ss"' % repr(lat_of(t.get("lat_k", 0))), 'sharing_policy="%s"' % pol]
    topo = t["topology"]
    if topo != "FLAT":
        a.append('topology="%s"' % topo)
        if topo == "TORUS":
            a.append('topo_parameters="%s"' % ",".join(map(str, t["dims"])))
        elif topo == "FAT_TREE":
            h, m, w, p = t["ft"]
            a.append('topo_parameters="%d;%s;%s;%s"' % (h, ",".join(map(str, m)), ",".join(map(str, w)), ",".join(map(str, p))))
        else:
            df = t["df"]
            a.append('topo_parameters="%d,%d;%d,%d;%d,%d;%d"' % (df[0][0], df[0][1], df[1][0], df[1][1], df[2][0], df[2][1], df[3]))
    elif t.get("bb"):
        a.append('bb_bw="1GBps" bb_lat="%ss" bb_sharing_policy="%s"' % (repr(lat_of(t.get("bb_lat_k", 0))), "FATPIPE" if t.get("bb_policy") == 0 else "SHARED"))
    if t.get("loopback"):
        a.append('loopback_bw="100MBps" loopback_lat="%ss"' % repr(lat_of(t.get("lb_lat_k", 0))))
    if t.get("limiter"):
        a.append('limiter_link="200MBps"')
    return "    <cluster " + " ".join(a) + "/>"


def xml_platform(tags):
    return ("<?xml version='1.0'?>\n<!DOCTYPE platform SYSTEM \"https://simgrid.org/simgrid.dtd\">\n<platform version=\"4.1\">\n"
            "  <zone id=\"world\" routing=\"Full\">\n" + "\n".join(tags) + "\n  </zone>\n</platform>\n")


def xml_as_api_topo(t):
    """the description the structured-zone checkers use"""
    k = {"TORUS": "torus", "FAT_TREE": "fattree", "DRAGONFLY": "dragonfly"}[t["topology"]]
    r = {"kind": k, "policy": t.get("policy", 2), "loopback": t.get("loopback"), "limiter": t.get("limiter"), "xml": True,
         "radical": t["radical"]}
    for key in ("dims", "ft", "df"):
        if key in t:
            r[key] = t[key]
    return r


def xml_rename(t, zname, links):
    """Rewrites the loader's limiter / loopback names into the ones our callbacks give (so that the same checkers apply)."""
    k = t["kind"]
    n = topo_leaves(t)
    res = []
    for l in links:
        m = RE_XLIM.match(l)
        if m and m.group(1) == zname:
            i = int(m.group(2))
            if k == "torus":
                res.append("%s-lim%dc_%d" % (zname, i, i))
            elif k == "fattree":
                ft = FatTree(t["ft"])
                if 0 <= i < n and i not in ft.by_id:
                    res.append("%s-lim%dc_0_%d" % (zname, i, i))
                elif i in ft.by_id and not (0 <= i < n):
                    lvl, pos = ft.by_id[i][0]
                    res.append("%s-lim%dc_%d_%d" % (zname, i & 0xFFFFFFFF, lvl, pos))
                else:
                    raise Bad("xml:ambiguous-limiter-name", "limiter %s may be a leaf or a switch" % l)
            else:
                df = Dragonfly(t["df"], [])
                if 0 <= i < n:
                    res.append("%s-lim%dc_%d_%d_%d_%d" % ((zname, i) + df.coords(i)))
                else:
                    r = 2 * n - 1 - i
                    res.append("%s-lim%dc_%d_%d_%d_4294967295" % ((zname, i) + df.rcoords(r)))
            continue
        m = RE_XLB.match(l)
        if m and m.group(1) == zname:
            rad = int(m.group(2))
            if rad not in t["radical"]:
                raise Bad("xml:loopback-name", "loopback link %s does not belong to a host of the cluster" % l)
            res.append("%s-lb%d" % (zname, t["radical"].index(rad)))
            continue
        res.append(l)
    return res


def xml_flat_expected(t, zname, s, d):
    rs, rd = t["radical"][s], t["radical"][d]
    sd = t.get("policy", 2) == 2

    def up(r):
        return (["%s_link_%d_limiter" % (zname, r)] if t.get("limiter") else []) + \
               ["%s_link_%d%s" % (zname, r, "_UP" if sd else "")] + (["%s_backbone" % zname] if t.get("bb") else [])

    def down(r):
        return (["%s_backbone" % zname] if t.get("bb") else []) + ["%s_link_%d%s" % (zname, r, "_DOWN" if sd else "")] + \
               (["%s_link_%d_limiter" % (zname, r)] if t.get("limiter") else [])
    if s == d and t.get("loopback"):
        return ["%s_link_%d_loopback" % (zname, rs)]
    res = []
    for l in up(rs) + down(rd):
        if l not in res:
            res.append(l)
    return res


@st.composite
def xml_topos(draw):
    topology = draw(st.sampled_from(["FLAT", "FLAT", "TORUS", "FAT_TREE", "DRAGONFLY"]))
    t = {"kind": "xml", "topology": topology}
    if topology == "FLAT":
        n = draw(st.integers(1, 8))
        t["bb"] = draw(st.booleans())
        t["bb_policy"] = draw(st.sampled_from([0, 1]))
        t["bb_lat_k"] = draw(st.sampled_from([0, 2]))
    elif topology == "TORUS":
        t["dims"] = draw(st.sampled_from([[2], [3], [5], [2, 2], [3, 2], [2, 3], [4, 3], [3, 3], [2, 2, 2], [3, 2, 2], [4, 4]]))
        n = prod(t["dims"])
    elif topology == "FAT_TREE":
        t["ft"] = draw(st.sampled_from([[1, [2], [1], [1]], [1, [4], [2], [2]], [2, [2, 2], [1, 2], [1, 2]], [2, [4, 4], [1, 2], [1, 2]],
                                        [2, [2, 3], [2, 2], [1, 1]], [2, [3, 2], [1, 2], [2, 1]], [3, [2, 2, 2], [1, 2, 2], [1, 1, 2]]]))
        n = prod(t["ft"][1])
    else:
        B = draw(st.integers(1, 3))
        t["df"] = [[draw(st.integers(1, B)), draw(st.integers(1, 3))], [draw(st.integers(1, 3)), draw(st.integers(1, 3))],
                   [B, draw(st.integers(1, 3))], draw(st.integers(1, 3))]
        n = topo_leaves({"kind": "dragonfly", "df": t["df"]})
    # radicals: n increasing integers, contiguous or with gaps
    if draw(st.booleans()):
        start = draw(st.sampled_from([0, 0, 1, 10]))
        t["radical"] = list(range(start, start + n))
    else:
        gaps = draw(st.lists(st.sampled_from([1, 1, 1, 2, 3, 10]), min_size=n, max_size=n))
        cur = draw(st.sampled_from([0, 1, 5])) - gaps[0]
        rad = []
        for g_ in gaps:
            cur += g_
            rad.append(cur)
        t["radical"] = rad
    t["policy"] = draw(st.sampled_from([2, 2, 1, 0]))
    t["lat_k"] = draw(st.sampled_from([0, 1, 3]))
    t["loopback"] = draw(st.booleans())
    t["lb_lat_k"] = draw(st.sampled_from([1, 2]))       # the loader only creates loopback links whose bw or latency is > 0
    t["limiter"] = draw(st.booleans())
    if n <= 9:
        pairs = [[a, b] for a in range(n) for b in range(n)]
    else:
        pairs = draw(st.lists(st.tuples(st.integers(0, n - 1), st.integers(0, n - 1)).map(list), min_size=10, max_size=90))
    t["pairs"] = pairs
    return t
