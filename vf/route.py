"""Shared generators, platform builder, runner and reference models for the routing properties C24-C26.

Platform description (see drivers/route_driver.cpp) is a tree of zone dicts.  Everything the oracles use is computed from
that *description*; the only thing taken from SimGrid besides the routes is the dump of link names/latencies of the
zones that create their own links (torus, fat-tree, dragonfly).

Link latencies are dyadic rationals k/1024 (k <= 4096): sums of up to a few hundred of them are exact in binary64
whatever the order of the additions, so the latency oracle may use equality.
"""
import heapq
import json

from hypothesis import strategies as st

from . import core, known

DRIVER = "route_driver"
LOOPBACK = "__loopback__"     # the global loopback link of the network model (documented default: latency 0)


# ---------------------------------------------------------------------------------------------
# running

def run_platform(case, cpu=10, wall=120):
    """-> (RunResult, zones dump {zone: {"verts": [...], "links": {name: lat}}}, results list or None, done flag)"""
    r = core.serve(DRIVER, case, cpu=cpu, wall=wall)
    zones, res, done, build_err = {}, [], False, None
    for l in r.json_lines():
        if "zone" in l:
            zones[l["zone"]] = {"verts": l["verts"], "links": {k: float.fromhex(v) for k, v in l["links"].items()}}
        elif "i" in l:
            if "lat" in l:
                l["lat"] = float.fromhex(l["lat"])
            res.append(l)
        elif "done" in l:
            done = True
        elif "build_err" in l:
            build_err = l["build_err"]
    return r, zones, res, done, build_err


def lat_of(k):
    return k / 1024.0


def concrete(name, direction, policy, back=False):
    """Name of the link object actually put in a route for a declared <link_ctn>: split-duplex links are two links."""
    if policy != 2:
        return name
    up = (direction == 1)
    if back:
        up = not up
    return name + ("_UP" if up else "_DOWN")


# ---------------------------------------------------------------------------------------------
# C25: shortest-path zones.  A *graph* is
#   {"n": int, "types": "hhrh..", "order": [creation order of the nodes],
#    "links": [[lat_k, policy], ...],
#    "edges": [[src, dst, [[link index, dir], ...], sym], ...]      declared one-hop routes, in declaration order
#    "selfs": [[node, [[link index, dir], ...]], ...]               declared loopback routes (hosts only)
#    "pairs": [[src, dst], ...]}                                    queries, in this order (the order matters for the cache)

SP_KINDS = ["floyd", "dijkstra", "dijkstracache"]
PREFIX = {"full": "F", "floyd": "W", "dijkstra": "D", "dijkstracache": "C"}


def graph_valid(g):
    n = g["n"]
    if n < 1 or len(g["types"]) != n or sorted(g["order"]) != list(range(n)):
        return False
    seen = set()
    for s, d, ls, sym in g["edges"]:
        if not (0 <= s < n and 0 <= d < n) or s == d or not ls:
            return False
        if (s, d) in seen or (sym and (d, s) in seen):
            return False
        seen.add((s, d))
        if sym:
            seen.add((d, s))
        for li, di in ls:
            if not 0 <= li < len(g["links"]):
                return False
            if g["links"][li][1] == 2 and di not in (1, 2):
                return False
    selfs = set()
    for v, ls in g.get("selfs", []):
        if v in selfs or not ls or g["types"][v] != "h":
            return False
        selfs.add(v)
    return True


def directed_edges(g, prefix=""):
    """{(s, d): [concrete link names]} for every declared direction."""
    res = {}
    for s, d, ls, sym in g["edges"]:
        res[(s, d)] = [concrete("%sl%d" % (prefix, li), di, g["links"][li][1]) for li, di in ls]
        if sym:
            res[(d, s)] = [concrete("%sl%d" % (prefix, li), di, g["links"][li][1], back=True) for li, di in reversed(ls)]
    return res


def self_routes(g, prefix=""):
    return {v: [concrete("%sl%d" % (prefix, li), di, g["links"][li][1]) for li, di in ls] for v, ls in g.get("selfs", [])}


def graph_zone(g, kind, prefix):
    """Zone description of graph g for the driver, every name prefixed."""
    members = []
    for v in g["order"]:
        members.append(["h" if g["types"][v] == "h" else "r", "%sn%d" % (prefix, v)])
    links = [{"name": "%sl%d" % (prefix, i), "lat": lat_of(k), "policy": p} for i, (k, p) in enumerate(g["links"])]
    routes = []
    for s, d, ls, sym in g["edges"]:
        routes.append({"src": "%sn%d" % (prefix, s), "dst": "%sn%d" % (prefix, d),
                       "links": [["%sl%d" % (prefix, li), di] for li, di in ls], "sym": bool(sym)})
    for v, ls in g.get("selfs", []):
        routes.append({"src": "%sn%d" % (prefix, v), "dst": "%sn%d" % (prefix, v),
                       "links": [["%sl%d" % (prefix, li), di] for li, di in ls], "sym": False})
    return {"name": prefix + "zone", "kind": kind, "members": members, "links": links, "routes": routes}


def all_dists(n, dedges):
    """All-pairs minimal link counts over the declared one-hop routes (weights = number of links): plain Dijkstra
    from every source.  dist[s][d] = None when d cannot be reached."""
    out = [[] for _ in range(n)]
    for (s, d), ls in dedges.items():
        out[s].append((d, len(ls)))
    res = []
    for s in range(n):
        dist = [None] * n
        dist[s] = 0
        pq = [(0, s)]
        while pq:
            c, v = heapq.heappop(pq)
            if c > dist[v]:
                continue
            for (u, w) in out[v]:
                if dist[u] is None or c + w < dist[u]:
                    dist[u] = c + w
                    heapq.heappush(pq, (c + w, u))
        res.append(dist)
    return res


def decode_chain(route, s, d, dedges, reverse_hops=False):
    """Is `route` (list of link names) the concatenation, in order, of declared one-hop routes v0->v1->...->vk with
    v0 = s, vk = d?  Returns the list of hops [(v_i, v_i+1), ...] of one such decomposition, or None.
    Links may be shared by several declared routes, so this is a search over (position, node) states."""
    out = {}
    for (a, b), ls in dedges.items():
        out.setdefault(a, []).append((b, list(reversed(ls)) if reverse_hops else ls))
    L = len(route)
    start = (0, s)
    prev = {start: None}
    stack = [start]
    while stack:
        pos, v = stack.pop()
        if pos == L and v == d and (pos, v) != start:
            hops = []
            cur = (pos, v)
            while prev[cur] is not None:
                p = prev[cur]
                hops.append((p[1], cur[1]))
                cur = p
            return list(reversed(hops))
        for (b, ls) in out.get(v, []):
            k = len(ls)
            if route[pos:pos + k] == ls:
                nxt = (pos + k, b)
                if nxt not in prev:
                    prev[nxt] = (pos, v)
                    stack.append(nxt)
    return None


def reach_all(dist_row):
    return all(x is not None for x in dist_row)


@st.composite
def sp_graphs(draw, max_n=30):
    size = draw(st.sampled_from(["tiny", "small", "small", "medium", "large"]))
    n = draw({"tiny": st.integers(2, 4), "small": st.integers(3, 8), "medium": st.integers(6, 14),
              "large": st.integers(min(12, max_n), max_n)}[size])
    types = "".join(draw(st.lists(st.sampled_from("hhhr"), min_size=n, max_size=n)))
    order = draw(st.permutations(list(range(n))))
    cls = draw(st.sampled_from(["cycle", "tree-sym", "tree-sym", "mixed", "weak", "weak"]))
    perm = draw(st.permutations(list(range(n))))
    nlinks = draw(st.integers(1, min(3 * n, 40)))
    sd_share = draw(st.sampled_from([0, 0, 1, 3]))
    links = []
    for _ in range(nlinks):
        pol = 2 if draw(st.integers(0, 9)) < sd_share else draw(st.sampled_from([0, 1, 1]))
        links.append([draw(st.sampled_from([0, 1, 2, 3, 5, 8, 64, 1024, 4096])), pol])
    fresh = [0]
    shared = draw(st.booleans())   # may several routes use the same link object?

    def mk_links(k):
        res = []
        for _ in range(k):
            if shared:
                li = draw(st.integers(0, nlinks - 1))
            else:
                li = fresh[0] % nlinks
                fresh[0] += 1
            di = draw(st.sampled_from([1, 2])) if links[li][1] == 2 else 0
            res.append([li, di])
        return res
    nlk = st.sampled_from([1, 1, 1, 2, 2, 3, 4])
    used = set()
    edges = []

    def add(s, d, sym, k=None):
        if s == d or (s, d) in used or (sym and (d, s) in used):
            return False
        used.add((s, d))
        if sym:
            used.add((d, s))
        edges.append([s, d, mk_links(k if k is not None else draw(nlk)), sym])
        return True
    if cls == "cycle":
        for i in range(n):
            add(perm[i], perm[(i + 1) % n], False)
    elif cls == "tree-sym":
        for i in range(1, n):
            add(perm[i], perm[draw(st.integers(0, i - 1))], True)
    elif cls == "mixed":     # strongly connected: symmetric tree where some edges are declared as two one-way routes
        for i in range(1, n):
            p = perm[draw(st.integers(0, i - 1))]
            if draw(st.booleans()):
                add(perm[i], p, True)
            else:
                add(perm[i], p, False)
                add(p, perm[i], False)
    else:                    # weakly connected: a tree whose edges have a random orientation, some two-way
        for i in range(1, n):
            p = perm[draw(st.integers(0, i - 1))]
            o = draw(st.sampled_from(["up", "down", "down", "both"]))
            if o == "up":
                add(perm[i], p, False)
            elif o == "down":
                add(p, perm[i], False)
            else:
                add(perm[i], p, True)
    # extra routes: chords.  Long direct routes next to short multi-hop ones are what makes minimality non-trivial.
    nextra = draw(st.integers(0, min(2 * n, 25)))
    for _ in range(nextra):
        s = draw(st.integers(0, n - 1))
        d = draw(st.integers(0, n - 1))
        sym = draw(st.booleans()) if cls != "weak" else draw(st.sampled_from([False, False, True]))
        add(s, d, sym, draw(st.sampled_from([1, 2, 3, 3, 4, 4])))
    edges = draw(st.permutations(edges)) if len(edges) <= 12 else edges
    selfs = []
    if draw(st.integers(0, 3)) == 0:
        for v in range(n):
            if types[v] == "h" and draw(st.integers(0, 2)) == 0:
                selfs.append([v, mk_links(draw(st.sampled_from([1, 1, 2])))])
    # queries
    if n <= 6:
        pairs = [[s, d] for s in range(n) for d in range(n)]
        pairs = draw(st.permutations(pairs))
        pairs += draw(st.lists(st.tuples(st.integers(0, n - 1), st.integers(0, n - 1)).map(list), max_size=6))
    else:
        pairs = draw(st.lists(st.tuples(st.integers(0, n - 1), st.integers(0, n - 1)).map(list), min_size=8, max_size=60))
    return {"n": n, "types": types, "order": list(order), "links": links, "edges": [list(e) for e in edges],
            "selfs": selfs, "pairs": [list(p) for p in pairs], "cls": cls}


def sp_platform(g, kinds=("full",) + tuple(SP_KINDS), queries=None):
    """One platform holding the same graph once per zone kind (names prefixed), and the list of queries
    [(kind, s, d)] in the order they are issued."""
    zones = [graph_zone(g, k, PREFIX[k]) for k in kinds]
    pairs = []
    meta = []
    for k in kinds:
        for (s, d) in (queries[k] if queries else []):
            pairs.append(["%sn%d" % (PREFIX[k], s), "%sn%d" % (PREFIX[k], d)])
            meta.append((k, s, d))
    return {"zones": zones, "pairs": pairs}, meta
