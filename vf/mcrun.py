"""Running simgrid-mc on a scenario of the S4U interpreter and reading what it explored (C38, C40, C41)."""
import json
import re

from . import refsem, s4u

BASE_CFG = ["model-check/max-errors:-1", "model-check/search-critical:0"]


def normalise_outcome(scenario, obs):
    progs = {a["name"]: a["ops"] for a in scenario["actors"]}
    out = {}
    for a in progs:
        l = obs.get(a) or []
        res = []
        for i, v in enumerate(l):
            op = progs[a][i][0]
            if op == "barrier":
                v = "*"
            elif op == "get" and isinstance(v, dict):
                v = {"from": v["from"], "seq": v["seq"]}
            res.append(v)
        out[a] = res
    return refsem._freeze(out)


class McResult:
    def __init__(self, scenario, r):
        self.r = r
        self.rc = r.rc
        self.outcomes = set()
        self.noutcome_lines = 0
        for l in r.out.splitlines():
            if l.startswith("OUTCOME "):
                self.noutcome_lines += 1
                try:
                    self.outcomes.add(normalise_outcome(scenario, json.loads(l[8:])))
                except ValueError:
                    pass
        err = r.err
        self.deadlock = "DEADLOCK DETECTED" in err
        self.assertion = "PROPERTY VIOLATION" in err or "Property violation" in err or "FAILED ASSERTION" in err.upper()
        m = re.findall(r"(\d+) unique states visited; (\d+) explored traces", err)
        self.states, self.traces = (int(m[-1][0]), int(m[-1][1])) if m else (-1, -1)
        self.no_transition = "did not do any transition before terminating" in err
        self.ended = "exploration ended" in err or self.no_transition
        self.replays = re.findall(r"model-check/replay:'([^']*)'", err)
        # (kind, path) of every reported counter-example, in order
        self.counter_examples = []
        kind = None
        for l in err.splitlines():
            if "DEADLOCK DETECTED" in l:
                kind = "deadlock"
            elif "PROPERTY NOT VALID" in l or "PROPERTY VIOLATION" in l.upper() or "assertion" in l.lower() and "fail" in l.lower():
                kind = "assertion"
            m2 = re.search(r"model-check/replay:'([^']*)'", l)
            if m2:
                self.counter_examples.append((kind, m2.group(1)))
                kind = None
        self.crashed = (not self.ended) or r.rc < 0 or r.cpu_exceeded
        # load, not a verdict: simgrid-mc gives its child 5 s of wall-clock time to connect; when that fails the checker
        # bails out or dies of SIGPIPE on the socket of the child it killed
        self.load_failure = "failed to connect within" in err or (r.rc == -13 and not self.ended)

    def tail(self, n=1200):
        lines = [l for l in self.r.err.splitlines() if "Configuration change" not in l]
        return "\n".join(lines)[-n:]


def run(scenario, reduction, extra=(), cpu=120, wall=900):
    cfg = ["model-check/reduction:" + reduction] + BASE_CFG + list(extra)
    return McResult(scenario, s4u.run_mc(scenario, cfg, cpu=cpu, wall=wall))


def replay(scenario, path, cpu=20, wall=200):
    """Run the application out of the checker along a recorded path.  Returns (RunResult, verdict, blocked actor names)."""
    import json as _json
    import os
    from . import build, core
    f = core.write_tmp(_json.dumps(scenario))
    try:
        r = core.run([build.drv("s4u_interp"), "--mc", f, "--cfg=model-check/replay:" + path, "--log=no_loc"], cpu=cpu, wall=wall,
                     env=build.runtime_env())
    finally:
        os.unlink(f)
    txt = r.err + r.out
    if "MC assertion failed" in txt:
        verdict = "assertion"
    elif "DEADLOCK detected" in txt:
        verdict = "deadlock"
    elif "no actor remains to be executed" in txt:
        verdict = "terminated"
    elif "could run further" in txt:
        verdict = "incomplete"
    else:
        verdict = "other"
    blocked = sorted(set(re.findall(r" - pid \d+ \(([^@]+)@", txt)))
    return r, verdict, blocked
