"""Running simgrid-mc on a scenario of the S4U interpreter and reading what it explored (C38, C40, C41)."""
import json
import re

from . import refsem, s4u

BASE_CFG = ["model-check/max-errors:-1", "model-check/search-critical:0"]


def normalise_outcome(scenario, obs):
    progs = {a["name"]: a["ops"] for a in scenario["actors"]}
    out = {}
    for a in progs:
        l = obs.get(a) or []
        res = []
        for i, v in enumerate(l):
            op = progs[a][i][0]
            if op == "barrier":
                v = "*"
            elif op == "get" and isinstance(v, dict):
                v = {"from": v["from"], "seq": v["seq"]}
            res.append(v)
        out[a] = res
    return refsem._freeze(out)


class McResult:
    def __init__(self, scenario, r):
        self.r = r
        self.rc = r.rc
        self.outcomes = set()
        self.noutcome_lines = 0
        for l in r.out.splitlines():
            if l.startswith("OUTCOME "):
                self.noutcome_lines += 1
                try:
                    self.outcomes.add(normalise_outcome(scenario, json.loads(l[8:])))
                except ValueError:
                    pass
        err = r.err
        self.deadlock = "DEADLOCK DETECTED" in err
        self.assertion = "PROPERTY VIOLATION" in err or "Property violation" in err or "FAILED ASSERTION" in err.upper()
        m = re.findall(r"(\d+) unique states visited; (\d+) explored traces", err)
        self.states, self.traces = (int(m[-1][0]), int(m[-1][1])) if m else (-1, -1)
        self.no_transition = "did not do any transition before terminating" in err
        self.ended = "exploration ended" in err or self.no_transition
        self.replays = re.findall(r"model-check/replay:'([^']*)'", err)
        self.crashed = (not self.ended) or r.rc < 0 or r.cpu_exceeded

    def tail(self, n=1200):
        lines = [l for l in self.r.err.splitlines() if "Configuration change" not in l]
        return "\n".join(lines)[-n:]


def run(scenario, reduction, extra=(), cpu=120, wall=900):
    cfg = ["model-check/reduction:" + reduction] + BASE_CFG + list(extra)
    return McResult(scenario, s4u.run_mc(scenario, cfg, cpu=cpu, wall=wall))
