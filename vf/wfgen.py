"""C13: workflows (activities with dependencies).  DAG generator, scripts for the S4U interpreter (drivers/s4u_wf.cpp +
drivers/s4u_ext_wf.hpp), emitters for wfformat JSON and DAX, and the oracle.

A *case*:
  {"mode": "main" | "actor" | "veto_loop" | "veto_cb" | "json" | "dax", "nhosts": 2..4,
   "nodes": [{"kind": "exec"|"comm"|"io", "amount": float,
              "where": host index | [src index, dst index] | "read"/"write" disk spec {"host": index, "op": "read"|"write"},
              "assign": "create" | "before" | "after" | ["at", date] | "veto" | "file",
              "start": "build" | ["at", date] | None, "via": "init"|"exec_init"}],
   "edges": [[u, v], ...] (u < v: acyclic by construction),
   "order": permutation used to emit the tasks of a JSON file, "jobs"/"files"/"control": the DAX description (mode dax)}

Timing model (sharing-free platform, so that every duration is a closed form: hosts with 64 cores, one FATPIPE link per pair of hosts, one disk
per I/O node, CM02 without cross-traffic and TCP window): exec = flops / speed; comm = latency + bytes / bandwidth (src != dst) or bytes /
loopback bandwidth; io = bytes / read or write bandwidth of the disk.
"""
import math
import os

from hypothesis import strategies as st

from . import core, s4u

DRIVER = "s4u_wf"
EXT_VERSION = "wf-ext-v3"
SPEED = 1024.0
BW = 1024.0
LAT = 0.5
LOOP_BW = 1e10            # network/loopback-bw default, latency 0
DISK_R, DISK_W = 1024.0, 512.0
DAX_FLOPS = 4200000000.0  # src/dag/loaders.cpp: "Assume that timings were done on a 4.2GFlops machine"

QUARTER_DATES = st.integers(1, 48).map(lambda k: k / 4)     # > 0: the build phase (date 0) is over when the timeline actor acts


# ------------------------------------------------------------------------------------------------ generator
@st.composite
def dags(draw, max_nodes=30, kinds=("exec", "comm", "io")):
    """nodes with kinds and amounts, edges u -> v with u < v (layered: predecessors are taken among the previous nodes, mostly recent ones)"""
    n = draw(st.one_of(st.integers(1, 8), st.integers(1, 8), st.integers(1, max_nodes)))
    nodes, edges = [], []
    hub = draw(st.integers(0, max(0, n // 2))) if draw(st.booleans()) else None
    for v in range(n):
        kind = draw(st.sampled_from(kinds))
        if kind == "exec":
            amount = draw(st.sampled_from([0.0, 256.0, 512.0, 1024.0, 1024.0, 2048.0, 3072.0, 1000.0]))
        elif kind == "comm":
            amount = draw(st.sampled_from([1.0, 256.0, 512.0, 1024.0, 1024.0, 2048.0, 1500.0, 256.0, 512.0, 1024.0, 3072.0, 768.0, 0.0]))
        else:
            amount = draw(st.sampled_from([0.0, 256.0, 512.0, 1024.0, 2048.0]))
        nodes.append({"kind": kind, "amount": amount})
        if v > 0:
            npred = draw(st.sampled_from([0, 1, 1, 1, 2, 2, 3]))
            lo = max(0, v - 6) if draw(st.integers(0, 3)) > 0 else 0
            preds = set(draw(st.lists(st.integers(lo, v - 1), unique=True, max_size=npred)))
            if hub is not None and hub < v and draw(st.integers(0, 2)) > 0:
                preds.add(hub)                  # fan-out: one node with many successors, themselves with other predecessors
            for u in sorted(preds):
                edges.append([u, v])
    return nodes, edges


@st.composite
def api_cases(draw, max_nodes=30):
    mode = draw(st.sampled_from(["main", "main", "actor", "actor", "veto_loop", "veto_cb"]))
    nhosts = draw(st.integers(2, 4))
    nodes, edges = draw(dags(max_nodes))
    haspred = {v for _, v in edges}
    for v, nd in enumerate(nodes):
        if nd["kind"] == "exec":
            nd["where"] = draw(st.integers(0, nhosts - 1))
        elif nd["kind"] == "comm":
            nd["where"] = [draw(st.integers(0, nhosts - 1)), draw(st.integers(0, nhosts - 1))]
        else:
            nd["where"] = {"host": draw(st.integers(0, nhosts - 1)), "op": draw(st.sampled_from(["read", "write"]))}
        timeline = mode in ("main", "actor")
        choices = ["create", "before", "after"] + (["at", "at", "at"] if timeline else ["veto", "veto", "veto"])
        a = draw(st.sampled_from(choices))
        nd["assign"] = ["at", draw(QUARTER_DATES)] if a == "at" else a
        nd["via"] = "init"
        if mode == "actor" and nd["kind"] == "exec" and nd["assign"] == "create" and draw(st.booleans()):
            nd["via"] = "exec_init"
            nd["where"] = 0                  # the builder's host
        if v not in haspred:
            # a root must be started explicitly (a comm is also started by its assignment: no later explicit start)
            if timeline and nd["kind"] != "comm" and draw(st.integers(0, 3)) == 0:
                nd["start"] = ["at", draw(QUARTER_DATES)]
            else:
                nd["start"] = "build"
        else:
            nd["start"] = "build" if draw(st.integers(0, 3)) == 0 else None       # an early start() is vetoed
    return {"mode": mode, "nhosts": nhosts, "nodes": nodes, "edges": edges}


@st.composite
def json_cases(draw, max_nodes=30):
    nhosts = draw(st.integers(2, 4))
    nodes, edges = draw(dags(max_nodes, kinds=("exec", "exec", "comm")))
    for v, nd in enumerate(nodes):
        if nd["kind"] == "exec":
            nd["where"] = draw(st.integers(0, nhosts - 1))
        else:
            nd["where"] = [draw(st.integers(0, nhosts - 1)), draw(st.integers(0, nhosts - 1))]
        a = draw(st.sampled_from(["file", "file", "after", "at", "at"]))
        nd["assign"] = ["at", draw(QUARTER_DATES)] if a == "at" else a
        nd["start"] = None
    order = draw(st.permutations(list(range(len(nodes))))) if draw(st.integers(0, 3)) == 0 else list(range(len(nodes)))
    case = {"mode": "json", "nhosts": nhosts, "nodes": nodes, "edges": edges, "order": list(order)}
    # the loader reads the host of the single parent of a transfer when that parent is a compute task listed earlier: it must have one
    # (Exec::get_host() of an unassigned execution is undefined)
    pos = {v: i for i, v in enumerate(case["order"])}
    for v, nd in enumerate(nodes):
        if nd["kind"] == "comm":
            ps = [u for u, w in edges if w == v]
            if len(ps) == 1 and nodes[ps[0]]["kind"] == "exec" and pos[ps[0]] < pos[v]:
                nodes[ps[0]]["assign"] = "file"
    return case


@st.composite
def dax_cases(draw, max_jobs=10):
    nhosts = draw(st.integers(2, 4))
    njobs = draw(st.integers(1, max_jobs))
    jobs = [{"id": "%d" % (j + 1), "name": draw(st.sampled_from(["task", "job", "t"])) + "%d" % (j % 3),
             "runtime": draw(st.sampled_from([0.0, 0.25, 0.5, 1.0, 1.0, 2.0, 10.0]))} for j in range(njobs)]
    nfiles = draw(st.integers(0, min(8, 2 * njobs)))
    files = []
    for f in range(nfiles):
        size = draw(st.sampled_from([1, 256, 512, 1024, 1024, 2048, 1000000, 256, 512, 768, 1024, 3072, 0]))
        cut = draw(st.integers(0, njobs))                  # producers have an index < cut <= consumers: no cycle
        prods = draw(st.lists(st.integers(0, cut - 1), unique=True, max_size=2 if draw(st.integers(0, 5)) == 0 else 1)) if cut > 0 else []
        cons = draw(st.lists(st.integers(cut, njobs - 1), unique=True, max_size=3)) if cut < njobs else []
        if not prods and not cons:
            continue
        files.append({"name": "f%d" % f, "size": size, "producers": sorted(prods), "consumers": sorted(cons)})
    control = []
    for j in range(1, njobs):
        for p in draw(st.lists(st.integers(0, j - 1), unique=True, max_size=2)) if draw(st.integers(0, 2)) == 0 else []:
            control.append([p, j])
    case = {"mode": "dax", "nhosts": nhosts, "jobs": jobs, "files": files, "control": control}
    nodes, edges = dax_graph(case)
    assigns = {}
    for nd in nodes:
        a = draw(st.sampled_from(["after", "after", "at", "at"]))
        where = draw(st.integers(0, nhosts - 1)) if nd["kind"] == "exec" else [draw(st.integers(0, nhosts - 1)), draw(st.integers(0, nhosts - 1))]
        assigns[nd["name"]] = {"assign": ["at", draw(QUARTER_DATES)] if a == "at" else a, "where": where}
    case["assigns"] = assigns
    return case


def cases():
    return st.one_of(api_cases(), api_cases(), api_cases(), json_cases(), dax_cases())


# ------------------------------------------------------------------------------------------------ the expected graph
def job_name(j):
    return "%s@%s" % (j["id"], j["name"])


def dax_graph(case):
    """The DAG that create_DAG_from_DAX must build (documented in its comments: one transfer per pair of tasks exchanging a file; files
    nobody produces come from 'root', files nobody consumes go to 'end'; tasks without input depend on root, tasks without successor precede end).
    Returns (nodes [{name, kind, amount}], edges [[u, v]] as indices) in the loader's order."""
    jobs = case["jobs"]
    nodes = [{"name": "root", "kind": "exec", "amount": 0.0}]
    for j in jobs:
        nodes.append({"name": job_name(j), "kind": "exec", "amount": j["runtime"] * DAX_FLOPS})
    edges = []
    idx = {"root": 0}
    for i, j in enumerate(jobs):
        idx[job_name(j)] = i + 1
    comms = []
    for f in sorted(case["files"], key=lambda f: f["name"]):
        prods = [job_name(jobs[p]) for p in f["producers"]]
        cons = [job_name(jobs[c]) for c in f["consumers"]]
        pairs = []
        if not prods:
            pairs += [("root", c) for c in cons]
        if not cons:
            pairs += [(p, "end") for p in prods]
        pairs += [(p, c) for p in prods for c in cons]
        for p, c in pairs:
            comms.append({"name": "%s_%s_%s" % (p, f["name"], c), "kind": "comm", "amount": float(f["size"]), "p": p, "c": c})
    base = len(nodes)
    for k, cm in enumerate(comms):
        nodes.append({"name": cm["name"], "kind": "comm", "amount": cm["amount"]})
        idx[cm["name"]] = base + k
    nodes.append({"name": "end", "kind": "exec", "amount": 0.0})
    idx["end"] = len(nodes) - 1
    es = set()
    for cm in comms:
        es.add((idx[cm["p"]], idx[cm["name"]]))
        es.add((idx[cm["name"]], idx[cm["c"]]))
    for p, c in case["control"]:
        es.add((idx[job_name(jobs[p])], idx[job_name(jobs[c])]))
    for j in jobs:
        v = idx[job_name(j)]
        if not any(b == v for _, b in es):
            es.add((0, v))
        if not any(a == v for a, _ in es):
            es.add((v, idx["end"]))
    edges = sorted([a, b] for a, b in es)
    return nodes, edges


def graph(case):
    """(nodes [{name, kind, amount, where, assign, start}], edges) whatever the mode"""
    if case["mode"] == "dax":
        nodes, edges = dax_graph(case)
        for nd in nodes:
            a = case["assigns"][nd["name"]]
            nd["assign"], nd["where"], nd["start"] = a["assign"], a["where"], None
        return nodes, edges
    nodes = []
    for v, nd in enumerate(case["nodes"]):
        nd = dict(nd)
        nd["name"] = "n%d" % v
        nodes.append(nd)
    return nodes, case["edges"]


def effective_where(case, nodes, edges):
    """where each node really runs: the JSON loader takes the source of a transfer from its single parent when it can"""
    res = [nd["where"] for nd in nodes]
    if case["mode"] == "json":
        pre = json_preassigned(case)
        for v, nd in enumerate(nodes):
            if nd["kind"] == "comm" and "src" in pre[nd["name"]]:
                p = [u for u, w in edges if w == v][0]
                res[v] = [nodes[p]["where"], nd["where"][1]]
    return res


def duration(nd, where, speeds):
    if nd["kind"] == "exec":
        return nd["amount"] / speeds[where]
    if nd["kind"] == "comm":
        if where[0] == where[1]:
            return nd["amount"] / LOOP_BW
        return LAT + nd["amount"] / BW
    return nd["amount"] / (DISK_R if where["op"] == "read" else DISK_W)


# ------------------------------------------------------------------------------------------------ scenario
def hostname(i):
    return "h%d" % i


def assignment(nd, v):
    if nd["kind"] == "exec":
        return {"host": hostname(nd["where"])}
    if nd["kind"] == "comm":
        return {"src": hostname(nd["where"][0]), "dst": hostname(nd["where"][1])}
    return {"disk": "dk%d" % v}


def json_file(case):
    """wfformat text of the case (the subset create_DAG_from_json reads: name, type, parents, runtimeInSeconds / writtenBytes, machine)"""
    import json
    nodes, edges = graph(case)
    tasks = []
    for v in case["order"]:
        nd = nodes[v]
        t = {"name": nd["name"], "type": "compute" if nd["kind"] == "exec" else "transfer",
             "parents": [nodes[u]["name"] for u, w in edges if w == v]}
        if nd["kind"] == "exec":
            t["runtimeInSeconds"] = nd["amount"]
            if nd["assign"] == "file":
                t["machine"] = hostname(nd["where"])
        else:
            t["writtenBytes"] = nd["amount"]
            if nd["assign"] == "file":
                t["machine"] = hostname(nd["where"][1])
        tasks.append(t)
    return json.dumps({"name": "generated", "schemaVersion": "1.4",
                       "workflow": {"makespanInSeconds": 0, "executedAt": "2023-03-09T00:00:00-00:00", "tasks": tasks,
                                    "machines": [{"nodeName": hostname(i)} for i in range(case["nhosts"])]}}, indent=1)


def json_preassigned(case):
    """what the JSON loader assigns by itself: name -> set of assignment keys ('host', 'src', 'dst')"""
    nodes, edges = graph(case)
    pos = {v: i for i, v in enumerate(case["order"])}
    res = {}
    for v, nd in enumerate(nodes):
        got = set()
        if nd["kind"] == "exec":
            if nd["assign"] == "file":
                got.add("host")
        else:
            if nd["assign"] == "file":
                got.add("dst")
            ps = [u for u, w in edges if w == v]
            if len(ps) == 1 and pos[ps[0]] < pos[v] and nodes[ps[0]]["kind"] == "exec" and nodes[ps[0]]["assign"] == "file":
                got.add("src")       # the host of its parent
        res[nd["name"]] = got
    return res


def dax_file(case):
    out = ['<?xml version="1.0" encoding="UTF-8"?>',
           '<adag xmlns="http://pegasus.isi.edu/schema/DAX" xmlns:xsi="http://www.w3.org/2001/XMLSchema-instance"',
           '      xsi:schemaLocation="http://pegasus.isi.edu/schema/DAX http://pegasus.isi.edu/schema/dax-2.1.xsd"',
           '      version="2.1" count="1" index="0" name="generated" jobCount="%d" fileCount="%d" childCount="%d">'
           % (len(case["jobs"]), len(case["files"]), len({c for _, c in case["control"]}))]
    for i, j in enumerate(case["jobs"]):
        out.append('  <job id="%s" namespace="SG" name="%s" version="1.0" runtime="%r">' % (j["id"], j["name"], j["runtime"]))
        for f in case["files"]:
            for link, who in (("input", f["consumers"]), ("output", f["producers"])):
                if i in who:
                    out.append('    <uses file="%s" link="%s" register="true" transfer="true" optional="false" type="data" size="%d"/>'
                               % (f["name"], link, f["size"]))
        out.append('  </job>')
    children = sorted({c for _, c in case["control"]})
    for c in children:
        out.append('  <child ref="%s">' % case["jobs"][c]["id"])
        for p, cc in case["control"]:
            if cc == c:
                out.append('    <parent ref="%s"/>' % case["jobs"][p]["id"])
        out.append('  </child>')
    out.append('</adag>')
    return "\n".join(out) + "\n"


def speeds_of(case):
    if case["mode"] == "dax":
        return [DAX_FLOPS * f for f in (1.0, 2.0, 0.5, 1.0)][:case["nhosts"]]
    return [SPEED, 2 * SPEED, SPEED / 2, SPEED][:case["nhosts"]]


def scenario(case, path=None):
    nodes, edges = graph(case)
    mode = case["mode"]
    speeds = speeds_of(case)
    plat = s4u.sharing_free_platform(case["nhosts"], cores=64, speed=SPEED, bw=BW, lat=LAT)
    for i, h in enumerate(plat["hosts"]):
        h["speed"] = speeds[i]
    for v, nd in enumerate(nodes):
        if nd["kind"] == "io":
            plat["hosts"][nd["where"]["host"]].setdefault("disks", []).append({"name": "dk%d" % v, "read_bw": DISK_R, "write_bw": DISK_W})
    build = []
    ref = (lambda v: v) if mode in ("main", "actor", "veto_loop", "veto_cb") else (lambda v: nodes[v]["name"])
    pre = {}
    if mode in ("json", "dax"):
        build.append(["wf_load", mode, path])
        pre = json_preassigned(case) if mode == "json" else {}
    else:
        haspred0 = {w for _, w in edges}
        for v, nd in enumerate(nodes):
            # (a comm is started by its assignment: one that has predecessors is only assigned once they are declared)
            opts = dict(assignment(nd, v)) if nd["assign"] == "create" and not (nd["kind"] == "comm" and v in haspred0) else {}
            if nd["kind"] == "exec":
                if nd.get("via") == "exec_init":
                    opts = {"via": "exec_init"}
                build.append(["wf_exec", v, nd["amount"], opts])
            elif nd["kind"] == "comm":
                build.append(["wf_comm", v, nd["amount"], opts])
            else:
                build.append(["wf_io", v, nd["amount"], nd["where"]["op"], opts])
        for u, w in edges:
            build.append(["wf_dep", u, w])

    haspred = {w for _, w in edges}

    def missing(v):
        a = assignment(nodes[v], v)
        return {k: x for k, x in a.items() if k not in pre.get(nodes[v]["name"], set())}

    for v, nd in enumerate(nodes):
        if nd["assign"] == "before" or (nd["assign"] == "create" and nd["kind"] == "comm" and v in haspred and mode not in ("json", "dax")):
            build.append(["wf_assign", ref(v), assignment(nd, v)])
    for v, nd in enumerate(nodes):
        if nd["start"] == "build":
            if nd["kind"] == "comm" and nd["assign"] in ("create", "before") and v not in haspred and nd["amount"] > 0:
                # Comm::set_source/set_destination already started it: a second start() is a user error (it restarts the comm).
                # (They do not start a communication of 0 bytes: that one needs its explicit start().)
                continue
            build.append(["wf_start", ref(v)])
    for v, nd in enumerate(nodes):
        if nd["assign"] == "after" or (nd["assign"] == "file" and missing(v)):
            build.append(["wf_assign", ref(v), missing(v)])
    # the timeline of later assignments / starts (an actor of its own)
    events = []
    for v, nd in enumerate(nodes):
        if isinstance(nd["assign"], list):
            events.append((nd["assign"][1], 0, v, ["wf_assign", ref(v), missing(v)]))
        if isinstance(nd["start"], list):
            events.append((nd["start"][1], 1, v, ["wf_start", ref(v)]))
    events.sort(key=lambda e: (e[0], e[1], e[2]))
    tl = []
    for d, _, _, op in events:
        tl.append(["sleep_until", d])
        tl.append(op)
    sc = {"cfg": s4u.SHARING_FREE_CFG, "platform": plat, "wf": {}, "quiet": ["actor"], "actors": []}
    waited = [v for v, nd in enumerate(nodes) if nd["kind"] in ("exec", "io")]
    if mode == "actor":
        ops = build + ([["wf_wait_each", waited]] if waited else [])
        sc["actors"].append({"name": "b", "host": "h0", "ops": ops})
    else:
        sc["main"] = {"ops": build, "veto_loop": mode == "veto_loop"}
        if mode == "veto_loop":
            sc["main"]["on_veto"] = {nd["name"]: assignment(nd, v) for v, nd in enumerate(nodes) if nd["assign"] == "veto"}
    if mode == "veto_cb":
        sc["wf"]["veto_cb"] = {nd["name"]: assignment(nd, v) for v, nd in enumerate(nodes) if nd["assign"] == "veto"}
    if tl:
        sc["actors"].append({"name": "tl", "host": "h0", "ops": tl})
    return sc


def run(case, cpu=20, wall=240):
    path = None
    try:
        if case["mode"] == "json":
            path = core.write_tmp(json_file(case), suffix=".json")
        elif case["mode"] == "dax":
            path = core.write_tmp(dax_file(case), suffix=".xml")
        log = s4u.Log(core.serve(DRIVER, scenario(case, path), cpu=cpu, wall=wall))
    finally:
        if path:
            try:
                os.unlink(path)
            except OSError:
                pass
    if log.done and log.lines[-1].get("ext") != EXT_VERSION:
        raise core.Inconclusive("stale driver: built from extension header %r, expected %r" % (log.lines[-1].get("ext"), EXT_VERSION))
    return log


# ------------------------------------------------------------------------------------------------ oracle
def close(obs, exp, date):
    return abs(obs - exp) <= 1e-9 + 1e-9 * abs(exp) + 4 * math.ulp(max(abs(date), 1e-300))


def check(case, log, oc, labels):
    nodes, edges = graph(case)
    mode = case["mode"]
    speeds = speeds_of(case)
    T = s4u.T
    names = {nd["name"]: v for v, nd in enumerate(nodes)}
    preds = {v: [u for u, w in edges if w == v] for v in range(len(nodes))}
    labels.add("mode-" + mode)
    # ---- what the loader built
    if mode in ("json", "dax"):
        loaded = None
        for rec in log.ops():
            if rec["op"][0] == "wf_load":
                if "exc" in rec:
                    oc.bad("loader:exception", "the loader threw " + rec["exc"])
                    return
                loaded = rec.get("r")
        if loaded is None:
            oc.bad("loader:no-result", "wf_load did not return")
            return
        got = {d["name"]: d for d in loaded}
        if len(got) != len(loaded) or set(got) != set(names):
            oc.bad("loader:wrong-activities", "loaded activities %r, expected %r" % (sorted(d["name"] for d in loaded), sorted(names)))
            return
        pre = json_preassigned(case) if mode == "json" else {}
        for v, nd in enumerate(nodes):
            d = got[nd["name"]]
            if d["kind"] != nd["kind"] or T(d["amount"]) != nd["amount"]:
                oc.bad("loader:wrong-kind-or-amount", "%s loaded as %s of %r, expected %s of %r" % (nd["name"], d["kind"], T(d["amount"]), nd["kind"], nd["amount"]))
            if sorted(d["preds"]) != sorted(nodes[u]["name"] for u in preds[v]):
                oc.bad("loader:wrong-dependencies", "%s depends on %r, expected %r" % (nd["name"], d["preds"], sorted(nodes[u]["name"] for u in preds[v])))
            exp_assigned = set(assignment(nd, v)) <= pre.get(nd["name"], set())
            if d["assigned"] != exp_assigned:
                oc.bad("loader:wrong-assignment", "%s assigned=%r after loading, expected %r" % (nd["name"], d["assigned"], exp_assigned))
        if oc.violations:
            return
    # ---- dates of the user's calls (from the log: the date at which each operation returned)
    t_assign = {}      # node -> date at which its assignment became complete
    t_req = {}         # node -> first date at which a start was requested by the user
    for rec in log.ops():
        op = rec["op"]
        if "exc" in rec:
            oc.bad("operation-failed:" + op[0], "operation %r failed: %s" % (op, rec["exc"]))
            return
        if rec.get("t_ret") is None:
            continue
        who = None
        if op[0] in ("wf_exec", "wf_comm", "wf_io"):
            v = op[1]
            if set(assignment(nodes[v], v)) <= set(op[-1]) or op[-1].get("via") == "exec_init":
                t_assign[v] = rec["t_ret"]
                if nodes[v]["kind"] == "comm":
                    t_req.setdefault(v, rec["t_ret"])
        elif op[0] == "wf_assign":
            v = op[1] if isinstance(op[1], int) else names[op[1]]
            t_assign[v] = rec["t_req"]
            if nodes[v]["kind"] == "comm":      # Comm::set_source / set_destination try to start the communication
                t_req.setdefault(v, rec["t_req"])
        elif op[0] == "wf_start":
            v = op[1] if isinstance(op[1], int) else names[op[1]]
            t_req.setdefault(v, rec["t_req"])
        del who
    if mode == "json":
        pre = json_preassigned(case)
        for v, nd in enumerate(nodes):
            if set(assignment(nd, v)) <= pre[nd["name"]]:
                t_assign[v] = 0.0
            if nd["kind"] == "exec" and not preds[v]:
                t_req[v] = 0.0                 # the loader starts the computations without dependencies
            if nd["kind"] == "comm" and "dst" in pre[nd["name"]]:
                t_req[v] = 0.0
    if mode == "dax":
        for v in range(len(nodes)):
            t_req[v] = 0.0                     # the loader starts everything
    # ---- observed starts and completions
    starts, ends = {}, {}
    for l in log.of("act_start", "act_end"):
        v = names.get(l["name"])
        if v is None:
            continue
        (starts if l["k"] == "act_start" else ends).setdefault(v, []).append(l)
    zero_comm_blocked = set()
    for v, nd in enumerate(nodes):
        # a 0-byte communication whose assignment is completed after a vetoed start is never started by Comm::set_source/set_destination
        if nd["kind"] == "comm" and nd["amount"] == 0 and v not in starts:
            done = all(u in ends for u in preds[v])
            ready0 = max([T(ends[u][0]["t"]) for u in preds[v]], default=-math.inf) if done else None
            if nd["assign"] == "veto" or (done and v in t_assign and t_assign[v] >= ready0):
                zero_comm_blocked.add(v)
    blocked = set(zero_comm_blocked)            # their descendants cannot run either
    grew = True
    while grew:
        grew = False
        for v in range(len(nodes)):
            if v not in blocked and any(u in blocked for u in preds[v]):
                blocked.add(v)
                grew = True
    for v in sorted(zero_comm_blocked):
        if not any(u in blocked for u in preds[v]):
            oc.bad("zero-byte-comm-never-starts", "%s (a communication of 0 bytes, assigned and with all its dependencies solved) never started"
                   % nodes[v]["name"])
    nontrivial = False
    advances = [T(l["t"]) for l in log.of("adv")]
    wheres = effective_where(case, nodes, edges)
    for v, nd in enumerate(nodes):
        name = nd["name"]
        veto_assigned = nd["assign"] == "veto"
        if v in blocked:
            labels.add("blocked-by-zero-byte-comm")
            continue
        if v not in starts:
            oc.bad("activity-never-started", "%s (%s) never started; assigned at %r, start requested at %r" % (name, nd["kind"], t_assign.get(v), t_req.get(v)))
            continue
        ts = sorted({T(l["t"]) for l in starts[v]})
        if len(ts) > 1:
            oc.bad("activity-started-twice", "%s started at %r" % (name, ts))
            continue
        if len(starts[v]) > 1:
            labels.add("start-signal-repeated-%s" % nd["kind"])
        t0 = ts[0]
        # safety: after every predecessor, and assigned
        late = [u for u in preds[v] if u not in ends or T(ends[u][0]["t"]) > t0]
        if late:
            oc.bad("started-before-predecessor-finished", "%s started at %r but its predecessors %r finish at %r"
                   % (name, t0, [nodes[u]["name"] for u in late], [T(ends[u][0]["t"]) if u in ends else None for u in late]))
            continue
        if not veto_assigned and (v not in t_assign or t_assign[v] > t0):
            oc.bad("started-unassigned", "%s started at %r, assigned at %r" % (name, t0, t_assign.get(v)))
            continue
        if v not in ends:
            oc.bad("activity-never-finished", "%s started at %r and never completed" % (name, t0))
            continue
        if len(ends[v]) > 1:
            oc.bad("activity-completed-twice", "%s: %d completion signals at %r" % (name, len(ends[v]), [T(l["t"]) for l in ends[v]]))
            continue
        t1 = T(ends[v][0]["t"])
        ready = max([T(ends[u][0]["t"]) for u in preds[v]], default=-math.inf)
        req = -math.inf if preds[v] else t_req.get(v, math.inf)
        exp0 = max(ready, req) if veto_assigned else max(ready, req, t_assign[v])
        if abs(t0 - exp0) > 2 * math.ulp(max(exp0, 1e-300)):
            oc.bad("start-date-wrong", "%s started at %r, expected %r = max(predecessors %r, assignment %r, start request %r)"
                   % (name, t0, exp0, ready, t_assign.get(v), req))
            continue
        where = wheres[v]
        dur = duration(nd, where, speeds)
        slack = 0.0
        if nd["kind"] == "io" and nd["amount"] > 0:
            # the disk model moves an I/O forward by a whole number of bytes at every time advance (DiskS19Model::update_actions_state:
            # rint(rate * delta)): up to half a byte is lost or gained whenever another event cuts the I/O's life
            bw = DISK_R if where["op"] == "read" else DISK_W
            cuts = sum(1 for x in advances if t0 < x <= t1 + 1.0)
            slack = 0.5 * cuts / bw
            if any(t0 < x < t1 and (x - t0) * bw != int((x - t0) * bw) for x in advances):
                labels.add("io-cut-by-non-integral-step")
        if not close(t1 - t0, dur, t1) and abs((t1 - t0) - dur) > slack:
            oc.bad("duration-wrong", "%s (%s, %r) ran %r -> %r = %r, expected %r" % (name, nd["kind"], nd["amount"], t0, t1, t1 - t0, dur))
            continue
        for key in ("start", "finish"):
            if key in ends[v][0] and abs(T(ends[v][0][key]) - (t0 if key == "start" else t1)) > 2 * math.ulp(max(t1, 1e-300)):
                oc.bad("reported-%s-time-wrong" % key, "%s: get_%s_time() = %r, signal at %r" % (name, key, T(ends[v][0][key]), t0 if key == "start" else t1))
        # classification
        fin = sorted({T(ends[u][0]["t"]) for u in preds[v]})
        if len(preds[v]) >= 2 and len(fin) >= 2:
            labels.add("preds-finish-at-different-dates")
            nontrivial = True
        if preds[v] and not veto_assigned and t_assign[v] > ready:
            labels.add("assigned-after-preds-finished")
            nontrivial = True
        if preds[v] and not veto_assigned and t_assign[v] == ready:
            labels.add("assigned-when-preds-finish")
        if veto_assigned:
            labels.add("assigned-at-veto")
        if nd["start"] == "build" and preds[v]:
            labels.add("vetoed-early-start")
        if not preds[v] and isinstance(nd["start"], list):
            labels.add("root-started-later")
        if dur == 0:
            labels.add("zero-duration-" + nd["kind"])
        labels.add("kind-" + nd["kind"])
    labels.add("nodes>10" if len(nodes) > 10 else "nodes<=10")
    succs = {v: [w for u, w in edges if u == v] for v in range(len(nodes))}
    if any(len(succs[v]) >= 3 and any(len(preds[w]) >= 2 for w in succs[v]) for v in succs):
        labels.add("fan-out>=3-into-joins")
    return nontrivial
