"""Known findings: /verif/known_findings.json (committed, never written at run time).

Entry: {"property": "C38", "kind": "known"|"fixed", "signature": "<root-cause signature>",
        "input": "replays/C38/<file>.json", "what": "<what fails>", "commit": "<sha, for fixed>"}

A `known` entry suppresses violations whose signature equals `signature` (or starts with it when the
signature ends with '*').  A `fixed` entry suppresses nothing.
"""
import json
import os

PATH = "/verif/known_findings.json"


def load_all():
    """known_findings.json plus per-property files known/<ID>.json (same format; they let several people work without
    editing one file; the coordinator merges them)."""
    import glob
    res = []
    for path in [PATH] + sorted(glob.glob("/verif/known/*.json")):
        if os.path.exists(path):
            with open(path) as f:
                res.extend(json.load(f)["findings"])
    return res


class Known:
    def __init__(self, pid):
        self.entries = [e for e in load_all() if e["property"] == pid]
        self.known = [e for e in self.entries if e["kind"] == "known"]
        self.fixed = [e for e in self.entries if e["kind"] == "fixed"]

    def match(self, sig):
        for e in self.known:
            s = e["signature"]
            if s == sig or (s.endswith("*") and sig.startswith(s[:-1])):
                return e
        return None

    def is_known(self, sig):
        return self.match(sig) is not None


def merge():
    """Coordinator only, never at run time: moves the entries of known/<ID>.json into known_findings.json (the single
    committed known-findings file) and removes the per-property files.    PYTHONPATH=/verif python3-vt -m vf.known"""
    import glob
    with open(PATH) as f:
        doc = json.load(f)
    seen = set((e["property"], e["kind"], e["signature"], e.get("input")) for e in doc["findings"])
    n = 0
    for path in sorted(glob.glob("/verif/known/*.json")):
        with open(path) as f:
            for e in json.load(f)["findings"]:
                k = (e["property"], e["kind"], e["signature"], e.get("input"))
                if k not in seen:
                    seen.add(k)
                    doc["findings"].append(e)
                    n += 1
        os.remove(path)
    doc["findings"].sort(key=lambda e: (e["property"], e["kind"] != "known"))
    with open(PATH, "w") as f:
        json.dump(doc, f, indent=1)
        f.write("\n")
    print("merged %d entries; %d in total" % (n, len(doc["findings"])))


if __name__ == "__main__":
    merge()
