"""C46: file system plugin (src/plugins/file_system/s4u_FileSystem.cpp).  History generator and the reference model `path -> size`.

A *case* is {"disks": [{"name","mount","cap": bytes|None,"content": {relpath: size}|None}], "ops": [interpreter ops of
drivers/s4u_ext_wf.hpp, the first one being ["fs_state"]]}.  One actor on one host runs the operations in order.

Domain (by construction in `histories`, re-validated by `Model` when a stored case is replayed):
  * every path is under a mount point; at most one open handle per file at a time (a File object caches the size of its file:
    two handles on one file are outside what the plugin supports);
  * positions never become negative (File::update_position asserts);
  * after File::unlink() the only operation on that handle is close (what sg_file_unlink does);
  * a move never targets a file that is currently open through another handle, and never a path that another mount point would
    resolve differently.
"""
import os

from hypothesis import strategies as st

from . import core, s4u

DRIVER = "s4u_wf"
EXT_VERSION = "wf-ext-v3"
DEFAULT_CAP = 500 * 1024 ** 3           # FileSystemDiskExt::size_ when the disk has no "size" property
M64 = 1 << 64
NAMES = ["f0", "f1", "dir/f2", "f3.dat", "dir/sub/f4"]


class Invalid(Exception):
    pass


def signed(x):
    """difference of two sg_size_t values read as a signed quantity"""
    x %= M64
    return x - M64 if x >= M64 // 2 else x


def join(mount, name):
    return mount.rstrip("/") + "/" + name


class Model:
    """Reference model.  `content[disk][relpath] = size`, handles fid -> {disk, rel, size, pos, unlinked, moved}."""

    def __init__(self, disks):
        self.disks = {}
        for d in disks:
            self.disks[d["name"]] = {"mount": d["mount"], "cap": DEFAULT_CAP if d.get("cap") is None else d["cap"],
                                     "content": dict(d.get("content") or {})}
        self.h = {}

    # -------------------------------------------------------------------------------------------- helpers
    def used(self, disk):
        return sum(self.disks[disk]["content"].values())

    def resolve(self, fullpath):
        """(disk, relpath) by the longest mount point that prefixes the path (File::find_local_disk_on)"""
        best = None
        for name, d in self.disks.items():
            m = d["mount"]
            if fullpath.startswith(m) and (best is None or len(m) > len(self.disks[best]["mount"])):
                best = name
        if best is None:
            raise Invalid("no mount point for " + fullpath)
        m = self.disks[best]["mount"]
        return best, (fullpath if m == "/" else fullpath[len(m):])

    def open_rels(self):
        return {(h["disk"], h["rel"]) for h in self.h.values() if not h["unlinked"]}

    def handle(self, fid):
        if fid not in self.h:
            raise Invalid("handle %r is not open" % fid)
        return self.h[fid]

    # -------------------------------------------------------------------------------------------- one step
    def apply(self, op, obs=None):
        """Apply `op`.  Returns (opclass, expectations) where expectations = {"ret": set of admissible values | None,
        "sizes": set of admissible file sizes after the step | None (no handle)}.  When several sizes are admissible (an overwrite
        in the middle of a file: the plugin's comment says the tail disappears, POSIX says it stays) the model follows `obs` (the observed size)
        when it is admissible, else the smallest one."""
        k = op[0]
        if k == "fs_state":
            return "fs_state", {"ret": None}
        fid = op[1]
        if k == "f_open":
            if fid in self.h:
                raise Invalid("handle %r already open" % fid)
            disk, rel = self.resolve(op[2])
            if (disk, rel) in self.open_rels():
                raise Invalid("file already open")
            c = self.disks[disk]["content"]
            cls = "open-existing" if rel in c else "open-new"
            c.setdefault(rel, 0)
            self.h[fid] = {"disk": disk, "rel": rel, "size": c[rel], "pos": 0, "unlinked": False, "moved": False, "full": op[2]}
            return cls, {"ret": None, "sizes": {c[rel]}}
        h = self.handle(fid)
        d = self.disks[h["disk"]]
        c = d["content"]
        if h["unlinked"] and k != "f_close":
            raise Invalid("operation on an unlinked handle")
        size, pos = h["size"], h["pos"]
        suffix = "-on-moved-handle" if h["moved"] else ""
        if k == "f_write":
            n = op[2]
            inside = len(op) > 3 and op[3] is True
            if n < 0:
                raise Invalid("negative size")
            used = self.used(h["disk"])
            if n == 0:
                return "write-zero" + suffix, {"ret": {0}, "sizes": {size}}
            full_model = used >= d["cap"]
            full_obs = full_model
            if obs is not None and obs.get("used_before") is not None:
                full_obs = obs["used_before"] >= d["cap"]          # unsigned comparison, like the plugin's
            if full_model and full_obs:
                return "write-disk-full" + suffix, {"ret": {0}, "sizes": {size}}
            if full_model != full_obs and obs.get("ret") == 0:
                # the model and the real disk disagree on "full" (only possible after an accounting defect that was reported): the
                # returned value tells which way it went
                return "write-disk-full" + suffix, {"ret": {0}, "sizes": {size}}

            def outcome(w):
                end = pos + w
                if inside:
                    sizes = {max(size, end)}
                elif pos == size:
                    sizes = {end}
                else:
                    sizes = {end, max(size, end)}
                new = obs.get("size") if obs is not None and obs.get("size") in sizes else min(sizes)
                return end, sizes, new

            end, sizes, new = outcome(n)
            if inside:
                cls = "write-inside-within" if end <= size else "write-inside-extending"
            elif pos == size:
                cls = "append"
            else:
                cls = "write-in-the-middle-" + ("shorter-than-tail" if end < size else "exact-tail" if end == size else "longer-than-tail")
            exp = {"ret": {n}}
            if used + max(0, new - size) > d["cap"]:
                # a write that does not fit: the statement is silent on what is written; position and size follow the returned value
                cls += "-beyond-capacity"
                w = obs.get("ret") if obs is not None and isinstance(obs.get("ret"), int) and 0 <= obs["ret"] <= n else n
                end, sizes, new = outcome(w)
                exp = {"ret": None, "ret_max": n}
            h["pos"] = end
            h["size"] = new
            c[h["rel"]] = new
            exp["sizes"] = sizes
            return cls + suffix, exp
        if k == "f_read":
            n = op[2]
            if n < 0:
                raise Invalid("negative size")
            r = min(n, size - pos)
            h["pos"] = pos + r
            cls = "read-zero" if n == 0 else "read-at-eof" if pos == size else "read-within" if n < size - pos else \
                "read-to-eof-exact" if n == size - pos else "read-beyond-eof"
            return cls + suffix, {"ret": {r}, "sizes": {size}}
        if k == "f_seek":
            off, org = op[2], op[3]
            target = off if org in ("SET", "ABS") else pos + off if org == "CUR" else size + off
            if target < 0:
                raise Invalid("seek before the beginning of the file")
            cls = "seek-%s-" % org + ("within" if target < size else "to-end" if target == size else "beyond-end")
            h["pos"] = target
            if target > size:
                h["size"] = target
                c[h["rel"]] = target
            return cls + suffix, {"ret": None, "sizes": {h["size"]}}
        if k == "f_tell":
            return "tell" + suffix, {"ret": {pos}, "sizes": {size}}
        if k == "f_size":
            return "size" + suffix, {"ret": {size}, "sizes": {size}}
        if k == "f_move":
            new = op[2]
            mv = "move-on-root-mount" if d["mount"] == "/" else "move"
            if not new.startswith(d["mount"]):
                return "move-other-mount-refused" + suffix, {"ret": None, "sizes": {size}}
            ndisk, nrel = self.resolve(new)
            if ndisk != h["disk"]:
                raise Invalid("move target resolves to another disk")
            if nrel == h["rel"]:
                return mv + "-onto-itself" + suffix, {"ret": None, "sizes": {size}}
            if (ndisk, nrel) in self.open_rels():
                raise Invalid("move target is open")
            if nrel in c:
                raise Invalid("move target exists")
            del c[h["rel"]]
            c[nrel] = size
            h["rel"] = nrel
            h["moved"] = True
            h["full"] = new
            return mv + suffix, {"ret": None, "sizes": {size}}
        if k in ("f_unlink", "f_unlink_close"):
            del c[h["rel"]]
            if k == "f_unlink":
                h["unlinked"] = True
                return "unlink" + suffix, {"ret": {0}, "sizes": None}
            del self.h[fid]
            return "unlink-close" + suffix, {"ret": None, "sizes": None}
        if k == "f_close":
            del self.h[fid]
            return "close" + suffix, {"ret": None, "sizes": None}
        raise Invalid("unknown operation " + k)


# ------------------------------------------------------------------------------------------------ generator
SMALL = st.integers(0, 64)
BIG = st.sampled_from([100, 1000, 4096, 1 << 20, (1 << 33) + 5])


def _sizes(cap, *anchors):
    """a byte count: the anchors (boundaries of the current state: tail length, free space) and their neighbours first, then small values,
    then large ones (rarely on a small disk: a disk that fills up at once only exercises the "disk full" branch)"""
    near = sorted({max(0, a + d) for a in anchors for d in (0, -1, 1)})
    exact = sorted({max(0, a) for a in anchors})
    alts = [st.sampled_from(exact), st.sampled_from(near), st.sampled_from(near), SMALL, st.integers(0, max(1, min(cap, 1 << 20) // 4))]
    if cap > 4096:
        alts.append(BIG)
    return st.one_of(*alts)


@st.composite
def histories(draw, max_steps=40):
    ndisk = draw(st.integers(1, 2))
    mounts = draw(st.sampled_from([["/scratch", "/home"], ["/", "/scratch"], ["/scratch", "/"], ["/mnt/a", "/mnt/b"]]))[:ndisk]
    disks = []
    nfiles = 0
    for i in range(ndisk):
        cap = draw(st.one_of(st.integers(16, 300), st.none(), st.sampled_from([1000, 4096, 1 << 30])))
        content = None
        if draw(st.integers(0, 4)) > 0:
            content = {}
            budget = cap if cap is not None else 1 << 20
            for name in draw(st.lists(st.sampled_from(NAMES), unique=True, max_size=3 if ndisk == 2 else 4)):
                if nfiles >= 5:
                    break
                sz = draw(st.one_of(st.integers(0, min(budget, 200)), st.sampled_from([0, budget])))
                budget -= sz
                content["/" + name] = sz
                nfiles += 1
        disks.append({"name": "d%d" % i, "mount": mounts[i], "cap": cap, "content": content})
    m = Model(disks)
    ops = [["fs_state"]]
    nsteps = draw(st.integers(1, max_steps - 1))
    paths = set()             # full paths ever used (<= 5 files)
    for dk in disks:
        for rel in (dk["content"] or {}):
            paths.add(join(dk["mount"], rel[1:]))
    next_fid = 0
    for _ in range(nsteps):
        live = sorted(f for f, h in m.h.items() if not h["unlinked"])
        dead = sorted(f for f, h in m.h.items() if h["unlinked"])
        choices = []
        if len(m.h) < 3:
            choices += ["open"] * (4 if not live else 1)
        if live:
            choices += ["write"] * 5 + ["seek"] * 4 + ["read"] * 3 + ["tell", "size", "move", "unlink", "unlink_close", "close", "close"]
        if dead:
            choices += ["close_dead"] * 3
        choices += ["state"]
        k = draw(st.sampled_from(choices))
        api = {"api": "c"} if draw(st.integers(0, 3)) == 0 else {}
        if k == "state":
            op = ["fs_state"]
        elif k == "open":
            cands = []
            for dk in disks:
                for name in NAMES:
                    full = join(dk["mount"], name)
                    try:
                        disk, rel = m.resolve(full)
                    except Invalid:
                        continue
                    if (disk, rel) in m.open_rels():
                        continue
                    if full in paths or len(paths) < 5:
                        cands.append(full)
            if not cands:
                continue
            existing = [p for p in cands if m.resolve(p)[1] in m.disks[m.resolve(p)[0]]["content"]]
            full = draw(st.sampled_from(existing)) if existing and draw(st.integers(0, 2)) > 0 else draw(st.sampled_from(cands))
            paths.add(full)
            op = ["f_open", next_fid, full] + ([api] if api else [])
            next_fid += 1
        elif k == "close_dead":
            op = ["f_close", draw(st.sampled_from(dead))] + ([api] if api else [])
        else:
            fid = draw(st.sampled_from(live))
            h = m.h[fid]
            if h["moved"] and draw(st.integers(0, 3)) > 0:
                k = "close"          # what callers do after a move (the other operations on a moved handle stay a minority class)
            d = m.disks[h["disk"]]
            size, pos = h["size"], h["pos"]
            free = max(0, d["cap"] - m.used(h["disk"]))
            if k in ("write", "read") and pos == size and size > 0 and draw(st.integers(0, 2)) > 0:
                # most operations leave the position at the end of the file: go back inside first
                pre = ["f_seek", fid, draw(st.integers(0, size - 1)), "SET"]
                m.apply(pre)
                ops.append(pre)
                pos = h["pos"]
            if k == "write":
                n = draw(_sizes(d["cap"], size - pos, free, (size - pos) // 2))
                inside = draw(st.integers(0, 3)) == 0
                if inside:
                    op = ["f_write", fid, n, True]
                else:
                    op = ["f_write", fid, n, False] + ([api] if api else [])
            elif k == "read":
                op = ["f_read", fid, draw(_sizes(d["cap"], size - pos, (size - pos) // 2))] + ([api] if api else [])
            elif k == "seek":
                org = draw(st.sampled_from(["SET", "SET", "CUR", "END", "ABS"]))
                target = draw(st.one_of(st.integers(0, size), st.integers(0, size), st.sampled_from([0, size, size // 2]),
                                        st.integers(size, size + 40), st.just(size + free), st.just(size + free + 1)))
                off = target if org in ("SET", "ABS") else target - pos if org == "CUR" else target - size
                op = ["f_seek", fid, off, org] + ([api] if api and org != "ABS" else [])
            elif k in ("tell", "size"):
                op = ["f_" + k, fid] + ([api] if api else [])
            elif k == "move":
                other = [dk for dk in disks if dk["name"] != h["disk"]]
                if other and draw(st.integers(0, 5)) == 0 and not other[0]["mount"].startswith(d["mount"]) \
                        and not d["mount"].startswith(other[0]["mount"]):
                    new = join(other[0]["mount"], draw(st.sampled_from(NAMES)))
                else:
                    cands = []
                    for name in NAMES:
                        full = join(d["mount"], name)
                        disk, rel = m.resolve(full)
                        if disk != h["disk"] or rel in d["content"]:
                            continue
                        if full in paths or len(paths) < 5:
                            cands.append(full)
                    if not cands or draw(st.integers(0, 9)) == 0:
                        cands = [h["full"]]                  # onto itself
                    new = draw(st.sampled_from(cands))
                    paths.add(new)
                op = ["f_move", fid, new] + ([api] if api else [])
            elif k == "unlink":
                op = ["f_unlink", fid]
            elif k == "unlink_close":
                op = ["f_unlink_close", fid]
            else:
                op = ["f_close", fid] + ([api] if api else [])
        try:
            m.apply(op)
        except Invalid:
            continue
        ops.append(op)
    return {"disks": disks, "ops": ops}


# ------------------------------------------------------------------------------------------------ running a case
def scenario(case, content_paths):
    dl = []
    for d, path in zip(case["disks"], content_paths):
        props = {"mount": d["mount"]}
        if d.get("cap") is not None:
            props["size"] = "%dB" % d["cap"]
        if path is not None:
            props["content"] = path
        dl.append({"name": d["name"], "read_bw": 1e8, "write_bw": 4e7, "props": props})
    return {"plugins": ["file_system"], "platform": {"hosts": [{"name": "h0", "speed": 1e9, "disks": dl}]},
            "quiet": ["adv", "act", "actor"], "actors": [{"name": "a0", "host": "h0", "ops": case["ops"]}]}


def run(case, cpu=20, wall=240):
    """Runs the history.  The initial content of a disk is given to the plugin the documented way: a listing file named by the disk's
    "content" property (a path relative to the working directory: simgrid::xbt::path_ifsopen cannot open absolute names, see notes/C46.md)."""
    paths, tmp = [], []
    try:
        for d in case["disks"]:
            if d.get("content") is None:
                paths.append(None)
                continue
            txt = "".join("%s %d\n" % (p, s) for p, s in sorted(d["content"].items()))
            p = core.write_tmp(txt, suffix=".content")
            tmp.append(p)
            paths.append(os.path.relpath(p, os.getcwd()))
        log = s4u.Log(core.serve(DRIVER, scenario(case, paths), cpu=cpu, wall=wall))
    finally:
        for p in tmp:
            try:
                os.unlink(p)
            except OSError:
                pass
    if log.done and log.lines[-1].get("ext") != EXT_VERSION:
        raise core.Inconclusive("stale driver: built from extension header %r, expected %r" % (log.lines[-1].get("ext"), EXT_VERSION))
    return log


# ------------------------------------------------------------------------------------------------ oracle
def _sig(what, cls, keep_moved=True):
    """root-cause signature: what is wrong after which class of operation; operations through a handle whose file was moved are a class
    of their own (the handle keeps the old path), except for the accounting of `used`, which does not depend on the path"""
    base = cls.replace("-on-moved-handle", "")
    if keep_moved and cls.endswith("-on-moved-handle"):
        return "moved-handle:%s-wrong-after:%s" % (what, base)
    return "%s-wrong-after:%s" % (what, base)


def check(case, log, oc, labels, partial=False):
    """Replays the history through the model and compares every observation.  Accounting (`used`) is compared step by step as a
    DIFFERENCE (so that one accounting defect is reported once, with the class of the operation that introduced it, and the rest of the
    history is still checked); the absolute value is checked on the initial state.  A structural divergence (file size, position,
    listing) ends the comparison of the case."""
    try:
        m = Model(case["disks"])
    except Exception as e:               # malformed stored case
        oc.invalid = True
        oc.info = {"invalid": str(e)}
        return
    recs = log.ops()
    prev_used = None
    steps = 0
    for rec in recs:
        op = rec["op"]
        if partial and rec.get("n_ret") is None:
            # the operation that never returned: when the model (which followed the observations, e.g. a write refused because an
            # accounting defect reported earlier made the disk look full) says its precondition does not hold, the abort is the plugin's
            # documented reaction (seek before the beginning of the file), not a finding
            try:
                m.apply(op, None)
            except Invalid as e:
                oc.info["crash_explained"] = str(e)
            return steps
        if "exc" in rec or rec.get("n_ret") is None:
            oc.bad("operation-failed:" + op[0], "operation %r did not return normally: %r" % (op, rec.get("exc")))
            return
        r = rec["r"]
        if r == "no-handle":
            oc.invalid = True
            oc.info = {"invalid": "handle not open at %r" % op}
            return
        disks = r["disks"]
        hinfo = r.get("f")
        obs = {"ret": r.get("ret"), "size": hinfo["size"] if hinfo else None,
               "used_before": prev_used.get(m.h[op[1]]["disk"]) if (prev_used and len(op) > 1 and op[1] in m.h) else None}
        before = {d: m.used(d) for d in m.disks}
        try:
            cls, exp = m.apply(op, obs)
        except Invalid as e:
            oc.invalid = True
            oc.info = {"invalid": "%s at %r" % (e, op)}
            return
        labels.add(cls)
        steps += 1
        where = "step %d %r (%s)" % (rec["i"], op, cls)
        # -- returned value
        if exp.get("ret") is not None and r.get("ret") not in exp["ret"]:
            oc.bad(_sig("ret", cls), "%s returned %r, expected %s" % (where, r.get("ret"), sorted(exp["ret"])))
            return
        if exp.get("ret") is None and "ret_max" in exp and not (isinstance(r.get("ret"), int) and 0 <= r["ret"] <= exp["ret_max"]):
            oc.bad(_sig("ret", cls), "%s returned %r, expected a value in [0, %d]" % (where, r.get("ret"), exp["ret_max"]))
            return
        # -- the handle
        fid = op[1] if len(op) > 1 else None
        if fid in m.h and not m.h[fid]["unlinked"] and op[0] != "fs_state":
            h = m.h[fid]
            if hinfo is None:
                oc.bad("handle-lost-after:" + cls, where + ": no handle information")
                return
            if hinfo["size"] != h["size"]:
                oc.bad(_sig("file-size", cls), "%s: File::size() = %d, expected %s" % (where, hinfo["size"], sorted(exp["sizes"])))
                return
            if hinfo["pos"] != h["pos"]:
                oc.bad(_sig("position", cls), "%s: File::tell() = %d, expected %d" % (where, hinfo["pos"], h["pos"]))
                return
        # -- the disks: listing, capacity, used (difference), free
        for dn, d in m.disks.items():
            od = disks.get(dn)
            if od is None:
                oc.bad("disk-missing", where + ": disk %s not reported" % dn)
                return
            if od["content"] != d["content"]:
                oc.bad(_sig("content", cls), "%s: listing of %s = %r, expected %r" % (where, dn, od["content"], d["content"]))
                return
            if od["size"] != d["cap"] or od["mount"] != d["mount"]:
                oc.bad("disk-attributes-wrong", "%s: disk %s size %r mount %r, expected %r %r" % (where, dn, od["size"], od["mount"], d["cap"], d["mount"]))
                return
            if od["free"] != (od["size"] - od["used"]) % M64:
                oc.bad(_sig("free-size", cls, False), "%s: disk %s free = %d but size - used = %d - %d" % (where, dn, od["free"], od["size"], od["used"]))
            if prev_used is None:
                if od["used"] != m.used(dn):
                    oc.bad("used-size-wrong-initially", "%s: disk %s used = %d, its files total %d" % (where, dn, od["used"], m.used(dn)))
            else:
                delta_obs = signed(od["used"] - prev_used[dn])
                delta_exp = m.used(dn) - before[dn]
                if delta_obs != delta_exp:
                    oc.bad(_sig("used-size", cls, False),
                           "%s: used size of %s went %d -> %d (%+d) while the total size of its files went %d -> %d (%+d)"
                           % (where, dn, signed(prev_used[dn]), signed(od["used"]), delta_obs, before[dn], m.used(dn), delta_exp))
        prev_used = {dn: disks[dn]["used"] for dn in m.disks}
    if len(recs) != len(case["ops"]) and not partial:
        oc.bad("history-incomplete", "%d of %d operations were executed" % (len(recs), len(case["ops"])))
    return steps
