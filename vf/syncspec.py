"""Sequential specifications of the S4U synchronisation objects, replayed over the kernel-ordered observation log.

Used by C04 (mutex), C05 (semaphore), C06 (condition variable), C07 (barrier).  See DESIGN.md 3.3 and Appendix B.

The log of a *sequential* run (contexts/nthreads:1) lists `req` records in the order the kernel handled the requests, so the
specification is a plain state machine fed with that order.  Every `ret` record is compared with what the specification says
the answer must be and WHEN (the date of the enabling event: the unlock that hands the mutex over, the release, the notify,
the last arrival at the barrier, or t_call + timeout).

Events that the kernel produces by itself when the clock reaches a date (timeouts) have no request record: they are applied
before the first record carrying a later date.  Where a timeout's deadline coincides EXACTLY with the date of requests the
statements do not fix the order: the specification looks at what the waiter observed (timeout or not) and takes that branch,
the rest of the history must then be consistent with it.
"""
from . import s4u

T = s4u.T


class Desync(Exception):
    """the generated program is outside the domain (e.g. unlock by a non-owner): a generator bug, never a verdict"""


class Spec:
    def __init__(self, objects, oc, labels):
        self.oc = oc
        self.labels = labels
        self.mutex = [dict(owner=None, depth=0, q=[], rec=bool(m.get("recursive"))) for m in objects.get("mutex", [])]
        self.sem = [dict(value=int(c), q=[], granted=0, released=0, cap0=int(c)) for c in objects.get("sem", [])]
        self.cond = [dict(mutex=int(m), q=[]) for m in objects.get("cond", [])]
        self.bar = [dict(n=int(n), q=[], groups=0) for n in objects.get("barrier", [])]
        # per actor: the expectation of its outstanding operation
        self.pending = {}       # actor -> dict(kind, granted(bool), t(grant date), result, obj, deadline)
        self.timers = []        # (deadline, seq, actor)
        self.seq = 0
        self.actual = {}        # (actor, op index) -> ret record (peeked for ties)
        self.blocked_on_mutex_after_cv = 0

    # ------------------------------------------------------------------ helpers
    def bad(self, sig, msg):
        self.oc.bad(sig, msg)

    def _grant(self, a, t, result=None):
        p = self.pending[a]
        p["granted"] = True
        p["t"] = t
        if result is not None or "result" not in p:
            p["result"] = result

    def _mutex_lock(self, a, m, t):
        """a requests mutex m at date t (as a lock op, or as the re-lock of a condvar wait).  Returns True if granted now."""
        mx = self.mutex[m]
        if mx["owner"] is None:
            mx["owner"] = a
            mx["depth"] = 1
            return True
        if mx["rec"] and mx["owner"] == a:
            mx["depth"] += 1
            return True
        mx["q"].append(a)
        return False

    def _mutex_unlock(self, a, m, t, where):
        mx = self.mutex[m]
        if mx["owner"] != a:
            raise Desync("%s: %s unlocks mutex %d owned by %s" % (where, a, m, mx["owner"]))
        mx["depth"] -= 1
        if mx["depth"] > 0:
            return
        if mx["q"]:
            b = mx["q"].pop(0)
            mx["owner"] = b
            mx["depth"] = 1
            self.labels.add("mutex-handoff")
            if len(mx["q"]) >= 1:
                self.labels.add("mutex-handoff-with-queue")
            # b is blocked either in a lock op or in the re-lock phase of a condvar wait
            p = self.pending[b]
            p["granted"] = True
            p["t"] = t
        else:
            mx["owner"] = None

    # ------------------------------------------------------------------ timers
    def fire_timers(self, t, who=None):
        """apply the timeouts whose deadline is before t, and those at exactly t that the waiter observed as a timeout"""
        while True:
            ripe = [x for x in self.timers if x[0] < t or (x[0] == t and self._observed_timeout(x[2]))]
            if not ripe:
                return
            # simultaneous timeouts: no statement orders them, the order in which the waiters actually returned is taken
            ripe.sort(key=lambda x: (x[0], self._ret_rank(x[2]), x[1]))
            d, _, a = ripe[0]
            self.timers.remove(ripe[0])
            p = self.pending.get(a)
            if p is None or p.get("deadline") != d or p.get("phase") == "relock" or p["granted"]:
                continue
            if d == t and who != a:
                self.labels.add("timeout-tie")      # another actor acts at the very date of this deadline
            self._timeout(a, p, d)

    def _ret_rank(self, a):
        p = self.pending.get(a)
        rec = self.actual.get((a, p["i"])) if p is not None else None
        return rec["n_ret"] if rec is not None else float("inf")

    def _observed_timeout(self, a):
        p = self.pending.get(a)
        if p is None:
            return True
        rec = self.actual.get((a, p["i"]))
        return rec is not None and rec.get("r") is True

    def _timeout(self, a, p, d):
        if p["kind"] == "acquire":
            sm = self.sem[p["obj"]]
            sm["q"] = [x for x in sm["q"] if x != a]
            if sm["q"]:
                self.labels.add("sem-timeout-with-others-queued")
            self.labels.add("sem-timeout")
            p["granted"] = True
            p["t"] = d
            p["result"] = True
        elif p["kind"] == "cv_wait":
            cv = self.cond[p["obj"]]
            cv["q"] = [x for x in cv["q"] if x != a]
            self.labels.add("cv-timeout")
            p["result"] = True
            p["phase"] = "relock"
            if self._mutex_lock(a, cv["mutex"], d):
                p["granted"] = True
                p["t"] = d
            else:
                self.labels.add("cv-relock-queues")

    # ------------------------------------------------------------------ requests
    def request(self, rec):
        a, op, t = rec["a"], rec["op"], rec["t_req"]
        name = op[0]
        where = "%s op #%d %s at %r" % (a, rec["i"], op, t)
        if name in ("lock",):
            m = op[1]
            self.pending[a] = dict(kind="lock", obj=m, granted=False, t=None, result=None, i=rec["i"])
            if self.mutex[m]["rec"] and self.mutex[m]["owner"] == a:
                self.labels.add("recursive-relock")
            if self._mutex_lock(a, m, t):
                self._grant(a, t)
            else:
                self.labels.add("mutex-blocks")
                if self.mutex[m]["owner"] == a:
                    self.labels.add("self-deadlock")
        elif name == "try_lock":
            m = op[1]
            mx = self.mutex[m]
            if mx["owner"] is None:
                mx["owner"] = a
                mx["depth"] = 1
                ok = True
            elif mx["rec"] and mx["owner"] == a:
                mx["depth"] += 1
                ok = True
                self.labels.add("recursive-trylock-depth>=2")
            else:
                ok = False
                self.labels.add("trylock-fails")
            if mx["rec"] and ok and mx["depth"] == 1:
                self.labels.add("recursive-trylock-first")
            self.pending[a] = dict(kind="try_lock", obj=m, granted=True, t=t, result=ok, i=rec["i"])
            rec["_try"] = ok
        elif name == "unlock":
            self._mutex_unlock(a, op[1], t, where)
            self.pending[a] = dict(kind="unlock", granted=True, t=t, result=None, i=rec["i"])
        elif name == "unlock_if":
            # unlocks iff the actor's j-th try_lock succeeded (as observed by the actor = as the specification said, checked)
            tr = rec["_trys"]
            j = op[2]
            if j < len(tr) and tr[j]:
                self._mutex_unlock(a, op[1], t, where)
                self.pending[a] = dict(kind="unlock", granted=True, t=t, result=None, i=rec["i"])
            else:
                self.pending[a] = dict(kind="unlock", granted=True, t=t, result="skipped", i=rec["i"])
        elif name == "owner":
            self.pending[a] = dict(kind="owner", granted=True, t=t, result=self.mutex[op[1]]["owner"] or "", i=rec["i"])
        elif name in ("acquire", "acquire_timeout"):
            s = op[1]
            sm = self.sem[s]
            tmo = op[2] if name == "acquire_timeout" else -1.0
            p = dict(kind="acquire", obj=s, granted=False, t=None, result=(False if name == "acquire_timeout" else None),
                     i=rec["i"], timed=name == "acquire_timeout")
            self.pending[a] = p
            if sm["value"] > 0:
                sm["value"] -= 1
                sm["granted"] += 1
                p["granted"] = True
                p["t"] = t
            else:
                sm["q"].append(a)
                self.labels.add("sem-blocks")
                if tmo > 0:
                    p["deadline"] = t + tmo
                    self.seq += 1
                    self.timers.append((t + tmo, self.seq, a))
                elif name == "acquire_timeout" and tmo == 0:
                    # undocumented special case (the code tests `timeout > 0`): only token conservation is asserted
                    p["t0"] = True
                    self.labels.add("sem-timeout-zero-blocking")
        elif name == "release":
            sm = self.sem[op[1]]
            sm["released"] += 1
            if sm["q"]:
                b = sm["q"].pop(0)
                sm["granted"] += 1
                self.labels.add("sem-release-hits-queue")
                p = self.pending[b]
                p["granted"] = True
                p["t"] = t
                if p.get("deadline") is not None and p["deadline"] == t:
                    self.labels.add("release-at-deadline")
            else:
                sm["value"] += 1
            self.pending[a] = dict(kind="release", granted=True, t=t, result=None, i=rec["i"])
        elif name == "capacity":
            sm = self.sem[op[1]]
            self.pending[a] = dict(kind="capacity", granted=True, t=t, result=(sm["value"] if not sm["q"] else None), i=rec["i"],
                                   unasserted=bool(sm["q"]))
        elif name == "would_block":
            sm = self.sem[op[1]]
            self.pending[a] = dict(kind="would_block", granted=True, t=t, result=sm["value"] <= 0, i=rec["i"])
        elif name in ("cv_wait", "cv_wait_for", "cv_wait_until"):
            c = op[1]
            cv = self.cond[c]
            if self.mutex[cv["mutex"]]["owner"] != a:
                raise Desync("%s: condvar wait without owning its mutex" % where)
            if self.mutex[cv["mutex"]]["depth"] != 1:
                raise Desync("%s: condvar wait with a mutex held recursively" % where)
            timed = name != "cv_wait"
            p = dict(kind="cv_wait", obj=c, granted=False, t=None, result=(False if timed else None), i=rec["i"], phase="wait",
                     timed=timed)
            self.pending[a] = p
            self._mutex_unlock(a, cv["mutex"], t, where)
            cv["q"].append(a)
            if timed:
                d = t + op[2] if name == "cv_wait_for" else op[2]
                dur = op[2] if name == "cv_wait_for" else op[2] - t
                if dur > 0:
                    p["deadline"] = d
                    self.seq += 1
                    self.timers.append((d, self.seq, a))
                else:
                    p["t0"] = True     # zero / negative duration: undocumented special case, only safety is asserted
                    self.labels.add("cv-timeout-nonpositive")
        elif name in ("notify_one", "notify_all"):
            cv = self.cond[op[1]]
            woken = []
            if name == "notify_one":
                if cv["q"]:
                    woken.append(cv["q"].pop(0))
                    if cv["q"]:
                        self.labels.add("notify_one-with>=2-waiters")
                else:
                    self.labels.add("notify-lost")
            else:
                woken, cv["q"] = cv["q"], []
                if len(woken) >= 2:
                    self.labels.add("notify_all-with>=2-waiters")
                if not woken:
                    self.labels.add("notify-lost")
            for b in woken:
                p = self.pending[b]
                p["phase"] = "relock"
                if p.get("deadline") is not None and p["deadline"] == t:
                    self.labels.add("notify-at-deadline")
                if self._mutex_lock(b, cv["mutex"], t):
                    p["granted"] = True
                    p["t"] = t
                else:
                    self.labels.add("cv-relock-queues")
            self.pending[a] = dict(kind="notify", granted=True, t=t, result=None, i=rec["i"])
        elif name == "barrier":
            br = self.bar[op[1]]
            self.pending[a] = dict(kind="barrier", obj=op[1], granted=False, t=None, result=None, i=rec["i"], anyresult=True)
            br["q"].append(a)
            if len(br["q"]) == br["n"]:
                br["groups"] += 1
                if br["groups"] >= 2:
                    self.labels.add("barrier->=2-groups")
                for b in br["q"]:
                    self.pending[b]["granted"] = True
                    self.pending[b]["t"] = t
                    self.pending[b]["group"] = br["groups"]
                br["q"] = []
            else:
                self.labels.add("barrier-blocks")
        else:
            self.pending.pop(a, None)     # not a synchronisation operation

    # ------------------------------------------------------------------ responses
    def response(self, rec):
        a = rec["a"]
        p = self.pending.get(a)
        if p is None or p["i"] != rec["i"]:
            return
        where = "%s op #%d %s called at %r returned at %r" % (a, rec["i"], rec["op"], rec["t_req"], rec["t_ret"])
        kind = p["kind"]
        if "exc" in rec:
            self.bad("sync-op-raised", "%s: raised %s" % (where, rec["exc"]))
            return
        if not p["granted"]:
            self.bad("%s-returned-without-grant" % kind, "%s: returned although the specification has not granted it "
                     "(it is still waiting: %s)" % (where, self.describe(p)))
            # resynchronise as well as possible: nothing sensible to do, stop here
            raise StopIteration
        if p.get("t0"):
            return      # special-cased parameter: only safety (exclusion / conservation) was asserted through the model state
        if rec["t_ret"] != p["t"]:
            self.bad("%s-wrong-date" % kind, "%s: the specification answers it at %r (%s)" % (where, p["t"], self.describe(p)))
        if p.get("anyresult") or p.get("unasserted"):
            return
        if rec.get("r") != p["result"]:
            self.bad("%s-wrong-result" % kind, "%s: result %r, the specification says %r" % (where, rec.get("r"), p["result"]))

    def describe(self, p):
        k = p["kind"]
        if k in ("lock", "try_lock"):
            m = self.mutex[p["obj"]]
            return "mutex %d owner=%s depth=%d queue=%s" % (p["obj"], m["owner"], m["depth"], m["q"])
        if k == "acquire":
            s = self.sem[p["obj"]]
            return "semaphore %d value=%d queue=%s deadline=%r" % (p["obj"], s["value"], s["q"], p.get("deadline"))
        if k == "cv_wait":
            c = self.cond[p["obj"]]
            m = self.mutex[c["mutex"]]
            return "condvar %d phase=%s queue=%s deadline=%r; its mutex owner=%s queue=%s" % (
                p["obj"], p.get("phase"), c["q"], p.get("deadline"), m["owner"], m["q"])
        if k == "barrier":
            b = self.bar[p["obj"]]
            return "barrier %d expects %d, waiting=%s" % (p["obj"], b["n"], b["q"])
        return k


def replay(scenario, log, oc, labels):
    """Drive the specification with the log.  Returns the Spec (for extra checks)."""
    spec = Spec(scenario.get("objects", {}), oc, labels)
    ops = log.ops()
    byn = {}
    trys = {}
    for rec in ops:
        byn[rec["n_req"]] = ("req", rec)
        if rec["n_ret"] is not None:
            byn[rec["n_ret"]] = ("ret", rec)
            spec.actual[(rec["a"], rec["i"])] = rec
    try:
        for n in sorted(byn):
            what, rec = byn[n]
            t = rec["t_req"] if what == "req" else rec["t_ret"]
            spec.fire_timers(t, rec["a"])
            if what == "req":
                rec["_trys"] = trys.setdefault(rec["a"], [])
                spec.request(rec)
            else:
                spec.response(rec)
                if rec["op"][0] == "try_lock":
                    # what the actor observed drives its later unlock_if; a wrong observation was reported above
                    trys.setdefault(rec["a"], []).append(rec.get("r") is True)
        # the end of the run: every timer that is still pending has a deadline after the last event, or the run deadlocked
        end = [T(l["t"]) for l in log.lines if l.get("k") in ("end", "done")]
        if end:
            spec.fire_timers(float("inf"))
        for rec in ops:
            if rec["n_ret"] is None:
                p = spec.pending.get(rec["a"])
                if p is not None and p["i"] == rec["i"] and p["granted"] and not p.get("t0"):
                    spec.bad("%s-never-returned" % p["kind"], "%s op #%d %s called at %r never returned although the specification "
                             "answers it at %r (%s)" % (rec["a"], rec["i"], rec["op"], rec["t_req"], p["t"], spec.describe(p)))
    except StopIteration:
        pass
    return spec
