"""Reference interleaving semantics of the synchronisation subset of S4U (DESIGN.md 3.4, Appendix B).

explore(scenario, mode) enumerates ALL terminal outcomes of a scenario of the S4U interpreter (notes/S4U_INTERP.md) made of

    lock try_lock unlock unlock_if   acquire release   cv_wait cv_wait_for notify_one notify_all   barrier
    put get (blocking, no filter)    mc_random mc_assert   sleep/yield (no effect on the outcome)

by a memoised depth-first search over (program counters, object states, observations).  Every operation is split into the
steps that the kernel handles atomically:

  * a *request* step, always enabled: it enqueues the actor (FIFO) or grants at once;
  * for blocking operations a *wait* step, enabled iff the request was granted (mutex owned, token granted, group complete,
    communication matched, notified); a condition-variable wait with a positive timeout is also enabled when not notified
    and then yields "timeout" (this is how the model checker abstracts time);
  * mode "mc": a notified / timed-out condition-variable waiter re-locks its mutex in a step of its own (the model checker
    splits Condition::wait into CONDVAR_ASYNC_LOCK, CONDVAR_WAIT and MUTEX_WAIT);
    mode "real": the re-lock request is part of the notify / of the timeout itself (one simcall outside the model checker).

A terminal outcome is  (observations of every actor, blocked actors with the index of the operation they wait in,
assertion failed?).  `npaths` counts the maximal paths of the (acyclic) state graph: the number of traces that an
exploration without reduction has to run.
"""
import json
import sys


class TooBig(Exception):
    pass


def _freeze(x):
    return json.dumps(x, sort_keys=True, separators=(",", ":"))


class _St:
    __slots__ = ("pc", "ph", "obs", "mown", "mdep", "mq", "sval", "sq", "sgr", "cq", "cgr", "bq", "bgr", "sendq", "recvq",
                 "matched", "failed", "cvres", "nput", "counters")

    def copy(self):
        n = _St()
        n.pc = list(self.pc)
        n.ph = list(self.ph)
        n.obs = list(self.obs)          # tuples, replaced not mutated
        n.mown = list(self.mown)
        n.mdep = list(self.mdep)
        n.mq = list(self.mq)            # tuples
        n.sval = list(self.sval)
        n.sq = list(self.sq)            # tuples
        n.sgr = self.sgr                # frozenset of actors whose semaphore request is granted
        n.cq = list(self.cq)            # tuples
        n.cgr = self.cgr                # frozenset of notified actors
        n.bq = list(self.bq)            # tuples
        n.bgr = self.bgr                # frozenset of actors released by a barrier
        n.sendq = list(self.sendq)      # per mailbox: tuple of (actor, payload)
        n.recvq = list(self.recvq)      # per mailbox: tuple of actors
        n.matched = dict(self.matched)  # actor -> payload (for a receiver) or True (for a sender)
        n.failed = self.failed
        n.cvres = dict(self.cvres)      # actor -> result of its condition-variable wait (None / False / True)
        n.nput = list(self.nput)
        n.counters = self.counters      # tuple of (counter, value), replaced not mutated
        return n

    def key(self):
        return (tuple(self.pc), tuple(self.ph), tuple(self.obs), tuple(self.mown), tuple(self.mdep), tuple(self.mq),
                tuple(self.sval), tuple(self.sq), self.sgr, tuple(self.cq), self.cgr, tuple(self.bq), self.bgr,
                tuple(self.sendq), tuple(self.recvq), tuple(sorted(self.matched.items(), key=repr)), self.failed,
                tuple(sorted(self.cvres.items(), key=repr)), tuple(self.nput), self.counters)


class Explorer:
    def __init__(self, scenario, mode="mc", max_states=300000):
        self.mode = mode
        self.max_states = max_states
        ob = scenario.get("objects", {})
        self.rec = [bool(m.get("recursive")) for m in ob.get("mutex", [])]
        self.sem0 = [int(c) for c in ob.get("sem", [])]
        self.cond_mutex = [int(m) for m in ob.get("cond", [])]
        self.bar_n = [int(n) for n in ob.get("barrier", [])]
        self.nmb = int(ob.get("mailbox", 0))
        self.names = [a["name"] for a in scenario["actors"]]
        self.progs = [a["ops"] for a in scenario["actors"]]
        self.n = len(self.names)
        self.memo = {}
        self.outcomes = set()
        self.deadlocks = set()
        self.assert_fail = False
        self.nstates = 0

    # ---------------------------------------------------------------- primitive effects
    def _mutex_request(self, s, a, m):
        if s.mown[m] is None:
            s.mown[m] = a
            s.mdep[m] = 1
        elif self.rec[m] and s.mown[m] == a:
            s.mdep[m] += 1
        else:
            s.mq[m] = s.mq[m] + (a,)

    def _mutex_unlock(self, s, a, m):
        assert s.mown[m] == a, "unlock by a non-owner: generator bug"
        s.mdep[m] -= 1
        if s.mdep[m] > 0:
            return
        if s.mq[m]:
            s.mown[m] = s.mq[m][0]
            s.mq[m] = s.mq[m][1:]
            s.mdep[m] = 1
        else:
            s.mown[m] = None

    def _cv_mutex(self, op):
        """the mutex of this wait: explicit (["cv_wait", c, m] / ["cv_wait_for", c, t, m]) or the one of the scenario"""
        if op[0] == "cv_wait" and len(op) > 2:
            return op[2]
        if op[0] == "cv_wait_for" and len(op) > 3:
            return op[3]
        return self.cond_mutex[op[1]]

    def _push(self, s, a, val):
        s.obs[a] = s.obs[a] + (_freeze(val),)

    def _advance(self, s, a):
        s.pc[a] += 1
        s.ph[a] = 0
        self._ticks(s, a)

    def _ticks(self, s, a):
        """a `tick` is plain code without simcall: it runs in the same atomic step as the completion of the previous operation"""
        while s.pc[a] < len(self.progs[a]) and self.progs[a][s.pc[a]][0] == "tick":
            k = self.progs[a][s.pc[a]][1]
            cnt = dict(s.counters)
            v = cnt.get(k, 0)
            cnt[k] = v + 1
            s.counters = tuple(sorted(cnt.items()))
            self._push(s, a, v)
            s.pc[a] += 1

    def _trys(self, s, a):
        res = []
        for i, op in enumerate(self.progs[a][:s.pc[a]]):
            if op[0] == "try_lock":
                res.append(json.loads(s.obs[a][i]) is True)
        return res

    # ---------------------------------------------------------------- enabledness / successors of one actor
    def steps(self, s, a):
        """list of successor states obtained by letting actor a take its next step (empty: a is blocked or done)"""
        if s.pc[a] >= len(self.progs[a]):
            return []
        op = self.progs[a][s.pc[a]]
        name = op[0]
        ph = s.ph[a]
        out = []
        if name in ("sleep", "yield", "sleep_until"):
            n = s.copy()
            self._push(n, a, None)
            self._advance(n, a)
            return [n]
        if name == "lock":
            m = op[1]
            if ph == 0:
                n = s.copy()
                self._mutex_request(n, a, m)
                n.ph[a] = 1
                return [n]
            if s.mown[m] == a and a not in s.mq[m]:
                n = s.copy()
                self._push(n, a, None)
                self._advance(n, a)
                return [n]
            return []
        if name == "try_lock":
            m = op[1]
            n = s.copy()
            if s.mown[m] is None:
                n.mown[m] = a
                n.mdep[m] = 1
                ok = True
            elif self.rec[m] and s.mown[m] == a:
                n.mdep[m] += 1
                ok = True
            else:
                ok = False
            self._push(n, a, ok)
            self._advance(n, a)
            return [n]
        if name == "unlock":
            n = s.copy()
            self._mutex_unlock(n, a, op[1])
            self._push(n, a, None)
            self._advance(n, a)
            return [n]
        if name == "unlock_if":
            n = s.copy()
            tr = self._trys(s, a)
            if op[2] < len(tr) and tr[op[2]]:
                self._mutex_unlock(n, a, op[1])
                self._push(n, a, None)
            else:
                self._push(n, a, "skipped")     # no simcall at all: still a separate step here, harmless (it touches nothing)
            self._advance(n, a)
            return [n]
        if name == "acquire":
            sm = op[1]
            if ph == 0:
                n = s.copy()
                if s.sval[sm] > 0:
                    n.sval[sm] -= 1
                    n.sgr = s.sgr | {a}
                else:
                    n.sq[sm] = s.sq[sm] + (a,)
                n.ph[a] = 1
                return [n]
            if a in s.sgr:
                n = s.copy()
                n.sgr = s.sgr - {a}
                self._push(n, a, None)
                self._advance(n, a)
                return [n]
            return []
        if name == "release":
            sm = op[1]
            n = s.copy()
            if s.sq[sm]:
                b = s.sq[sm][0]
                n.sq[sm] = s.sq[sm][1:]
                n.sgr = s.sgr | {b}
            else:
                n.sval[sm] += 1
            self._push(n, a, None)
            self._advance(n, a)
            return [n]
        if name in ("cv_wait", "cv_wait_for"):
            c = op[1]
            m = self._cv_mutex(op)
            timed = name == "cv_wait_for" and op[2] > 0
            if ph == 0:
                n = s.copy()
                self._mutex_unlock(n, a, m)
                n.cq[c] = s.cq[c] + (a,)
                n.ph[a] = 1
                return [n]
            if ph == 1:
                res = []
                if self.mode == "mc":
                    if a in s.cgr:
                        n = s.copy()
                        n.cgr = s.cgr - {a}
                        n.cvres[a] = False if name == "cv_wait_for" else None
                        self._mutex_request(n, a, m)
                        n.ph[a] = 2
                        res.append(n)
                    elif timed:
                        n = s.copy()
                        n.cq[c] = tuple(x for x in s.cq[c] if x != a)
                        n.cvres[a] = True
                        self._mutex_request(n, a, m)
                        n.ph[a] = 2
                        res.append(n)
                    return res
                # real mode: the notify already queued us on the mutex (phase 2 set by the notifier); a timeout does it here
                if timed and a in s.cq[c]:
                    n = s.copy()
                    n.cq[c] = tuple(x for x in s.cq[c] if x != a)
                    n.cvres[a] = True
                    self._mutex_request(n, a, m)
                    n.ph[a] = 2
                    res.append(n)
                return res
            # phase 2: waiting for the mutex
            if s.mown[m] == a and a not in s.mq[m]:
                n = s.copy()
                self._push(n, a, n.cvres.pop(a, None))
                self._advance(n, a)
                return [n]
            return []
        if name in ("notify_one", "notify_all"):
            c = op[1]
            n = s.copy()
            woken = s.cq[c][:1] if name == "notify_one" else s.cq[c]
            n.cq[c] = s.cq[c][len(woken):]
            for b in woken:
                if self.mode == "mc":
                    n.cgr = n.cgr | {b}
                else:
                    bop = self.progs[b][s.pc[b]]
                    n.cvres[b] = False if bop[0] == "cv_wait_for" else None
                    self._mutex_request(n, b, self._cv_mutex(bop))
                    n.ph[b] = 2
            self._push(n, a, None)
            self._advance(n, a)
            return [n]
        if name == "barrier":
            b = op[1]
            if ph == 0:
                n = s.copy()
                q = s.bq[b] + (a,)
                if len(q) == self.bar_n[b]:
                    n.bgr = s.bgr | set(q)
                    n.bq[b] = ()
                else:
                    n.bq[b] = q
                n.ph[a] = 1
                return [n]
            if a in s.bgr:
                n = s.copy()
                n.bgr = s.bgr - {a}
                self._push(n, a, "*")      # the return value is not part of the outcome (statement silent)
                self._advance(n, a)
                return [n]
            return []
        if name == "put":
            mb = op[1]
            if ph == 0:
                n = s.copy()
                payload = {"from": self.names[a], "seq": s.nput[a]}
                n.nput[a] += 1
                if s.recvq[mb]:
                    r = s.recvq[mb][0]
                    n.recvq[mb] = s.recvq[mb][1:]
                    n.matched[r] = _freeze(payload)
                    n.matched[a] = True
                else:
                    n.sendq[mb] = s.sendq[mb] + ((a, _freeze(payload)),)
                n.ph[a] = 1
                return [n]
            if a in s.matched:
                n = s.copy()
                del n.matched[a]
                self._push(n, a, {"from": self.names[a], "seq": s.nput[a] - 1})
                self._advance(n, a)
                return [n]
            return []
        if name == "get":
            mb = op[1]
            if ph == 0:
                n = s.copy()
                if s.sendq[mb]:
                    snd, payload = s.sendq[mb][0]
                    n.sendq[mb] = s.sendq[mb][1:]
                    n.matched[a] = payload
                    n.matched[snd] = True
                else:
                    n.recvq[mb] = s.recvq[mb] + (a,)
                n.ph[a] = 1
                return [n]
            if a in s.matched:
                n = s.copy()
                payload = json.loads(n.matched.pop(a))
                self._push(n, a, payload)
                self._advance(n, a)
                return [n]
            return []
        if name == "mc_random":
            for v in range(op[1], op[2] + 1):
                n = s.copy()
                self._push(n, a, v)
                self._advance(n, a)
                out.append(n)
            return out
        if name == "mc_assert":
            n = s.copy()
            i = op[1]
            if i < len(s.obs[a]) and json.loads(s.obs[a][i]) != op[2]:
                n.failed = True
            self._push(n, a, None)
            self._advance(n, a)
            return [n]
        raise ValueError("operation %s is outside the reference semantics" % name)

    # ---------------------------------------------------------------- search
    def initial(self):
        s = _St()
        s.pc = [0] * self.n
        s.ph = [0] * self.n
        s.obs = [()] * self.n
        s.mown = [None] * len(self.rec)
        s.mdep = [0] * len(self.rec)
        s.mq = [()] * len(self.rec)
        s.sval = list(self.sem0)
        s.sq = [()] * len(self.sem0)
        s.sgr = frozenset()
        s.cq = [()] * len(self.cond_mutex)
        s.cgr = frozenset()
        s.bq = [()] * len(self.bar_n)
        s.bgr = frozenset()
        s.sendq = [()] * self.nmb
        s.recvq = [()] * self.nmb
        s.matched = {}
        s.failed = False
        s.cvres = {}
        s.nput = [0] * self.n
        s.counters = ()
        for a in range(self.n):     # leading ticks run when the actors start, in actor order
            self._ticks(s, a)
        return s

    def terminal(self, s):
        obs = {self.names[a]: [json.loads(x) for x in s.obs[a]] for a in range(self.n)}
        blocked = {self.names[a]: s.pc[a] for a in range(self.n) if s.pc[a] < len(self.progs[a])}
        return _freeze({"obs": obs, "blocked": blocked, "failed": s.failed})

    def run(self):
        """iterative DFS with memoisation; returns self"""
        init = self.initial()
        stack = [(init, init.key(), None, 0)]
        memo = self.memo        # key -> npaths (None while on the stack)
        succ_cache = {}
        while stack:
            s, k, succs, idx = stack[-1]
            if succs is None:
                if k in memo and memo[k] is not None:
                    stack.pop()
                    continue
                self.nstates += 1
                if self.nstates > self.max_states:
                    raise TooBig()
                memo[k] = None
                succs = []
                if s.failed:
                    pass        # an assertion failure ends the execution
                else:
                    for a in range(self.n):
                        succs.extend(self.steps(s, a))
                succs = [(x, x.key()) for x in succs]
                succ_cache[k] = [kk for _, kk in succs]
                stack[-1] = (s, k, succs, 0)
                if not succs:
                    t = self.terminal(s)
                    if s.failed:
                        self.assert_fail = True
                    self.outcomes.add(t)
                    if (not s.failed) and any(s.pc[a] < len(self.progs[a]) for a in range(self.n)):
                        self.deadlocks.add(t)
                    memo[k] = 1
                    stack.pop()
                continue
            if idx < len(succs):
                stack[-1] = (s, k, succs, idx + 1)
                x, kx = succs[idx]
                if kx not in memo:
                    stack.append((x, kx, None, 0))
                continue
            memo[k] = sum(memo[kk] for kk in succ_cache[k])
            stack.pop()
        self.npaths = memo[init.key()]
        return self

    # ---------------------------------------------------------------- views
    def complete_outcomes(self):
        """observation maps of the executions where every actor finished (what the application prints as OUTCOME)"""
        res = set()
        for t in self.outcomes:
            d = json.loads(t)
            if not d["blocked"] and not d["failed"]:
                res.add(_freeze(d["obs"]))
        return res


def explore(scenario, mode="mc", max_states=300000):
    return Explorer(scenario, mode, max_states).run()
