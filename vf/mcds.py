"""Shared generators, runner and reference models for the model-checker data-structure properties (C42, C44).

Driver: drivers/mcds_driver.cpp (in-process).  Case formats are documented there.
"""
from hypothesis import strategies as st

from . import core

# mirror of simgrid::mc::Transition::Type (only used to build masks and labels; the oracles never rely on it)
TYPES = ["RANDOM", "ACTOR_JOIN", "ACTOR_SLEEP", "ACTOR_CREATE", "ACTOR_EXIT", "TESTANY", "WAITANY",
         "BARRIER_ASYNC_LOCK", "BARRIER_WAIT", "COMM_ASYNC_RECV", "COMM_ASYNC_SEND", "COMM_IPROBE", "COMM_TEST", "COMM_WAIT",
         "MUTEX_ASYNC_LOCK", "MUTEX_TEST", "MUTEX_TRYLOCK", "MUTEX_UNLOCK", "MUTEX_WAIT", "MUTEX_LOCK_NOMC",
         "SEM_ASYNC_LOCK", "SEM_UNLOCK", "SEM_WAIT", "SEM_LOCK_NOMC",
         "CONDVAR_ASYNC_LOCK", "CONDVAR_BROADCAST", "CONDVAR_SIGNAL", "CONDVAR_WAIT", "CONDVAR_NOMC", "UNKNOWN"]
UNKNOWN = TYPES.index("UNKNOWN")
MAX_AID = 30          # static_config::max_threads - 2 (31 is the INVALID value)

MUTEX_T = ["MUTEX_ASYNC_LOCK", "MUTEX_TEST", "MUTEX_TRYLOCK", "MUTEX_UNLOCK", "MUTEX_WAIT"]
SEM_T = ["SEM_ASYNC_LOCK", "SEM_UNLOCK", "SEM_WAIT"]
BAR_T = ["BARRIER_ASYNC_LOCK", "BARRIER_WAIT"]
CV_T = ["CONDVAR_ASYNC_LOCK", "CONDVAR_BROADCAST", "CONDVAR_SIGNAL", "CONDVAR_WAIT"]


def spec_aid(s):
    return s[2] if s[0] in ("mutex", "sem", "barrier", "condvar") else s[1]


def spec_family(s):
    c = s[0]
    if c in ("send", "recv", "iprobe", "test", "wait", "testany", "waitany"):
        return "comm"
    if c in ("join", "exit", "sleep", "create", "random"):
        return "actor"
    return c


# ---------------------------------------------------------------------------------------------------------------------
# generators

def actor_sets(max_actors=6):
    """1..6 distinct actor ids; mostly 1..k, sometimes anywhere in 0..30 (0 and 30 are the boundary values of the clock vectors)."""
    sizes = [3, 2, 4, 5, 6, 3, 4, 2, 3, 1] + ([8, 10, max_actors] if max_actors > 6 else [])
    small = st.sampled_from(sizes).map(lambda k: list(range(1, k + 1)))
    anyw = st.lists(st.integers(0, MAX_AID), min_size=2, max_size=max_actors, unique=True)
    edge = st.lists(st.sampled_from([0, 1, 2, 29, MAX_AID]), min_size=2, max_size=5, unique=True)
    return st.one_of(small, small, small, anyw, edge)


def syn_tables(draw, max_kinds=4):
    k = draw(st.integers(1, max_kinds))
    dens = draw(st.sampled_from([0, 1, 1, 2, 2, 3]))     # 0: nothing depends, 3: everything depends
    dep = [[0] * k for _ in range(k)]
    for a in range(k):
        for b in range(a, k):
            v = 0 if dens == 0 else 1 if dens == 3 else int(draw(st.integers(0, 3)) < dens)
            dep[a][b] = dep[b][a] = v
    real = [draw(st.sampled_from([0, 0, (1 << UNKNOWN) - 1])) if draw(st.booleans()) else draw(st.integers(0, (1 << UNKNOWN) - 1))
            for _ in range(k)]
    rev = [[draw(st.integers(0, 1)) for _ in range(k)] for _ in range(k)]
    return {"dep": dep, "real": real, "rev": rev}


def real_specs(actors, pool):
    aid = st.sampled_from(actors)
    oaid = st.sampled_from(actors + [-1])
    vaid = st.sampled_from(actors)
    obj = st.integers(1, pool)
    comm = st.integers(0, 3)
    tag = st.sampled_from([0, 0, 1, -1])
    b = st.integers(0, 1)
    via = st.integers(0, 1)
    test_sub = st.tuples(comm, oaid, oaid, obj).map(list)
    wait_sub = st.tuples(b, comm, oaid, oaid, obj).map(list)

    @st.composite
    def testany(draw):
        subs = draw(st.lists(test_sub, min_size=1, max_size=3))
        return ["testany", draw(aid), draw(st.integers(0, len(subs) - 1)), subs]

    @st.composite
    def waitany(draw):
        subs = draw(st.lists(wait_sub, min_size=1, max_size=3))
        if not any(s[2] >= 0 and s[3] >= 0 for s in subs):
            subs[0][2] = draw(vaid)
            subs[0][3] = draw(vaid)
        nen = sum(1 for s in subs if s[2] >= 0 and s[3] >= 0)
        return ["waitany", draw(aid), draw(st.integers(0, nen - 1)), subs]

    fam = {
        "mutex": [st.tuples(st.just("mutex"), st.sampled_from(MUTEX_T), aid, obj, oaid)],
        "sem": [st.tuples(st.just("sem"), st.sampled_from(SEM_T), aid, obj, b, st.integers(-2, 3))],
        "barrier": [st.tuples(st.just("barrier"), st.sampled_from(BAR_T), aid, obj)],
        "condvar": [st.tuples(st.just("condvar"), st.sampled_from(CV_T), aid, obj, obj, b, b)],
        "comm": [st.tuples(st.just("send"), aid, comm, obj, tag, via),
                 st.tuples(st.just("recv"), aid, comm, obj, tag, via),
                 st.tuples(st.just("iprobe"), aid, b, obj, tag, via),
                 st.tuples(st.just("test"), aid, comm, oaid, oaid, obj, via),
                 st.tuples(st.just("wait"), aid, b, comm, oaid, oaid, obj, via),
                 st.tuples(st.just("wait"), aid, st.just(0), comm, oaid, oaid, obj, via),
                 testany(), waitany()],
        "actor": [st.tuples(st.just("join"), aid, oaid, b), st.tuples(st.just("exit"), aid), st.tuples(st.just("sleep"), aid),
                  st.tuples(st.just("create"), aid, oaid), st.tuples(st.just("random"), aid, st.just(0), st.integers(0, 3))],
    }
    return fam


@st.composite
def transition_lists(draw, max_len=40, min_len=1, flavour=None, max_kinds=4, max_actors=6):
    """-> (syn tables, [tspec], flavour).  Flavours: syn (synthetic only), real, mixed; real ones restricted to 1..3 families
    so that sequences are dense in dependencies, object ids from a pool of 1..3."""
    actors = draw(actor_sets(max_actors))
    fl = flavour or draw(st.sampled_from(["syn", "real", "real", "mixed"]))
    tabs = syn_tables(draw, max_kinds)
    k = len(tabs["dep"])
    cands = []
    if fl in ("syn", "mixed"):
        cands.append(st.tuples(st.just("syn"), st.sampled_from(actors), st.integers(0, k - 1)))
    if fl in ("real", "mixed"):
        fam = real_specs(actors, draw(st.integers(1, 3)))
        names = draw(st.lists(st.sampled_from(sorted(fam)), min_size=1, max_size=3, unique=True))
        if draw(st.integers(0, 5)) == 5:
            names = sorted(fam)
        for nm in names:
            cands.extend(fam[nm])
    # explicit length classes: Hypothesis' own list sizes are heavily skewed towards tiny lists
    cls = draw(st.sampled_from([2, 1, 2, 3, 2, 3, 4, 0]))
    lo, hi = [(min_len, 3), (2, 6), (5, 15), (12, 30), (25, max_len)][cls]
    hi = max(min(hi, max_len), min_len)
    lo = max(min(lo, hi), min_len)
    n = draw(st.integers(lo, hi))
    ts = draw(st.lists(st.one_of(*cands), min_size=n, max_size=n))
    return tabs, [list(t) if not isinstance(t, list) else t for t in ts], fl


@st.composite
def exec_cases(draw, max_len=40, max_actors=6):
    tabs, ts, fl = draw(transition_lists(max_len=max_len, max_actors=max_actors))
    n = len(ts)
    how = draw(st.lists(st.integers(0, 19), min_size=n, max_size=n))
    ops = []
    live = 0
    i = 0
    if draw(st.integers(0, 9)) == 9:
        m = draw(st.integers(0, min(n, 5)))
        ops.append(["ctor", ts[:m]])
        live = m
        i = m
    while i < n:
        h = how[i]
        if h == 15 and i + 1 < n:
            m = min(n - i, 2 + how[i + 1] % 3)
            ops.append(["pushmany", ts[i:i + m]])
            live += m
            i += m
            continue
        ops.append(["push", ts[i], 1] if h == 14 else ["push", ts[i]])
        live += 1
        i += 1
        if h == 16 and live > 0:
            ops.append(["pop"])
            live -= 1
        elif h == 17:
            for _ in range(min(live, 1 + (i % 3))):
                ops.append(["pop"])
                live -= 1
        elif h == 18:
            ops.append(["copy"])
        elif h == 19:
            ops.append(["dump"])
    rev = 1 if fl == "syn" else 0
    lim = draw(st.integers(0, max(live, 1)))
    ops.append(["dump", sorted({live, lim}), rev])
    if draw(st.integers(0, 7)) == 7:
        k = draw(st.integers(0, live))
        ops.append(["prefix", k])
        ops.append(["dump", [k], rev])
        # what SDPOR's get_missing_source_set_actors_from does: extend the prefix (only the order among the new events is asserted)
        m = draw(st.integers(0, 6))
        if m and n:
            for j in range(m):
                ops.append(["push", ts[(k + 1 + j * 3) % n]])
            ops.append(["dump", [], rev])
    return {"mode": "exec", "syn": tabs, "ops": ops}


# ---------------------------------------------------------------------------------------------------------------------
# running

def run_case(case, cpu=20, wall=120):
    return core.serve("mcds_driver", case, cpu=cpu, wall=wall)


def shadow_exec(ops):
    """What the Execution must hold at each dump op: {op index: ([spec], base)}.  base = None, or k when the execution is a prefix
    (get_prefix_before(k)) that was extended afterwards: events >= k were pushed onto the prefix."""
    cur = []
    res = {}
    base = None
    for idx, op in enumerate(ops):
        w = op[0]
        if w == "push":
            cur.append(op[1])
        elif w == "pushmany":
            cur.extend(op[1])
        elif w == "ctor":
            cur = list(op[1])
            base = None
        elif w == "pop":
            if cur:
                cur.pop()
        elif w == "prefix":
            cur = cur[:min(op[1], len(cur))]
            base = len(cur)
        elif w == "dump":
            res[idx] = (list(cur), base if base is not None and len(cur) > base else None)
    return res


# ---------------------------------------------------------------------------------------------------------------------
# reference model of the happens-before relation of an execution (C42)

def bits(row):
    """'0110' -> int with bit j set iff row[j] == '1'"""
    return int(row[::-1], 2) if row else 0


def ref_happens_before(n, dep):
    """dep[i] = bitset of the events dependent with i.  Returns anc[j] = bitset of the events i < j that happen before j:
    the transitive closure of `i < j and dep(i, j)`."""
    anc = [0] * n
    for j in range(n):
        a = 0
        below = (1 << j) - 1
        d = dep[j] & below
        i = 0
        while d:
            if d & 1:
                a |= anc[i] | (1 << i)
            d >>= 1
            i += 1
        anc[j] = a
    return anc


def ref_races(n, aids, anc):
    """races[j] = {i : proc(i) != proc(j), i -> j, no k with i -> k -> j}   (Execution.hpp, get_racing_events_of)"""
    res = []
    for j in range(n):
        r = set()
        a = anc[j]
        for i in range(j):
            if not (a >> i) & 1 or aids[i] == aids[j]:
                continue
            # some k in anc[j] with i in anc[k] ?
            between = False
            m = a >> (i + 1)
            k = i + 1
            while m:
                if m & 1 and (anc[k] >> i) & 1:
                    between = True
                    break
                m >>= 1
                k += 1
            if not between:
                r.add(i)
        res.append(r)
    return res
