"""One search worker: runs Hypothesis over a property's strategy with a derived seed.

usage: python3-vt -m vf.worker <ID> <tier> <seed> <worker-index> <n-cases> <out.json>
"""
import importlib
import json
import os
import shutil
import sys
import time
import traceback

from hypothesis import HealthCheck, Phase, given, seed, settings

from . import core, known


class Found(Exception):
    pass


def load_prop(pid):
    mod = importlib.import_module("vf.props." + pid.lower())
    return mod.PROP


def main():
    pid, tier, sd, w, n, outpath = sys.argv[1], sys.argv[2], int(sys.argv[3]), int(sys.argv[4]), int(sys.argv[5]), sys.argv[6]
    prop = load_prop(pid)
    kn = known.Known(pid)
    tmp = core.tmpdir()
    os.environ["VF_TMP"] = tmp
    st = dict(evaluations=0, executions=0, invalid=0, nontrivial_hashes=set(), all_hashes=set(), labels={},
              samples=[], known_hits={}, inconclusive=0, failing=None, failing_violations=None, error=None)
    t0 = time.time()
    budget = float(os.environ.get("VF_WALL_BUDGET", "0")) or None

    shrink_budget = float(os.environ.get("VF_SHRINK_BUDGET", "60" if tier == "quick" else "240"))
    failing_seen = {}
    first_fail = [None]

    def one(case):
        if budget and time.time() - t0 > budget:
            st["inconclusive"] += 1
            return
        if first_fail[0] is not None and time.time() - first_fail[0] > shrink_budget:
            # shrinking budget exhausted: let Hypothesis finish quickly.  Cases already known to fail keep failing
            # (so the final replay of the best example works), unseen candidates are declared uninteresting.
            h0 = core.case_hash(case)
            if h0 in failing_seen:
                st["failing"] = case
                st["failing_violations"] = failing_seen[h0]
                raise Found(failing_seen[h0][0]["sig"])
            return
        try:
            oc = prop.check(case)
        except core.Inconclusive:
            st["inconclusive"] += 1
            return
        except Found:
            raise
        except Exception as e:
            oc = core.Outcome()
            oc.bad("check-exception:" + type(e).__name__,
                   "".join(traceback.format_exception(type(e), e, e.__traceback__))[-3000:])
        st["evaluations"] += 1
        st["executions"] += oc.evals
        if oc.invalid:
            st["invalid"] += 1
            return
        h = core.case_hash(case)
        st["all_hashes"].add(h)
        for l in oc.labels:
            st["labels"][l] = st["labels"].get(l, 0) + 1
        if oc.nontrivial:
            if h not in st["nontrivial_hashes"] and len(st["samples"]) < 3:
                st["samples"].append({"case": case, "labels": sorted(oc.labels), "info": oc.info})
            st["nontrivial_hashes"].add(h)
        unlisted = []
        for v in oc.violations:
            if kn.is_known(v.sig):
                st["known_hits"][v.sig] = st["known_hits"].get(v.sig, 0) + 1
            else:
                unlisted.append(v)
        if unlisted:
            st["failing"] = case
            st["failing_violations"] = [v.to_json() for v in unlisted]
            failing_seen[h] = st["failing_violations"]
            if first_fail[0] is None:
                first_fail[0] = time.time()
            raise Found(unlisted[0].sig + ": " + unlisted[0].msg)

    # fixed / enumerated cases first (worker 0 only, they are deterministic)
    try:
        nw = int(os.environ.get("VF_NWORKERS", "1"))
        for case in prop.fixed_cases(tier)[w::nw]:
            try:
                one(case)
            except Found:
                break
        if st["failing"] is None and n > 0:
            derived = (sd * 1000003 + w * 7919 + sum(ord(c) for c in pid)) & 0xFFFFFFFF

            @seed(derived)
            @settings(max_examples=n, database=None, deadline=None, derandomize=False, report_multiple_bugs=False,
                      suppress_health_check=[HealthCheck.too_slow, HealthCheck.data_too_large,
                                             HealthCheck.filter_too_much, HealthCheck.large_base_example],
                      phases=[Phase.generate, Phase.shrink], print_blob=False)
            @given(prop.strategy(tier))
            def test(case):
                one(case)

            try:
                test()
            except Found:
                pass
            except BaseException as e:   # Hypothesis wraps/raises several kinds
                if st["failing"] is None:
                    st["error"] = "".join(traceback.format_exception(type(e), e, e.__traceback__))[-4000:]
    except Exception as e:
        st["error"] = "".join(traceback.format_exception(type(e), e, e.__traceback__))[-4000:]
    finally:
        shutil.rmtree(tmp, ignore_errors=True)
    st["nontrivial_hashes"] = sorted(st["nontrivial_hashes"])
    st["distinct"] = len(st["all_hashes"])
    del st["all_hashes"]
    st["wall_s"] = time.time() - t0
    with open(outpath, "w") as f:
        json.dump(st, f)


if __name__ == "__main__":
    main()
