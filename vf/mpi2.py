"""Runner for the `mpi2_interp` driver (builder mpi2: C28, C34): same case format, same output, same Result class as vf/mpi.py
(notes/MPI_INFRA.md); the binary contains the base + communicator operations plus drivers/mpi_ops_p2p.cpp and mpi_ops_rma.cpp.
"""
import json

from . import core, mpi

DRIVER = "mpi2_interp"

_CONST = None


def consts():
    """(K, E): MPI constants and error codes of the implementation, asked once per process."""
    global _CONST
    if _CONST is None:
        r = core.serve(DRIVER, {"np": 1, "hello": True, "prog": []}, cpu=20, wall=300)
        for rec in r.json_lines():
            if rec.get("k") == "hello":
                _CONST = (mpi.Consts({k[4:]: v for k, v in rec["const"].items()}),
                          mpi.Consts({k[4:] if k.startswith("MPI_") else k: v for k, v in rec["err"].items()}))
                break
        else:
            raise core.Inconclusive("mpi2_interp did not answer hello: rc=%s err=%s" % (r.rc, r.err[-500:]))
    return _CONST


def run(case, cpu=20, wall=300):
    text = json.dumps(case, separators=(",", ":"))
    if mpi.needs_fresh(case):
        from . import build
        srv = core.server(DRIVER + ":fresh", cmd=[build.drv(DRIVER)], env=build.runtime_env({"MPI_INTERP_FRESH": "1"}))
    else:
        srv = core.server(DRIVER)
    rr = srv.request(text, cpu=cpu, wall=wall)
    if rr.wall_exceeded:
        raise core.Inconclusive()
    return mpi.Result(rr, case)
