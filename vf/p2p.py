"""C28: generated MPI point-to-point programs, the matching explorer that proves them deadlock-free, and the validity predicate.

A *case* (see vf/props/c28.py for the strategy) is a global list of messages in an intended order.  `Build(case, K)` turns it into

  * one abstract program per rank (post/blocking send, post/blocking receive, sendrecv, wait on a set of requests),
  * the operation list for the `mpi2_interp` driver,
  * the tables the oracle needs (who sent what, which receive has which pattern and capacity).

The base program (every receive names its source and tag, operations in the global order) is deadlock-free under ZERO buffering.
Relaxations (non-blocking + later completion, Sendrecv) keep that.  Hoisted receives and wildcards are only kept when `Explorer`
proves that EVERY matching MPI allows leads to completion whatever is buffered (see Explorer).
"""
import zlib

TYPES = [("BYTE", 1), ("CHAR", 1), ("INT", 4), ("DOUBLE", 8)]
SLACK = 8                 # bytes after the capacity of every receive buffer (must stay FILL)
FILL = 0xFE               # never a payload byte (payload bytes are 1..251)
DELAYS = [0.0, 1e-5, 1e-3, 3e-2]
MODES = ["wait", "waitall", "waitany", "waitsome", "test", "testall", "testany", "testsome"]

# ---------------------------------------------------------------------------------------------
# payload pattern of the `buf`/`p2p_bufs` operations: byte k = (seed + 37*rank + 11*k + k//251) % 251 + 1
_PERIOD = 251 * 251
_BASE0 = bytes((11 * k + k // 251) % 251 for k in range(_PERIOD))
_TABLES = {}


def pat_bytes(seed, rank, size):
    c = (seed + 37 * rank) % 251
    t = _TABLES.get(c)
    if t is None:
        t = _TABLES[c] = bytes(((v + c) % 251 + 1) if v < 251 else 0 for v in range(256))
    reps = size // _PERIOD + 1
    base = _BASE0 if reps == 1 else _BASE0 * reps
    return base[:size].translate(t)


def seed_for(k, rank):
    """seed such that the first payload byte of message k is (k % 251) + 1 whatever the rank"""
    return (k - 37 * rank) % 251


# ---------------------------------------------------------------------------------------------
class Unsafe(Exception):
    pass


class Explorer:
    """Decides whether an abstract program completes under EVERY matching that MPI allows and every buffering choice.

    Model.  A send is posted when its rank reaches it; a receive likewise.  A posted unmatched send s and a posted unmatched
    receive r of its destination can be matched when they are compatible (communicator, source, tag with wildcards), no receive
    posted earlier by that rank is still unmatched and compatible with s, and no send posted earlier by the same sender to the same
    destination on that communicator is still unmatched and compatible with r (the two non-overtaking rules of MPI-3.1 3.5).
    Messages of different senders may arrive in any order (no causality assumption across senders).  A receive completes when
    matched.  A synchronous send completes when matched; a buffered send completes at once; a standard send is either.

    Phase A explores all sequences of matches with standard sends BUFFERED (the largest set of reachable matchings: completing a
    send earlier only lets ranks post more) and collects the total matchings; a state with unfinished ranks and no legal match is
    a deadlock.  Matches whose receive names its source are forced (both partners can never match anything else), so only
    MPI_ANY_SOURCE receives branch.  Phase B replays every total matching as a dataflow with standard sends SYNCHRONOUS (the
    least progress).  If A finds no deadlock and every matching of B completes, no execution with any mix of buffered and
    synchronous standard sends can block: from a blocked state, phase A extends its matching to a total one M, M completes with
    the least progress, hence (monotonicity + confluence of a fixed matching) some rank or match of M is enabled in that state,
    and then some legal match is (the earliest posted receive having a compatible posted send, with that sender's earliest one).
    """

    def __init__(self, nranks, progs, sends, recvs, max_states=3000):
        self.n = nranks
        self.progs = progs
        self.sends = sends        # k -> dict(rank, dst, comm, tag, mode, seq)
        self.recvs = recvs        # k -> dict(rank, comm, src|None, tag|None, seq)
        self.max_states = max_states
        self.states = 0
        self.totals = []          # total matchings: dict recv -> send
        self.cands = {}           # recv -> set of sends that were a legal match in some state
        self.together = {}        # recv -> largest set of compatible sends pending at the same time as the receive
        self.seen = set()

    @staticmethod
    def compatible(s, r):
        return (s["comm"] == r["comm"] and s["dst"] == r["rank"] and (r["src"] is None or r["src"] == s["rank"])
                and (r["tag"] is None or r["tag"] == s["tag"]))

    def advance(self, match, sync_std):
        """least fixpoint of rank progress given the matching `match` (recv -> send).  Returns (pcs, posted sends, posted recvs)."""
        inv = {s: r for r, s in match.items()}
        pcs = [0] * self.n
        ps, pr = set(), set()

        def send_done(k):
            m = self.sends[k]["mode"]
            if m == "bsend" or (m in ("std", "rsend") and not sync_std):
                return True
            return k in inv and inv[k] in pr

        def recv_done(k):
            return k in match and match[k] in ps

        changed = True
        while changed:
            changed = False
            for p in range(self.n):
                prog = self.progs[p]
                while pcs[p] < len(prog):
                    op = prog[pcs[p]]
                    t = op[0]
                    if t == "ps":
                        if op[1] not in ps:
                            ps.add(op[1]); changed = True
                    elif t == "pr":
                        if op[1] not in pr:
                            pr.add(op[1]); changed = True
                    elif t == "bs":
                        if op[1] not in ps:
                            ps.add(op[1]); changed = True
                        if not send_done(op[1]):
                            break
                    elif t == "br":
                        if op[1] not in pr:
                            pr.add(op[1]); changed = True
                        if not recv_done(op[1]):
                            break
                    elif t == "sr":
                        if op[1] not in ps:
                            ps.add(op[1]); changed = True
                        if op[2] not in pr:
                            pr.add(op[2]); changed = True
                        if not (send_done(op[1]) and recv_done(op[2])):
                            break
                    elif t == "w":
                        if not all(send_done(k) if w == "s" else recv_done(k) for w, k in op[1]):
                            break
                    pcs[p] += 1
                    changed = True
        return pcs, ps, pr

    def legal(self, match, ps, pr):
        inv = set(match.values())
        us = [k for k in ps if k not in inv]
        ur = [k for k in pr if k not in match]
        res = []
        for r in ur:
            R = self.recvs[r]
            for s in us:
                S = self.sends[s]
                if not self.compatible(S, R):
                    continue
                if any(self.recvs[r0]["rank"] == R["rank"] and self.recvs[r0]["seq"] < R["seq"] and self.compatible(S, self.recvs[r0])
                       for r0 in ur if r0 != r):
                    continue
                if any(self.sends[s0]["rank"] == S["rank"] and self.sends[s0]["seq"] < S["seq"] and self.compatible(self.sends[s0], R)
                       for s0 in us if s0 != s):
                    continue
                res.append((s, r))
        return res

    def finished(self, pcs):
        return all(pcs[p] == len(self.progs[p]) for p in range(self.n))

    def run(self):
        """raises Unsafe when some execution blocks (or the state budget is exceeded); otherwise fills totals and cands"""
        stack = [{}]
        while stack:
            match = stack.pop()
            key = frozenset(match.items())
            if key in self.seen:
                continue
            self.seen.add(key)
            self.states += 1
            if self.states > self.max_states:
                raise Unsafe("state budget exceeded")
            pcs, ps, pr = self.advance(match, sync_std=False)
            moves = self.legal(match, ps, pr)
            for s, r in moves:
                self.cands.setdefault(r, set()).add(s)
            # messages that are pending TOGETHER and fit the pattern of a pending receive (the non-overtaking rules choose among them)
            inv = set(match.values())
            for r in pr:
                if r not in match:
                    tog = frozenset(s for s in ps if s not in inv and self.compatible(self.sends[s], self.recvs[r]))
                    if len(tog) > len(self.together.get(r, ())):
                        self.together[r] = tog
            if not moves:
                if not self.finished(pcs):
                    raise Unsafe("deadlock with buffered sends after matching %s" % sorted(match.items()))
                if len(match) != len(self.recvs):
                    raise Unsafe("finished with unmatched receives")
                self.totals.append(match)
                continue
            forced = [(s, r) for s, r in moves if self.recvs[r]["src"] is not None]
            if forced:
                moves = [min(forced)]
            for s, r in moves:
                m2 = dict(match)
                m2[r] = s
                stack.append(m2)
        for m in self.totals:
            pcs, _, _ = self.advance(m, sync_std=True)
            if not self.finished(pcs):
                raise Unsafe("deadlock with synchronous sends under matching %s" % sorted(m.items()))
        return self


# ---------------------------------------------------------------------------------------------
class Build:
    """case -> abstract programs, driver program, oracle tables"""

    def __init__(self, case, K):
        self.K = K
        self.case = case
        self.np = np_ = case["np"]
        self.labels = set()
        self.thr = list(case["thr"])
        # "mix" shapes: a late receiver facing MANY pending messages of both mailboxes (SMPI keeps a 'small' and a 'large' mailbox per
        # receiver when smpi/async-small-thresh > 0): 1 = burst of one sender, 2 = fan-in of several senders; sizes from a palette
        # around the eager threshold, roomy wildcard receives, non-blocking sends
        self.mix = case.get("mix", 0)
        if self.mix:
            if self.thr[0] < 16:
                self.thr = [64, 256]
            wall = case.get("wall", 0)
            wall = (wall if wall in (2, 3) else 2 + wall) if self.mix == 1 else (wall if wall in (1, 3) else 3 - wall // 2 * 2)
            case = dict(case, fan=3 if self.mix == 1 else 1, snb=1, rlate=1, wall=wall)
            self.case = case
        # ---- communicators: index 0 = world; the others are splits / dups of the world
        self.comm_groups = [[list(range(np_))]]           # per communicator index: list of member lists (one per color)
        self.comm_ops = []
        for ci, c in enumerate(case.get("comms", []), 1):
            name = "c%d" % ci
            if c["kind"] == "dup":
                self.comm_groups.append([list(range(np_))])
                self.comm_ops.append({"op": "comm_dup", "comm": "world", "out": name})
            else:
                colors = [c["colors"][w % len(c["colors"])] for w in range(np_)]
                keys = [c["keys"][w % len(c["keys"])] for w in range(np_)]
                groups = []
                for col in sorted(set(x for x in colors if x is not None)):
                    groups.append([w for _, w in sorted((keys[w], w) for w in range(np_) if colors[w] == col)])
                self.comm_groups.append(groups)
                self.comm_ops.append({"op": "comm_split", "comm": "world", "color": {"@": colors}, "key": {"@": keys}, "out": name})
        self.comm_name = ["world"] + ["c%d" % i for i in range(1, len(self.comm_groups))]
        # ---- messages
        self.msgs = []
        for k, m in enumerate(case["msgs"]):
            ci = m.get("c", 0) % len(self.comm_groups)
            groups = [g for g in self.comm_groups[ci] if len(g) >= 2]
            if not groups:
                ci, groups = 0, self.comm_groups[0]
            g = groups[m.get("g", 0) % len(groups)]
            fan = case.get("fan", 0)
            if fan == 1:                       # fan-in: everybody sends to the first member
                s, d = g[1 + m["s"] % (len(g) - 1)], g[0]
            elif fan == 2:                     # one pair of processes, both directions
                s, d = (g[0], g[1]) if m["s"] % 2 == 0 else (g[1], g[0])
            elif fan == 3:                     # a burst: one sender, one receiver, non-blocking sends, late receiver
                s, d = g[1], g[0]
            else:
                s = g[m["s"] % len(g)]
                d = g[m["d"] % len(g)]
            if d == s and (fan or not m.get("self")):
                d = g[(m["d"] + 1) % len(g)]
            # one element type per communicator (a wildcard receive must only see messages of its own type: MPI's type matching rules)
            tys = case.get("tys") or [0]
            tname, tsize = TYPES[tys[ci % len(tys)] % len(TYPES)]
            base = [m.get("k0", 0), self.thr[0], self.thr[1]][m.get("szc", 0) % 3]
            nbytes = max(0, base + m.get("szo", 0) * (tsize if tsize > 1 else 1))
            if self.mix:
                T = self.thr[0]
                nbytes = [T, 0, 1, T - 1, T // 2, T + tsize, 2 * tsize, 3, T, T // 4][m.get("szm", 0) % 10] // tsize * tsize
            count = nbytes // tsize
            cap = max(0, count + m.get("cap", 0))
            if self.mix and m.get("cap", 0) >= 0 and m.get("roomy", True):
                cap = max(cap, (self.thr[0] + tsize - 1) // tsize + m.get("cap", 0))     # room for every eager message
            mode = m.get("sm", "std")
            rk = m.get("rk", "recv")
            if rk in ("probe", "iprobe"):
                cap = max(0, count + m.get("cap", 0))      # decided at run time from the probed count: same formula for the intended message
            self.msgs.append(dict(k=k, ci=ci, comm=(ci, tuple(g)), members=g, s=s, d=d, tag=m.get("tag", 0) % (2 if self.mix else 1000), tname=tname, tsize=tsize,
                                  count=count, nbytes=count * tsize, cap=cap, capdelta=m.get("cap", 0), mode=mode, rk=rk,
                                  sk=m.get("sk", 0) or (99 if (case.get("snb") or fan == 3) else 0), rd=m.get("rd", 0), rh=m.get("rh", 0),
                                  ws=bool(m.get("ws")) or case.get("wall", 0) in (1, 3), wt=bool(m.get("wt")) or case.get("wall", 0) in (2, 3),
                                  sr=bool(m.get("sr")), wm=MODES[m.get("wm", 0) % len(MODES)], sz=m.get("sz", [0, 0]),
                                  pk=bool(m.get("pk")), selfmsg=(s == d)))
        self.wild = {}           # k -> (any source, any tag) actually applied
        self.use_hoist = True
        self.make_programs()
        self.prove()

    # ---- per-rank operation lists ("concrete" ops; the abstract program is derived from them)
    def make_programs(self):
        np_ = self.np
        items = [[] for _ in range(np_)]
        for m in self.msgs:
            k = m["k"]
            if m["selfmsg"]:
                if m["sr"]:
                    items[m["s"]].append(("SR", k, k))
                elif m["rk"] == "irecv":
                    items[m["s"]].append(("R", k))
                    items[m["s"]].append(("S", k))
                else:
                    items[m["s"]].append(("S", k))
                    items[m["s"]].append(("R", k))
            else:
                items[m["s"]].append(("S", k))
                items[m["d"]].append(("R", k))
        self.ops = []
        for p in range(np_):
            self.ops.append(self.rank_ops(p, items[p]))

    def rank_ops(self, p, items):
        M = self.msgs
        n = len(items)
        # Sendrecv merges: a blocking standard send and a blocking plain receive that are neighbours, on one communicator
        merged = {}
        skip = set()
        for i in range(n - 1):
            a, b = items[i], items[i + 1]
            if i in skip or a[0] == "SR" or b[0] == "SR" or a[0] == b[0]:
                continue
            ks, kr = (a[1], b[1]) if a[0] == "S" else (b[1], a[1])
            if ks == kr:
                continue
            if not (M[a[1]]["sr"]):
                continue
            if M[ks]["mode"] != "std" or M[ks]["sk"] != 0 or M[kr]["rk"] != "recv" or M[ks]["comm"] != M[kr]["comm"]:
                continue
            if M[ks]["selfmsg"] or M[kr]["selfmsg"]:
                continue
            merged[i] = ("SR", ks, kr)
            skip.add(i + 1)
        pre = [[] for _ in range(n + 1)]         # hoisted receive posts, before slot i
        main = [None] * n
        due = [[] for _ in range(n)]             # completions after slot i: (request, mode)
        for i, it in enumerate(items):
            if i in skip:
                continue
            if i in merged:
                it = merged[i]
            if it[0] == "SR":
                main[i] = {"t": "sendrecv", "ks": it[1], "kr": it[2]}
                continue
            m = M[it[1]]
            k = m["k"]
            if it[0] == "S":
                sk = m["sk"]
                if m["selfmsg"] and m["rk"] != "irecv":
                    sk = max(sk, 2)              # the completion must come after the receive that follows
                if sk == 0:
                    main[i] = {"t": "send", "k": k}
                else:
                    main[i] = {"t": "isend", "k": k}
                    due[min(i + sk - 1, n - 1)].append((("s", k), m["wm"]))
            else:
                rk = m["rk"]
                if rk == "irecv":
                    h = m["rh"] if (self.use_hoist and not m["selfmsg"]) else 0
                    post = {"t": "irecv", "k": k}
                    if h > 0 and i > 0:
                        pre[max(0, i - h)].append(post)
                    else:
                        main[i] = post
                    rd = m["rd"]
                    if m["selfmsg"]:
                        rd = max(rd, 1)          # the completion must come after the send that follows
                    due[min(i + rd, n - 1)].append((("r", k), m["wm"]))
                elif rk in ("probe", "iprobe"):
                    main[i] = {"t": "precv", "k": k, "mode": rk}
                else:
                    main[i] = {"t": "recv", "k": k}
        ops = []
        late = bool(self.case.get("rlate") or self.case.get("fan") == 3)   # late receivers: the messages are there before the receives
        for i in range(n):
            if late and (pre[i] or (main[i] is not None and main[i]["t"] in ("recv", "irecv", "precv", "sendrecv"))):
                ops.append({"t": "sleep", "d": 0.05})
                late = False
            ops.extend(pre[i])
            if main[i] is not None:
                op = main[i]
                kk = op.get("k", op.get("ks"))
                m = M[kk]
                dl = DELAYS[m["sz"][0 if op["t"] in ("send", "isend", "sendrecv") else 1] % len(DELAYS)]
                if dl > 0:
                    ops.append({"t": "sleep", "d": dl})
                if m["pk"] and op["t"] in ("recv", "irecv"):
                    ops.append({"t": "peek", "k": kk})
                ops.append(op)
                # the send buffer is reused as soon as the send is complete
                if op["t"] == "send":
                    ops.append({"t": "scribble", "ks": [op["k"]]})
                elif op["t"] == "sendrecv" and op["ks"] != op["kr"]:
                    ops.append({"t": "scribble", "ks": [op["ks"]]})
            if due[i]:
                ops.append({"t": "complete", "mode": due[i][0][1], "reqs": [rq for rq, _ in due[i]]})
                if any(w == "s" for (w, _), _ in due[i]):
                    ops.append({"t": "scribble", "ks": [k for (w, k), _ in due[i] if w == "s"]})
        return ops

    # ---- abstract model
    def pattern(self, k):
        m = self.msgs[k]
        ws, wt = self.wild.get(k, (False, False))
        return (None if ws else m["s"], None if wt else m["tag"])

    def abstract(self):
        progs, sends, recvs = [], {}, {}
        for p in range(self.np):
            prog = []
            seq = 0
            for op in self.ops[p]:
                t = op["t"]
                if t in ("send", "isend"):
                    m = self.msgs[op["k"]]
                    sends[op["k"]] = dict(rank=p, dst=m["d"], comm=m["comm"], tag=m["tag"], mode=m["mode"], seq=seq)
                    prog.append(("bs" if t == "send" else "ps", op["k"]))
                elif t in ("recv", "irecv", "precv"):
                    m = self.msgs[op["k"]]
                    src, tag = self.pattern(op["k"])
                    recvs[op["k"]] = dict(rank=p, comm=m["comm"], src=src, tag=tag, seq=seq)
                    prog.append(("pr" if t == "irecv" else "br", op["k"]))
                elif t == "sendrecv":
                    ms, mr = self.msgs[op["ks"]], self.msgs[op["kr"]]
                    sends[op["ks"]] = dict(rank=p, dst=ms["d"], comm=ms["comm"], tag=ms["tag"], mode="std", seq=seq)
                    src, tag = self.pattern(op["kr"])
                    recvs[op["kr"]] = dict(rank=p, comm=mr["comm"], src=src, tag=tag, seq=seq + 1)
                    seq += 1
                    prog.append(("sr", op["ks"], op["kr"]))
                elif t == "complete":
                    prog.append(("w", list(op["reqs"])))
                else:
                    continue
                seq += 1
            progs.append(prog)
        return progs, sends, recvs

    def explore(self):
        progs, sends, recvs = self.abstract()
        return Explorer(self.np, progs, sends, recvs).run()

    def prove(self):
        """keep hoists and wildcards only when every allowed matching completes"""
        try:
            ex = self.explore()
        except Unsafe:
            if any(m["rh"] > 0 for m in self.msgs):
                self.labels.add("hoists-dropped")
            self.use_hoist = False
            self.make_programs()
            ex = self.explore()          # an Unsafe here is a generator bug: let it propagate
        want = {m["k"]: (m["ws"], m["wt"]) for m in self.msgs if m["ws"] or m["wt"]}
        if want:
            self.wild = dict(want)
            try:
                ex = self.explore()
            except Unsafe:
                # not all together: one at a time, the LATER receives first (an earlier wildcard is only safe when the later
                # receives can pick up what it leaves)
                self.wild = {}
                for k in sorted(want, reverse=True):
                    self.wild[k] = want[k]
                    try:
                        ex = self.explore()
                    except Unsafe:
                        del self.wild[k]
                        self.labels.add("wildcard-refused")
        self.explorer = ex
        self.progs, self.sends, self.recvs = self.abstract()

    # ---- driver program
    def driver_case(self):
        K = self.K
        M = self.msgs
        prog = list(self.comm_ops)
        bufs = [[] for _ in range(self.np)]
        bsend = [0] * self.np
        has_bsend = [False] * self.np
        dynamic = set(op["k"] for p in range(self.np) for op in self.ops[p] if op["t"] == "precv")   # buffers created by probe_recv
        for m in M:
            k = m["k"]
            bufs[m["s"]].append({"name": "s%d" % k, "size": m["nbytes"], "pat": seed_for(k, m["s"])})
            if k not in dynamic:
                bufs[m["d"]].append({"name": "r%d" % k, "size": m["cap"] * m["tsize"] + SLACK, "fill": FILL})
            if m["mode"] == "bsend":
                bsend[m["s"]] += m["nbytes"] + K.BSEND_OVERHEAD
                has_bsend[m["s"]] = True
        for p in range(self.np):
            if bufs[p]:
                prog.append({"op": "p2p_bufs", "only": [p], "bufs": bufs[p]})
            if has_bsend[p]:
                prog.append({"op": "buffer_attach", "only": [p], "size": bsend[p] + 64})
        self.index = {}            # (rank, position in self.ops[rank]) -> index in prog
        for p in range(self.np):
            for j, op in enumerate(self.ops[p]):
                t = op["t"]
                d = None
                if t == "sleep":
                    d = {"op": "sleep", "d": op["d"]}
                elif t == "scribble":
                    d = {"op": "p2p_fill", "bufs": ["s%d" % k for k in op["ks"]], "fill": 0xFD}
                elif t in ("send", "isend"):
                    m = M[op["k"]]
                    d = {"op": t, "buf": "s%d" % m["k"], "count": m["count"], "type": m["tname"], "dest": m["members"].index(m["d"]),
                         "tag": m["tag"], "comm": self.comm_name[m["ci"]], "mode": m["mode"]}
                    if t == "isend":
                        d["req"] = "qs%d" % m["k"]
                elif t in ("recv", "irecv", "precv", "peek"):
                    m = M[op["k"]]
                    src, tag = self.pattern(op["k"])
                    d = {"src": K.ANY_SOURCE if src is None else m["members"].index(src), "tag": K.ANY_TAG if tag is None else tag,
                         "comm": self.comm_name[m["ci"]], "type": m["tname"]}
                    if t == "peek":
                        d["op"] = "iprobe"
                    elif t == "precv":
                        d.update({"op": "probe_recv", "mode": op["mode"], "buf": "r%d" % m["k"], "delta": m["capdelta"], "slack": SLACK})
                    else:
                        d.update({"op": "recv2" if t == "recv" else "irecv", "buf": "r%d" % m["k"], "count": m["cap"]})
                        if t == "irecv":
                            d["req"] = "qr%d" % m["k"]
                elif t == "sendrecv":
                    ms, mr = M[op["ks"]], M[op["kr"]]
                    src, tag = self.pattern(op["kr"])
                    d = {"op": "sendrecv2", "sbuf": "s%d" % ms["k"], "scount": ms["count"], "stype": ms["tname"],
                         "dest": ms["members"].index(ms["d"]), "stag": ms["tag"], "rbuf": "r%d" % mr["k"], "rcount": mr["cap"],
                         "rtype": mr["tname"], "src": K.ANY_SOURCE if src is None else mr["members"].index(src),
                         "rtag": K.ANY_TAG if tag is None else tag, "comm": self.comm_name[ms["ci"]]}
                elif t == "complete":
                    d = {"op": "complete", "mode": op["mode"], "reqs": ["q%s%d" % rq for rq in op["reqs"]],
                         "types": [M[rq[1]]["tname"] for rq in op["reqs"]]}
                d["only"] = [p]
                self.index[(p, j)] = len(prog)
                prog.append(d)
        self.crc_index = {}
        for p in range(self.np):
            names = ["r%d" % m["k"] for m in M if m["d"] == p]
            if names:
                self.crc_index[p] = (len(prog), names)
                prog.append({"op": "crcs", "only": [p], "bufs": names, "slack": SLACK})
            if has_bsend[p]:
                prog.append({"op": "buffer_detach", "only": [p]})
        cfg = ["smpi/async-small-thresh:%d" % self.thr[0], "smpi/send-is-detached-thresh:%d" % self.thr[1]]
        return {"np": self.np, "cfg": cfg, "prog": prog}

    def across_thresh(self):
        """(message, receive) pairs that SMPI cannot match (known finding): the receiver chooses its mailbox from its OWN buffer size, so
        a receive smaller than smpi/async-small-thresh never sees a compatible message that is not smaller than the threshold"""
        return [(s_, r) for s_ in self.sends for r in self.recvs if Explorer.compatible(self.sends[s_], self.recvs[r])
                and self.msgs[r]["cap"] * self.msgs[r]["tsize"] < self.thr[0] <= self.msgs[s_]["nbytes"]]

    def two_mailbox_risk(self):
        """ingredients of the two known non-overtaking defects (two mailboxes per receiver): used to attribute a DEADLOCK of a valid
        program to them (the wrong message goes to a receive, a later receive then waits for ever)"""
        if self.thr[0] <= 0:
            return None
        M = self.msgs
        S, R = self.sends, self.recvs
        for a in S:
            for c in S:
                if (S[a]["rank"], S[a]["dst"], S[a]["comm"]) == (S[c]["rank"], S[c]["dst"], S[c]["comm"]) and S[a]["seq"] < S[c]["seq"] \
                        and mailbox(self, M[a]) == "large" and mailbox(self, M[c]) == "small" \
                        and any(Explorer.compatible(S[a], R[r]) and Explorer.compatible(S[c], R[r]) for r in R):
                    return "send-side"
        for r1 in R:
            for r2 in R:
                if (R[r1]["rank"], R[r1]["comm"]) == (R[r2]["rank"], R[r2]["comm"]) and R[r1]["seq"] < R[r2]["seq"] \
                        and M[r1]["cap"] * M[r1]["tsize"] < self.thr[0] <= M[r2]["cap"] * M[r2]["tsize"] \
                        and any(eager_size(self, M[x]) and Explorer.compatible(S[x], R[r1]) and Explorer.compatible(S[x], R[r2]) for x in S):
                    return "recv-side"
        return None

    def refused_candidates(self):
        """(receive r, refused A, accepted B, predecessor P) shapes in which SMPI's receive EXAMINES a candidate A that it must refuse (A's
        per-tag sequence number is not the next one: its same-envelope predecessor P waits in the 'large' mailbox) and then accepts a
        message B queued behind A in the 'small' mailbox.  Whatever examining A does to the request must be undone.  Kinds:
        'smaller' (A shorter than B and B fits the buffer: a stale size would truncate B), 'oversized' (A larger than the buffer: a stale
        truncation mark, known finding)."""
        if self.thr[0] <= 0:
            return []
        M, S, R = self.msgs, self.sends, self.recvs
        res = []
        for r in R:
            capb = M[r]["cap"] * M[r]["tsize"]
            for a in S:
                if not (Explorer.compatible(S[a], R[r]) and mailbox(self, M[a]) == "small"):
                    continue
                pred = [p for p in S if (S[p]["rank"], S[p]["dst"], S[p]["comm"], S[p]["tag"]) == (S[a]["rank"], S[a]["dst"], S[a]["comm"], S[a]["tag"])
                        and S[p]["seq"] < S[a]["seq"] and mailbox(self, M[p]) == "large"]
                if not pred:
                    continue
                for c in S:
                    if c == a or not Explorer.compatible(S[c], R[r]) or mailbox(self, M[c]) != "small" or M[c]["nbytes"] > capb:
                        continue
                    if S[c]["rank"] == S[a]["rank"] and (S[c]["seq"] < S[a]["seq"] or S[c]["tag"] == S[a]["tag"]):
                        continue
                    if M[a]["nbytes"] < M[c]["nbytes"]:
                        res.append((r, a, c, pred[0], "smaller"))
                    elif M[a]["nbytes"] > capb:
                        res.append((r, a, c, pred[0], "oversized"))
        return res

    def blocked_sig(self, default):
        if self.across_thresh():
            return "deadlock:truncation-across-async-thresh"
        risk = self.two_mailbox_risk()
        if risk:
            return "deadlock:two-mailboxes:" + risk
        return default

    def size_class(self, nbytes):
        return "eager" if nbytes < self.thr[0] else ("detached" if nbytes < self.thr[1] else "rendezvous")


# ---------------------------------------------------------------------------------------------
# The validity predicate
MULTI = ("waitall", "testall", "waitsome", "testsome")


def eager_size(b, m):
    """is the message looked for in the 'large' mailbox FIRST by its sender (every mode, Ssend included, when it is smaller than
    smpi/async-small-thresh) ?"""
    return b.thr[0] > 0 and m["nbytes"] < b.thr[0]


def mailbox(b, m):
    """which of SMPI's two mailboxes of the receiver an unexpected message waits in (used in signatures only)"""
    return "small" if (b.thr[0] > 0 and m["mode"] != "ssend" and m["nbytes"] < b.thr[0]) else "large"


def judge(b, res, oc, E):
    """b: Build, res: mpi.Result of b.driver_case().  Appends violations to oc."""
    M = b.msgs
    K = b.K
    OK, TRUNC, INSTATUS = E.SUCCESS, E.ERR_TRUNCATE, E.ERR_IN_STATUS
    obs = {}            # k -> observation of the receive intended for message k
    peeks = []

    def bad(sig, msg):
        oc.bad(sig, msg)

    for p in range(b.np):
        for j, op in enumerate(b.ops[p]):
            t = op["t"]
            rec = res.get(p, b.index[(p, j)])
            if rec is None:
                bad("not-executed", "rank %d did not report its operation #%d %s" % (p, j, op))
                return
            if "exc" in rec:
                bad("exception:" + t, "rank %d, %s: the MPI call threw: %s" % (p, op, rec["exc"]))
                return
            if t in ("send", "isend"):
                if rec["rc"] != OK:
                    bad("send-rc:" + M[op["k"]]["mode"], "rank %d: %s of message %d returned %s" % (p, t, op["k"], rec["rc"]))
            elif t == "irecv":
                if rec["rc"] != OK:
                    bad("irecv-rc", "rank %d: MPI_Irecv for message %d returned %s" % (p, op["k"], rec["rc"]))
            elif t == "recv":
                obs[op["k"]] = dict(rec, kind="recv", cap=M[op["k"]]["cap"], others_trunc=False)
            elif t == "sendrecv":
                obs[op["kr"]] = dict(rec, kind="sendrecv", cap=M[op["kr"]]["cap"], others_trunc=False)
            elif t == "precv":
                kind = op["mode"] + "+recv"
                if rec.get("gaveup"):
                    bad(b.blocked_sig("progress:iprobe"), "rank %d: %d calls of MPI_Iprobe%s never saw the message although the program cannot block"
                        % (p, rec["calls"], b.show_pattern(op["k"])))
                    return
                if "cap" not in rec:
                    bad("probe:status", "rank %d: MPI_Probe%s returned rc=%s and an unusable status %s" % (p, b.show_pattern(op["k"]), rec.get("rc"), rec.get("p")))
                    return
                obs[op["k"]] = dict(rec, kind=kind, others_trunc=False)
            elif t == "peek":
                peeks.append((p, op, rec))
            elif t == "complete":
                mode = op["mode"]
                if "bad" in rec:
                    what = "undefined-index" if "MPI_UNDEFINED" in rec["bad"] else "protocol"
                    kinds = "+".join(sorted(set("send" if w == "s" else "recv" for w, _ in op["reqs"])))
                    bad("complete:%s:%s:%s" % (mode, what, kinds), "rank %d, MPI_%s over the requests %s: %s" % (p, mode.capitalize(), op["reqs"], rec["bad"]))
                if rec.get("gaveup"):
                    bad(b.blocked_sig("progress:" + mode), "rank %d: %d calls of MPI_%s did not complete %s although the program cannot block"
                        % (p, rec["calls"], mode.capitalize(), op["reqs"]))
                    return
                evs = {tuple((e["req"][1], int(e["req"][2:]))): e for e in rec["ev"]}
                if set(evs) != set(map(tuple, op["reqs"])):
                    bad("complete:%s:protocol" % mode, "rank %d, MPI_%s: completions %s, expected those of %s" % (p, mode.capitalize(), sorted(evs), op["reqs"]))
                    return
                for (w, k), e in evs.items():
                    if not e["null"]:
                        bad("request-not-null:" + mode, "rank %d: the request of %s %d is not MPI_REQUEST_NULL after MPI_%s completed it"
                            % (p, "send" if w == "s" else "receive", k, mode.capitalize()))
                    if e.get("fallback"):
                        e = dict(e, call=-1)
                    if w == "r":
                        obs[k] = dict(e, kind="wait" if e.get("fallback") else mode, cap=M[k]["cap"], call=e["call"], callset=(p, j))
                    else:
                        obs[("s", k)] = dict(e, kind=mode, call=e["call"], callset=(p, j))
    missing = [m["k"] for m in M if m["k"] not in obs]
    if missing:
        bad("not-executed", "no completion recorded for the receives of messages %s" % missing)
        return

    # ---- 1. status source and tag are legal and compatible with the pattern; identification of the message
    classes = {}
    nonfatal = len(oc.violations)      # violations so far do not prevent the identification of the messages
    for m in M:
        k = m["k"]
        o = obs[k]
        members = m["members"]
        psrc, ptag = b.pattern(k)
        selfs = ":self" if m["selfmsg"] else ""
        if o["kind"] in ("testall", "testsome", "waitsome") and o["src"] == K.ANY_SOURCE and o["tag"] == K.ANY_TAG:
            bad(o["kind"] + ":empty-status", "rank %d, MPI_%s (call #%d of the loop) returned an EMPTY status (source MPI_ANY_SOURCE, tag MPI_ANY_TAG) "
                "for%s" % (m["d"], o["kind"].capitalize(), o["call"], b.show_pattern(k)))
            continue
        if m["selfmsg"] and o["kind"] == "sendrecv" and psrc is not None and not (isinstance(o["src"], int) and 0 <= o["src"] < len(members)
                                                                                   and members[o["src"]] == psrc):
            # MPI_Sendrecv with oneself names its source: report the wrong status and go on with the named source
            bad("status:source:sendrecv:self", "rank %d, sendrecv for%s: status.MPI_SOURCE = %s instead of %d"
                % (m["d"], b.show_pattern(k), o["src"], members.index(psrc)))
            nonfatal += 1
            tag_ = o["tag"] if ptag is None else ptag
            if ptag is None and not (isinstance(tag_, int) and tag_ >= 0):
                bad("status:tag:sendrecv:self", "rank %d, sendrecv for%s: status.MPI_TAG = %s" % (m["d"], b.show_pattern(k), tag_))
                nonfatal += 1
                tag_ = m["tag"]
            classes.setdefault((m["d"], m["comm"], psrc, tag_), []).append(k)
            continue
        if m["selfmsg"] and o["kind"] == "sendrecv" and ptag is None and not (isinstance(o["tag"], int) and o["tag"] >= 0) \
                and isinstance(o["src"], int) and 0 <= o["src"] < len(members):
            bad("status:tag:sendrecv:self", "rank %d, sendrecv for%s: status.MPI_TAG = %s" % (m["d"], b.show_pattern(k), o["tag"]))
            nonfatal += 1
            classes.setdefault((m["d"], m["comm"], members[o["src"]], m["tag"]), []).append(k)
            continue
        if not (isinstance(o["src"], int) and 0 <= o["src"] < len(members)):
            bad("status:source:" + o["kind"] + selfs, "rank %d, %s for%s: status.MPI_SOURCE = %s is not a rank of the communicator %s"
                % (m["d"], o["kind"], b.show_pattern(k), o["src"], members))
            continue
        src = members[o["src"]]
        if psrc is not None and src != psrc:
            bad("status:source:" + o["kind"] + selfs, "rank %d, %s for%s: status.MPI_SOURCE = %d (world rank %d)" % (m["d"], o["kind"], b.show_pattern(k), o["src"], src))
            continue
        if (ptag is not None and o["tag"] != ptag) or not isinstance(o["tag"], int) or o["tag"] < 0:
            bad("status:tag:" + o["kind"], "rank %d, %s for%s: status.MPI_TAG = %s" % (m["d"], o["kind"], b.show_pattern(k), o["tag"]))
            continue
        classes.setdefault((m["d"], m["comm"], src, o["tag"]), []).append(k)
    if len(oc.violations) > nonfatal:
        return
    crc = {}
    for p, (i, names) in b.crc_index.items():
        rec = res.get(p, i)
        if rec is None:
            bad("not-executed", "rank %d did not report the final buffer check" % p)
            return
        for name, r in zip(names, rec["res"]):
            crc[int(name[1:])] = r

    def fits(r, s_):
        """does what receive r observed (count, bytes, truncation) look like message s_ ?"""
        o, m, sm_ = obs[r], M[r], M[s_]
        c = crc.get(r)
        if c is None:
            return False
        if sm_["count"] > o["cap"]:
            return o["rc"] == TRUNC or o["err"] == TRUNC
        if o["count"] != sm_["count"] or o["rc"] == TRUNC or o["err"] == TRUNC:
            return False
        capb = o["cap"] * m["tsize"]
        return c[1] == zlib.crc32(pat_bytes(seed_for(sm_["k"], sm_["s"]), sm_["s"], sm_["nbytes"]) + bytes([FILL]) * (capb - sm_["nbytes"]))

    got = {}            # receive k -> message it holds
    for (q, comm, src, tag), rks in sorted(classes.items()):
        sks = sorted((s for s in b.sends if b.sends[s]["dst"] == q and b.sends[s]["comm"] == comm and b.sends[s]["rank"] == src
                      and b.sends[s]["tag"] == tag), key=lambda s: b.sends[s]["seq"])
        rks.sort(key=lambda r: b.recvs[r]["seq"])
        if len(rks) > len(sks):
            bad("phantom-message", "rank %d completed %d receives with status (source world rank %d, tag %d) on communicator %s but only %d such "
                "messages were sent to it: receives for %s, messages %s" % (q, len(rks), src, tag, comm[1], len(sks), rks, sks))
            return
        pairs = list(zip(rks, sks))
        if 2 <= len(rks) <= 5 and len(rks) == len(sks) and not all(fits(r, s_) for r, s_ in pairs):
            # the k-th receive of this envelope does not hold the k-th message: is it a permutation of the messages ?
            import itertools
            for perm in itertools.permutations(sks):
                if all(fits(r, s_) for r, s_ in zip(rks, perm)):
                    def rbox(r):
                        return "small" if (b.thr[0] > 0 and obs[r]["cap"] * M[r]["tsize"] < b.thr[0]) else "large"
                    # first inversion: receives ri < rj holding messages sb > sa
                    inv_ = [(ri_, rj_) for x, ri_ in enumerate(rks) for rj_ in rks[x + 1:]
                            if b.sends[perm[rks.index(ri_)]]["seq"] > b.sends[perm[rks.index(rj_)]]["seq"]]
                    ri_, rj_ = inv_[0]
                    sa_, sb_ = perm[rks.index(rj_)], perm[rks.index(ri_)]
                    cause = ("truncation-across-async-thresh" if obs[ri_]["cap"] * M[ri_]["tsize"] < b.thr[0] <= M[sa_]["nbytes"] else
                             "two-mailboxes:recv-side" if (rbox(ri_), rbox(rj_)) == ("small", "large") and eager_size(b, M[sa_]) else "other")
                    bad("overtaking:%s:same-envelope:recv-%s>%s:msg-%s>%s" % (cause, rbox(ri_), rbox(rj_), mailbox(b, M[sa_]), mailbox(b, M[sb_])),
                        "world rank %d sent the messages %s (in this order, all with tag %d, sizes %s bytes, modes %s) to world rank %d on communicator %s, "
                        "which posted the receives %s in this order (capacities %s bytes, kinds %s); they hold the messages %s: the order is not "
                        "preserved  [smpi/async-small-thresh:%d smpi/send-is-detached-thresh:%d]"
                        % (src, sks, tag, [M[x]["nbytes"] for x in sks], [M[x]["mode"] for x in sks], q, comm[1], rks,
                           [obs[r]["cap"] * M[r]["tsize"] for r in rks], [obs[r]["kind"] for r in rks], list(perm), b.thr[0], b.thr[1]))
                    pairs = list(zip(rks, perm))
                    break
        for r, s_ in pairs:
            got[r] = s_
    if len(set(got.values())) != len(M):
        bad("phantom-message", "the completed receives do not account for every message exactly once: %s" % got)
        return

    # ---- 2. per receive: truncation, count, bytes
    # which multi-completion calls returned a truncated receive
    trunc_in_call = set()
    for m in M:
        k = m["k"]
        o = obs[k]
        if M[got[k]]["count"] > o["cap"] and o["kind"] in MULTI:
            trunc_in_call.add((o["callset"], o["call"]))
    def sticky_candidates(k, s, o, m):
        """known finding, kept NARROW: an OVERSIZED candidate that SMPI examines and must refuse (its same-envelope predecessor waits in
        the other mailbox) leaves its truncation mark on the receive; the message itself arrives complete (count and bytes right)"""
        c_ = crc.get(k)
        intact = (o["count"] == s["count"] and o["crc"] == OK and c_ is not None and c_[2] and
                  c_[1] == zlib.crc32(pat_bytes(seed_for(s["k"], s["s"]), s["s"], s["nbytes"]) + bytes([FILL]) * (o["cap"] * m["tsize"] - s["nbytes"])))
        if not intact:
            return []
        return sorted(set(a_ for r_, a_, c2, p_, kind_ in b.refused_candidates() if r_ == k and kind_ == "oversized"))

    for m in M:
        k = m["k"]
        o = obs[k]
        s = M[got[k]]
        kind = o["kind"]
        where = "rank %d, %s for%s (capacity %d x %s) matched message %d (%d x %s from world rank %d, tag %d, %s, %s)" % (
            m["d"], kind, b.show_pattern(k), o["cap"], m["tname"], s["k"], s["count"], s["tname"], s["s"], s["tag"], s["mode"],
            b.size_class(s["nbytes"]))
        truncated = s["count"] > o["cap"]
        rc, err = o["rc"], o["err"]
        if kind in MULTI:
            call_has_trunc = (o["callset"], o["call"]) in trunc_in_call
            reported = rc == INSTATUS and err == TRUNC
            if truncated and not reported:
                bad(("trunc-rc:" if err == TRUNC else "trunc-missed:") + kind, "%s: oversized, but the call returned %s with status.MPI_ERROR = %s "
                    "(expected MPI_ERR_IN_STATUS = %s and MPI_ERR_TRUNCATE = %s)" % (where, rc, err, INSTATUS, TRUNC))
            elif not truncated and err == TRUNC and sticky_candidates(k, s, o, m):
                bad("trunc-spurious:sticky-after-refused-candidate", "%s: the message fits, but status.MPI_ERROR = MPI_ERR_TRUNCATE (call returned %s); "
                    "the larger messages %s also fit the pattern of this receive  [smpi/async-small-thresh:%d]"
                    % (where, rc, sticky_candidates(k, s, o, m), b.thr[0]))
            elif not truncated and ((not call_has_trunc and rc != OK) or err == TRUNC):
                # (when another receive of the same call IS truncated, the return code is judged there)
                bad("trunc-spurious:" + kind, "%s: the message fits, but the call returned %s with status.MPI_ERROR = %s" % (where, rc, err))
        else:
            if truncated and rc != TRUNC:
                bad(("trunc-rc:" + kind) if err == TRUNC else ("trunc-missed:" + kind + (":self" if m["selfmsg"] else "")), "%s: oversized, but the call returned %s (status.MPI_ERROR = %s), "
                    "expected MPI_ERR_TRUNCATE = %s" % (where, rc, err, TRUNC))
            elif not truncated and rc != OK:
                sticky = sticky_candidates(k, s, o, m)
                if rc == TRUNC and sticky:
                    # Request::match_common marks the receive truncated while it EXAMINES an oversized candidate that is then refused
                    # (not the next one of its tag: its predecessor waits in the other mailbox); the mark is never cleared
                    bad("trunc-spurious:sticky-after-refused-candidate", "%s: the message fits, but the call returned MPI_ERR_TRUNCATE; the larger "
                        "messages %s also fit the pattern of this receive  [smpi/async-small-thresh:%d]" % (where, sticky, b.thr[0]))
                else:
                    bad("trunc-spurious:" + kind if rc == TRUNC else "recv-rc:" + kind, "%s: the message fits, but the call returned %s" % (where, rc))
        if "p" in o:        # probe + receive: the probe announces the message that the receive then gets
            pr = o["p"]
            if (pr["src"], pr["tag"]) != (o["src"], o["tag"]):
                bad("probe:other-message", "%s: the probe announced (source %s, tag %s), the receive from exactly that source and tag reports (%s, %s)"
                    % (where, pr["src"], pr["tag"], o["src"], o["tag"]))
            elif pr["count"] != s["count"] or pr["crc"] != OK:
                bad("probe:count", "%s: the probe announced %s elements (MPI_Get_count rc %s)" % (where, pr["count"], pr["crc"]))
        c = crc.get(k)
        if c is None:
            bad("not-executed", "no buffer check for the receive of message %d" % k)
            continue
        size, chead, guards, head8, ctail = c
        capb = o["cap"] * m["tsize"]
        if not guards:
            bad("buffer-overrun:" + kind, "%s: bytes outside the %d-byte receive buffer were overwritten" % (where, size))
            continue
        if size != capb + SLACK:
            raise RuntimeError("buffer size bookkeeping: %s != %s" % (size, capb + SLACK))
        if ctail != zlib.crc32(bytes([FILL]) * SLACK):
            bad("buffer-overrun:" + kind, "%s: the %d bytes after the receive capacity were overwritten" % (where, SLACK))
            continue
        if truncated:
            continue          # neither the count nor the content of a truncated receive is specified
        if o["count"] != s["count"] or o["crc"] != OK:
            bad("status:count:" + kind, "%s: MPI_Get_count = %s (rc %s), expected %d" % (where, o["count"], o["crc"], s["count"]))
        payload = pat_bytes(seed_for(s["k"], s["s"]), s["s"], s["nbytes"])
        expect = payload + bytes([FILL]) * (capb - s["nbytes"])
        if chead != zlib.crc32(expect):
            other = None
            for x in M:
                if x["k"] != s["k"] and x["d"] == m["d"] and x["nbytes"] <= capb and x["nbytes"] > 0:
                    if chead == zlib.crc32(pat_bytes(seed_for(x["k"], x["s"]), x["s"], x["nbytes"]) + bytes([FILL]) * (capb - x["nbytes"])):
                        other = x
                        break
            if other is not None:
                same = (other["s"], other["tag"], other["comm"]) == (s["s"], s["tag"], s["comm"])
                bad("data:other-message" + (":same-envelope" if same else ""), "%s: the buffer holds the bytes of message %d (from world rank %d, tag %d) "
                    "instead" % (where, other["k"], other["s"], other["tag"]))
            else:
                bad("data:corrupt:" + kind, "%s: wrong bytes in the receive buffer (first bytes %s, expected %s)" % (where, head8, expect[:8].hex()))

    # ---- 3. non-overtaking between messages of one sender that one receive could both match (different tags: same tags are
    # ordered by construction of `got`, a swap shows as data:other-message:same-envelope)
    inv = {s: r for r, s in got.items()}
    for a in M:
        for c in M:
            sa, sb = b.sends[a["k"]], b.sends[c["k"]]
            if not (sa["rank"] == sb["rank"] and sa["comm"] == sb["comm"] and sa["dst"] == sb["dst"] and sa["seq"] < sb["seq"]
                    and sa["tag"] != sb["tag"]):
                continue
            rb = inv[c["k"]]
            ra = inv[a["k"]]
            if Explorer.compatible(sa, b.recvs[rb]) and b.recvs[ra]["seq"] > b.recvs[rb]["seq"]:
                kind = obs[rb]["kind"]

                def rbox(r):
                    return "small" if (b.thr[0] > 0 and obs[r]["cap"] * M[r]["tsize"] < b.thr[0]) else "large"
                # the two known mechanisms (SMPI keeps two mailboxes per receiver: 'small' for eager messages and receives smaller than
                # smpi/async-small-thresh, 'large' for the rest)
                blocked = [x for x in M if b.sends[x["k"]]["rank"] == sa["rank"] and b.sends[x["k"]]["comm"] == sa["comm"]
                           and b.sends[x["k"]]["dst"] == sa["dst"] and b.sends[x["k"]]["seq"] <= sa["seq"] and mailbox(b, x) == "large"
                           and Explorer.compatible(b.sends[x["k"]], b.recvs[rb]) and b.recvs[inv[x["k"]]]["seq"] > b.recvs[rb]["seq"]]
                if obs[rb]["cap"] * M[rb]["tsize"] < b.thr[0] <= a["nbytes"]:
                    # the receive is smaller than smpi/async-small-thresh and the first message is not: SMPI never lets them meet
                    # (the oversized message should have been delivered, truncated, to this receive)
                    cause = "truncation-across-async-thresh"
                elif mailbox(b, c) == "small" and blocked:
                    # the first message (or an earlier one with its tag, which SMPI's per-tag sequence numbers make it wait for) sits in
                    # the 'large' mailbox, the second one in the 'small' mailbox, which receives look at first
                    cause = "two-mailboxes:send-side"
                elif (rbox(rb), rbox(ra)) == ("small", "large") and eager_size(b, a):
                    cause = "two-mailboxes:recv-side"
                else:
                    cause = "other"
                bad("overtaking:%s:msg-%s>%s:recv-%s>%s" % (cause, mailbox(b, a), mailbox(b, c), rbox(rb), rbox(ra)),
                    "world rank %d sent message %d (tag %d, %d bytes, %s, %s) then message %d (tag %d, %d bytes, %s, %s) to world rank %d on communicator "
                    "%s; its receive%s (%s) could match both and got the SECOND one while the first one went to a receive posted later%s  "
                    "[smpi/async-small-thresh:%d smpi/send-is-detached-thresh:%d]"
                    % (a["s"], a["k"], a["tag"], a["nbytes"], a["mode"], b.size_class(a["nbytes"]), c["k"], c["tag"], c["nbytes"], c["mode"],
                       b.size_class(c["nbytes"]), a["d"], a["comm"][1], b.show_pattern(rb), kind, b.show_pattern(ra), b.thr[0], b.thr[1]))

    # ---- 4. single MPI_Iprobe calls: a positive answer describes a message that was sent to this rank and fits the pattern
    for p, op, rec in peeks:
        if rec.get("flag") not in (0, 1) or rec["rc"] != OK:
            bad("iprobe:flag", "rank %d: MPI_Iprobe%s returned rc=%s flag=%s" % (p, b.show_pattern(op["k"]), rec["rc"], rec.get("flag")))
        elif rec["flag"] == 1:
            m = M[op["k"]]
            psrc, ptag = b.pattern(op["k"])
            ok = False
            for x in M:
                if x["d"] == p and x["comm"] == m["comm"] and 0 <= rec["src"] < len(m["members"]) and m["members"][rec["src"]] == x["s"] \
                        and x["tag"] == rec["tag"] and (psrc is None or psrc == x["s"]) and (ptag is None or ptag == x["tag"]) \
                        and rec.get("count") == x["count"]:
                    ok = True
            if not ok:
                bad("iprobe:phantom", "rank %d: MPI_Iprobe%s announced (source %s, tag %s, count %s): no such message is ever sent to this rank"
                    % (p, b.show_pattern(op["k"]), rec["src"], rec["tag"], rec.get("count")))
    b.got = got
    # ---- 5. the observed matching must be one of those the explorer found (all the matchings MPI allows, whatever the timing): this
    # also covers what the local rules above cannot decide (e.g. the receive-side rule between messages of different senders)
    if not oc.violations and got not in b.explorer.totals:
        cause = b.two_mailbox_risk()
        diff = {r: s_ for r, s_ in got.items() if all(t.get(r) != s_ for t in b.explorer.totals)}
        bad("matching-not-allowed" + (":two-mailboxes:" + cause if cause else ""),
            "the observed matching {receive: message} = %s is none of the %d matchings MPI allows for this program (pairs that occur in no "
            "allowed matching: %s)" % (dict(sorted(got.items())), len(b.explorer.totals), diff))


def _show_pattern(self, k):
    m = self.msgs[k]
    src, tag = self.pattern(k)
    return " the receive #%d (source %s, tag %s, communicator %s)" % (
        k, "ANY" if src is None else "%d" % m["members"].index(src), "ANY" if tag is None else tag, list(m["comm"][1]))


Build.show_pattern = _show_pattern
