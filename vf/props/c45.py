"""C45 Random draws are in range, unbiased and portable."""
import math

from hypothesis import strategies as st

from .. import core, xbt1

IMIN, IMAX = -2 ** 31, 2 ** 31 - 1
M32 = xbt1.M32


def range_sizes():
    """number of values of [min, max], aimed at the corners of the rejection scheme."""
    pow2 = st.integers(0, 32).flatmap(lambda k: st.sampled_from([2 ** k - 1, 2 ** k, 2 ** k + 1]))
    frac = st.integers(1, 12).flatmap(lambda k: st.sampled_from([(2 ** 32) // k - 1, (2 ** 32) // k, (2 ** 32) // k + 1,
                                                                  (2 ** 32 - 1) // k, (2 ** 32 - 1) // k + 1]))
    big = st.integers(2 ** 31 - 3, 2 ** 32)
    return st.one_of(st.integers(1, 20), pow2, frac, big, st.integers(1, 2 ** 32)).map(lambda s: min(max(s, 1), 2 ** 32))


@st.composite
def int_bounds(draw):
    size = draw(range_sizes())
    hi_min = IMAX - (size - 1)
    mn = draw(st.one_of(st.just(IMIN), st.just(hi_min), st.integers(IMIN, hi_min),
                        st.sampled_from([0, -1, 1, -size // 2]).map(lambda v: min(max(v, IMIN), hi_min))))
    return mn, mn + size - 1


FIN = dict(allow_nan=False, allow_infinity=False)


@st.composite
def real_bounds(draw):
    a = draw(st.one_of(st.sampled_from([0.0, 1.0, -1.0, 1e-300, 1e10, -1e10, 1e280, -1e280, 5e-324]),
                       st.floats(min_value=-1e290, max_value=1e290, **FIN),
                       st.floats(min_value=-1e6, max_value=1e6, **FIN)))
    how = draw(st.integers(0, 5))
    if how == 0:
        b = a
    elif how == 1:
        b = math.nextafter(a, math.inf)
    elif how == 2:
        b = a + abs(a) * draw(st.sampled_from([1e-15, 1e-12, 1e-6, 1.0])) + draw(st.sampled_from([0.0, 1e-300, 1.0]))
    elif how == 3 and draw(st.integers(0, 9)) == 0:
        b = draw(st.sampled_from([1e300, -1e300, 1.7e308]))     # width * 2^32 overflows: see the known finding
    else:
        b = draw(st.floats(min_value=-1e290, max_value=1e290, **FIN))
    mn, mx = min(a, b), max(a, b)
    if not math.isfinite(mx - mn):        # out of the domain: max - min must be a finite double
        mx = mn + 1.0
    return mn, mx


def forced_for(op):
    """engine outputs that sit on the decision boundaries of `op` (generator-side targeting only)."""
    base = [0, 1, M32, M32 - 1, 2 ** 31, 2 ** 31 - 1]
    if op[0] == "int":
        rng = op[2] - op[1] + 1
        if rng <= M32:
            lim = M32 - M32 % rng
            base += [lim - 1, lim, lim + 1, rng - 1, rng, rng + 1, lim - rng, lim - rng - 1]
    return [v for v in base if 0 <= v <= M32]


@st.composite
def cases(draw):
    api = draw(st.sampled_from(["global", "object"]))
    seed = draw(st.one_of(st.none(), st.sampled_from([0, 1, -1, 12345, 5489, IMIN, IMAX, 42]), st.integers(IMIN, IMAX)))
    nops = draw(st.integers(1, 6))
    ops = []
    saved = False
    for _ in range(nops):
        k = draw(st.sampled_from(["int", "int", "int", "real", "real", "exp", "norm", "save", "restore", "raw"]))
        n = draw(st.sampled_from([1, 2, 3, 3, 10, 10, 40, 40, 40, 700]))        # 700: the engine regenerates its state (624 words) on the way
        if k == "int":
            mn, mx = draw(int_bounds())
            ops.append(["int", mn, mx, n])
        elif k == "real":
            mn, mx = draw(real_bounds())
            ops.append(["real", mn, mx, n])
        elif k == "exp":
            ops.append(["exp", draw(st.one_of(st.sampled_from([1.0, 25.0, 1e-3, 1e6]), st.floats(min_value=1e-6, max_value=1e6, **FIN))), n])
        elif k == "norm":
            ops.append(["norm", draw(st.floats(min_value=-1e6, max_value=1e6, **FIN)), draw(st.floats(min_value=0.0, max_value=1e6, **FIN)), n])
        elif k == "save":
            ops.append(["save"])
            saved = True
        elif k == "restore":
            if saved:
                ops.append(["restore"])
        elif k == "raw" and api == "object":
            ops.append(["raw", n])
    if not ops:
        ops.append(["int", 1, 6, 3])
    forced = None
    if draw(st.integers(0, 2)) == 0:
        first = next((o for o in ops if o[0] in ("int", "real", "exp", "norm")), None)
        cands = forced_for(first) if first else [0, M32]
        vals = draw(st.lists(st.one_of(st.sampled_from(cands), st.sampled_from(cands), st.integers(0, M32)), min_size=1, max_size=8))
        forced = {"out": vals, "fill": draw(st.integers(0, 1000)), "p": draw(st.sampled_from([0, 0, 0, 600, 620, 623]))}
    return {"api": api, "seed": seed, "forced": forced, "ops": ops}


def build_state(forced):
    """624 state words: the first outputs after position p are the forced ones, the rest comes from a filler MT."""
    fill = xbt1.MT19937(forced["fill"])
    words = [fill.next() for _ in range(624)]
    p = forced["p"]
    for i, v in enumerate(forced["out"]):
        if p + i < 624:
            words[p + i] = xbt1.untemper(v)
    return words, p


def hexval(h):
    if h in ("inf", "-inf"):
        return float(h)
    if "nan" in h:
        return float("nan")
    return float.fromhex(h)


class C45(core.Prop):
    id = "C45"
    drivers = ["random_driver"]
    sizes = {"quick": 5000, "thorough": 200000}
    max_workers = 14
    technique = ("property-based testing (Hypothesis): an independent MT19937 + the documented rejection scheme (Python) must reproduce "
                 "every draw of simgrid::xbt::random exactly, with engine states crafted to sit on the rejection boundaries")
    rule = ("A case = (API: global functions with the default xbt implementation | an XbtRandom object) x seed (none=default 5489, 0, -1, "
            "INT_MIN/MAX, random) x optional crafted engine state (loaded through read_state: the next engine outputs are forced to values "
            "on the decision boundaries of the first drawing op: limit-1, limit, limit+1, 2^32-1, 0, range, range+-1; start position 0 or just "
            "before a twist) x 1-6 ops among uniform_int(min,max) x n, uniform_real x n, exponential, normal, raw engine output, "
            "write_state/read_state. Integer ranges: sizes 1..20, 2^k and 2^k+-1 for all k<=32, floor(2^32/k)+-1 for k<=12, >=2^31, "
            "anywhere in [INT_MIN, INT_MAX] incl. both ends; real bounds: equal, adjacent doubles, tiny relative width, huge magnitudes, "
            "max-min finite. Oracle: (1) INT: min<=v<=max and v == model exactly; REAL: min<=v<=max and |v-model|<=4 ulp; exp/normal "
            "within 1e-12 relative; (2) the engine output following the last op equals the model's (every op consumed exactly the modelled "
            "number of outputs); (3) for every integer range met, the model's acceptance bound is a positive multiple of the range size "
            "(each value has the same number of pre-images among accepted engine outputs => unbiased), and agreement of the sequences "
            "incl. rejected outputs shows SimGrid uses that bound. The reference reproduces the golden values of upstream's random_test.cpp "
            "(fixed case). Non-trivial: at least one engine output was rejected by a uniform_int draw. Distinct = distinct canonical JSON.")
    assumptions = ["min <= max (uniform_int asserts it) and max-min representable as a finite double are preconditions (out of the domain)",
                   "std::mt19937 itself is trusted to be the Mersenne Twister of ISO C++ [rand.predef] (and is cross-checked against the "
                   "Python re-implementation through the raw outputs); the textual state format (624 words + position) is libstdc++'s",
                   "exponential/normal go through libm's log/sqrt/cos: compared with a 1e-12 relative tolerance, not bit for bit",
                   "'for all 32-bit ranges' is sampled (all 2^k and 2^k+-1, 2^32/k neighbourhoods, random), not proved"]
    ready = True

    def strategy(self, tier):
        return cases()

    def fixed_cases(self, tier):
        golden = [["exp", 25.0, 1], ["int", 1, 6, 1], ["real", 0.0, 1.0, 1], ["norm", 0.0, 2.0, 1], ["int", 0, 0, 1], ["int", IMIN, IMIN, 1],
                  ["int", IMAX, IMAX, 1], ["int", -6, -1, 1], ["int", -10, 10, 1], ["int", IMIN, 2, 1], ["int", -2, IMAX, 1], ["int", IMIN, IMAX, 1]]
        res = [{"api": a, "seed": 12345, "forced": None, "ops": golden, "golden": True} for a in ("global", "object")]
        # every power-of-two neighbourhood, 100 draws each, both ends of the int range
        for k in range(0, 33):
            for size in (2 ** k - 1, 2 ** k, 2 ** k + 1):
                if 1 <= size <= 2 ** 32:
                    res.append({"api": "object", "seed": k, "forced": None,
                                "ops": [["int", IMIN, IMIN + size - 1, 50], ["int", IMAX - size + 1, IMAX, 50]]})
        # rejection boundary forced exactly, for a few ranges
        for size in (3, 6, 7, 1000, 2 ** 31 + 1, 2 ** 32 - 1, 3 * 2 ** 30):
            lim = M32 - M32 % size
            res.append({"api": "object", "seed": 1, "forced": {"out": [lim, lim - 1, M32, lim + 1 if lim < M32 else 0, 0], "fill": 7, "p": 0},
                        "ops": [["int", 0 if size <= 2 ** 31 else IMIN, (0 if size <= 2 ** 31 else IMIN) + size - 1, 3]]})
        res.append({"api": "global", "seed": 1, "forced": {"out": [M32, M32, 0, M32 - 1], "fill": 7, "p": 0}, "ops": [["real", 0.0, 1.0, 3]]})
        return res

    GOLDEN = [0.00291934351538427348, 4, 0.31637556043369124970, 1.62746784745133976635, 0, IMIN, IMAX, -3, 7, -163525263, 1605979225, 659577591]

    def check(self, case):
        oc = core.Outcome()
        req = {"api": case["api"], "seed": case["seed"], "state": None, "ops": case["ops"]}
        seed = case["seed"]
        mt = xbt1.MT19937(5489 if seed is None else seed & M32)
        if case.get("forced"):
            words, p = build_state(case["forced"])
            req["state"] = {"x": words, "p": p}
            mt.set_state(words, p)
            oc.labels.append("forced-state")
        model = xbt1.XbtRandomModel(mt)
        r = core.serve("random_driver", req, cpu=20, wall=120)
        if r.wall_exceeded:
            raise core.Inconclusive()
        out = None
        for o in r.json_lines():
            if isinstance(o, dict) and ("draws" in o or "error" in o):
                out = o
        if r.rc != 0 or out is None or "error" in out:
            oc.bad("crash", "random_driver ended with rc=%s cpu_exceeded=%s out=%s; stderr tail: %s" % (r.rc, r.cpu_exceeded, out, r.err[-800:]))
            return oc
        oc.labels.append("api:" + case["api"])
        oc.labels.append("seed:default" if seed is None else "seed:given")
        saved = None
        rej_int = 0
        flat = []
        for op, got in zip(case["ops"], out["draws"]):
            k = op[0]
            where = "%s seed=%s op %s" % (case["api"], seed, op)
            if k == "int":
                mn, mx, n = op[1], op[2], op[3]
                size = mx - mn + 1
                if size <= M32:
                    lim = xbt1.XbtRandomModel.int_limit(size)
                    if lim <= 0 or lim % size != 0:
                        oc.bad("model-biased", "reference acceptance bound %d is not a positive multiple of the range size %d" % (lim, size))
                    oc.labels.append("int:divides-2^32" if (2 ** 32) % size == 0 else "int:rejecting-range")
                else:
                    oc.labels.append("int:full-range")
                if size >= 2 ** 31:
                    oc.labels.append("int:size>=2^31")
                if mn == IMIN or mx == IMAX:
                    oc.labels.append("int:at-INT_MIN/MAX")
                before = model.rejected
                for i in range(n):
                    want = model.uniform_int(mn, mx)
                    v = got[i]
                    flat.append(v)
                    if not (mn <= v <= mx):
                        oc.bad("int-out-of-range", "%s: draw #%d = %d is outside [%d, %d]" % (where, i, v, mn, mx))
                        return oc
                    if v != want:
                        oc.bad("int-sequence-differs", "%s: draw #%d = %d, the documented algorithm on MT19937 gives %d "
                               "(model rejected %d outputs so far)" % (where, i, v, want, model.rejected))
                        return oc
                rej_int += model.rejected - before
            elif k == "real":
                mn, mx, n = op[1], op[2], op[3]
                oc.labels.append("real:min==max" if mn == mx else "real")
                if not math.isfinite((mx - mn) * 4294967295.0):
                    oc.labels.append("real:width*2^32-overflows")
                for i in range(n):
                    want = model.uniform_real(mn, mx)
                    v = hexval(got[i])
                    flat.append(v)
                    if not (mn <= v <= mx):
                        wide = not math.isfinite((mx - mn) * 4294967295.0)
                        oc.bad("real-out-of-range" + (":width-times-2^32-overflows" if wide else ""),
                               "%s: draw #%d = %r is outside [%r, %r]" % (where, i, v, mn, mx))
                        return oc
                    tol = 4 * math.ulp(max(abs(mn), abs(mx), abs(want)))
                    if abs(v - want) > tol:
                        oc.bad("real-sequence-differs", "%s: draw #%d = %r, model min+(max-min)*k/(2^32-1) gives %r" % (where, i, v, want))
                        return oc
                    oc.labels.append("real:bit-exact" if v == want else "real:within-4ulp")
            elif k in ("exp", "norm"):
                n = op[-1]
                oc.labels.append(k)
                for i in range(n):
                    want = model.exponential(op[1]) if k == "exp" else model.normal(op[1], op[2])
                    v = hexval(got[i])
                    flat.append(v)
                    scale = abs(want) + (abs(op[1]) + abs(op[2]) if k == "norm" else 0.0)
                    if math.isinf(want) and want == v:
                        continue
                    if not abs(v - want) <= 1e-12 * scale + 1e-300:
                        oc.bad(k + "-sequence-differs", "%s: draw #%d = %r, model gives %r" % (where, i, v, want))
                        return oc
            elif k == "raw":
                oc.labels.append("raw")
                for i in range(op[1]):
                    want = model._raw()
                    if got[i] != want:
                        oc.bad("engine-differs", "%s: raw engine output #%d = %d, MT19937 reference gives %d" % (where, i, got[i], want))
                        return oc
            elif k == "save":
                oc.labels.append("save")
                if got != [True]:
                    oc.bad("write-state-failed", "%s returned %s" % (where, got))
                    return oc
                saved = model.mt.clone()
            elif k == "restore":
                oc.labels.append("restore")
                if got != [True]:
                    oc.bad("read-state-failed", "%s returned %s" % (where, got))
                    return oc
                model.mt = saved.clone()
        if case["api"] == "global":
            want_next = (model.uniform_int(IMIN, IMAX) - IMIN) & M32
        else:
            want_next = model._raw()
        if out["next"] != want_next:
            oc.bad("consumption-differs", "%s seed=%s ops=%s: all values agree but the engine output after the last op is %d, model %d: "
                   "some op consumed another number of engine outputs" % (case["api"], seed, case["ops"], out["next"], want_next))
        if case.get("golden"):
            for g, v in zip(self.GOLDEN, flat):
                if (isinstance(g, int) and g != v) or (isinstance(g, float) and abs(g - v) > 100 * 2.220446049250313e-16):
                    oc.bad("golden-differs", "upstream random_test.cpp expects %r, got %r" % (g, v))
        if model.rejected:
            oc.labels.append("rejections>0")
        if rej_int:
            oc.labels.append("int-rejections>0")
        oc.nontrivial = rej_int > 0
        oc.info = {"engine_outputs": model.raw, "rejected": model.rejected}
        return oc


PROP = C45()
