"""C05 Semaphore semantics: token conservation, FIFO, timeouts."""
from .c04 import SyncProp


class C05(SyncProp):
    id = "C05"
    kinds = ("sem",)
    sizes = {"quick": 1500, "thorough": 20000}
    ready = True
    nontrivial_labels = ("sem-timeout-with-others-queued", "sem-release-hits-queue", "release-at-deadline")
    technique = ("property-based testing (Hypothesis): generated acquire/acquire_timeout/release programs run on the real kernel, "
                 "their kernel-ordered log replayed through a sequential semaphore specification (model-based oracle, exact dates)")
    rule = ("Programs of 2-5 actors x <=10 operations over 1-3 semaphores of capacity 0..4: acquire, acquire_timeout(t), release, "
            "get_capacity, would_block and dyadic sleeps; timeouts and sleeps are multiples of 1/4 s (plus finer values), so deadlines fall "
            "before, exactly at and after the release that would serve them. Oracle: the sequential specification (value, FIFO queue, "
            "deadlines) driven by the kernel-ordered log: an acquire returns at the date it is granted (immediately, or at the release that "
            "reaches it at the head of the queue), acquire_timeout reports a timeout iff it was not granted before t_call+t and then returns "
            "exactly at that date and consumes nothing (a later acquire gets the token), get_capacity equals capacity+releases-grants when "
            "nobody waits. A release issued at the very date of a deadline is a tie the statement leaves open: the waiter's own observation "
            "selects the branch and the rest of the history must be consistent with it. acquire_timeout(0) on an empty semaphore is an "
            "undocumented special case (it blocks like acquire): generated and labelled, only token conservation is asserted. "
            "Non-trivial: a timeout expires while others are queued behind, or a release reaches a non-empty queue.")
    assumptions = ["sequential runs (contexts/nthreads:1): the order of request records is the order in which the kernel handles them",
                   "dates are dyadic so that t_call + t is exact"]


PROP = C05()
