"""C46 File system accounting is consistent."""
from .. import core, fsys


class C46(core.Prop):
    id = "C46"
    drivers = [fsys.DRIVER]
    sizes = {"quick": 800, "thorough": 40000}
    max_workers = 6
    ready = True
    technique = ("property-based testing (Hypothesis): stateful histories of file operations run on the real file system plugin, every "
                 "observation compared with a reference model `path -> size` (model-based oracle, exact integers)")
    rule = ("Histories of <= 40 operations over <= 5 files on 1-2 disks of one host (mount points disjoint or nested under '/'; capacity "
            "16 B .. 1 GiB or the default; initial content given through the documented 'content' listing file): open (existing / new / "
            "reopen), write (append, overwrite in the middle with fewer / exactly / more bytes than the tail, write_inside within and "
            "beyond the end, 0 bytes, on a full disk, beyond the capacity), seek SET/CUR/END and the one-argument form (within, to the end, "
            "beyond the end), read (within, exactly to, beyond the end, at the end, 0 bytes), tell, size, move (same mount, other mount = "
            "refused), File::unlink, sg_file_unlink, close; C++ and C API.  Byte counts are aimed at the boundaries of the current state "
            "(tail length, free space, +-1).  Valid by construction: one handle per file at a time, no negative position, only close after "
            "unlink, no move onto an existing or open file.  Oracle after EVERY step: returned value (read = min(n, size - pos); write = n when "
            "it fits, 0 on a full disk; unlink = 0; tell; size), File::size and File::tell of the handle, the listing path -> size of every disk, "
            "capacity and mount, free = size - used, and used size == total size of the listed files (initially as an absolute value, "
            "then as a per-step difference so that one accounting defect is reported once and the rest of the history stays checked).  "
            "After an overwrite in the middle the file may keep its tail (POSIX) or lose it (the plugin's comment): the model follows the size "
            "the plugin reports; the accounting must agree with it either way.  Non-trivial: an overwrite shorter than the remaining tail, or "
            "a seek beyond the end.")
    assumptions = ["a write that does not fit in the free space: only 0 <= returned <= requested is asserted (the statement does not define it)",
                   "a handle follows its file when the file is moved (POSIX rename semantics); operations through such a handle are a class "
                   "of their own in the signatures",
                   "remote mounts (XML 'remote_disk' property) and several actors working on the same disk are not covered"]

    def strategy(self, tier):
        return fsys.histories()

    def check(self, case):
        oc = core.Outcome()
        log = fsys.run(case)
        if log.wall_exceeded:
            raise core.Inconclusive()
        labels = set()
        if not log.done:
            # the operations that did complete are judged first: a crash that follows a divergence already reported (e.g. a seek computed
            # from a size that a known defect made wrong) is a consequence, not a finding of its own
            fsys.check(case, log, oc, labels, partial=True)
            if "crash_explained" in oc.info:
                if not oc.violations:
                    oc.invalid = True
            elif all(v.sig.startswith(("used-size-wrong", "free-size-wrong")) for v in oc.violations):   # (these do not end the comparison)
                oc.bad("run-crashed", "s4u_wf did not finish: " + log.crash_text())
            oc.labels = sorted(labels)
            return oc
        fsys.check(case, log, oc, labels)
        oc.labels = sorted(labels)
        oc.nontrivial = any(l.startswith("write-in-the-middle-shorter-than-tail") or "beyond-end" in l for l in labels)
        oc.info = {"steps": len(case["ops"])}
        return oc


PROP = C46()
