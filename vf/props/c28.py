"""C28 MPI point-to-point matching and non-overtaking."""
import os

from hypothesis import strategies as st

from .. import core, mpi2, p2p

THRESHOLDS = [[0, 65536], [64, 256], [100, 1000], [0, 0], [16, 16], [0, 300], [1000, 65536], [1, 2], [4096, 4096]]

msg = st.fixed_dictionaries({
    "s": st.sampled_from([0, 1, 1, 2, 2, 3, 4, 5]), "d": st.sampled_from([0, 0, 0, 0, 1, 1, 2, 3, 4, 5]),
    "tag": st.sampled_from([0, 0, 1, 1, 2, 7]),
    "szc": st.sampled_from([0, 0, 1, 1, 2]),
    "szo": st.sampled_from([0, 0, -1, 1, -2, 2, 5]),
    "k0": st.sampled_from([0, 1, 2, 3, 8, 40, 100, 300]),
}, optional={
    "c": st.integers(0, 3), "g": st.integers(0, 2), "szm": st.integers(0, 9), "roomy": st.sampled_from([True, True, True, False]),
    "self": st.sampled_from([False, False, False, False, True]),
    "sm": st.sampled_from(["std", "std", "std", "ssend", "ssend", "bsend"]),
    "sk": st.sampled_from([0, 0, 1, 2, 3, 5]),
    "rk": st.sampled_from(["recv", "recv", "irecv", "irecv", "irecv", "probe", "iprobe"]),
    "rd": st.integers(0, 4),
    "rh": st.sampled_from([0, 0, 1, 2, 4]),
    "ws": st.booleans(), "wt": st.booleans(),
    "cap": st.sampled_from([0, 0, 0, 1, 5, 100, -1, -3]),
    "sr": st.booleans(),
    "wm": st.integers(0, 7),
    "sz": st.lists(st.sampled_from([0, 0, 0, 1, 2, 3]), min_size=2, max_size=2),
    "pk": st.sampled_from([False, False, False, True]),
})

comm = st.one_of(
    st.fixed_dictionaries({"kind": st.just("split"),
                           "colors": st.lists(st.sampled_from([0, 0, 1, 1, 2, None]), min_size=1, max_size=6),
                           "keys": st.lists(st.integers(-2, 3), min_size=1, max_size=6)}),
    st.just({"kind": "dup"}))


@st.composite
def cases(draw, maxmsgs):
    return {"np": draw(st.sampled_from([2, 3, 3, 4, 4, 5, 6])),
            "thr": draw(st.sampled_from(THRESHOLDS)),
            "comms": draw(st.lists(comm, max_size=2)),
            "wall": draw(st.sampled_from([0, 0, 1, 2, 3, 3])),
            "rlate": draw(st.sampled_from([0, 0, 1])),
            "mix": draw(st.sampled_from([0, 0, 0, 1, 2])),
            "tys": draw(st.lists(st.sampled_from([0, 0, 0, 1, 2, 3]), min_size=1, max_size=3)),
            "fan": draw(st.sampled_from([0, 0, 0, 1, 1, 2, 2, 3, 3, 3])),
            "snb": draw(st.sampled_from([0, 1])),
            "msgs": draw(st.lists(msg, min_size=1, max_size=maxmsgs))}


class C28(core.Prop):
    id = "C28"
    ready = True
    drivers = ["mpi2_interp"]
    sizes = {"quick": 2000, "thorough": 20000}
    max_workers = 6
    technique = ("property-based testing (Hypothesis): generated deadlock-free MPI programs (safety of every allowed matching proved by an "
                 "exhaustive matching explorer), validity predicate over the statuses, return codes and buffers of every rank")
    rule = ("A case = 2..6 ranks, a pair (smpi/async-small-thresh, smpi/send-is-detached-thresh), up to 2 extra communicators (splits, dups) "
            "and a global list of <= 12 messages (communicator, sender, receiver, tag in a small set, element type, size around 0 / a "
            "constant / either threshold, send mode std|ssend|bsend, blocking or Isend with its completion k operations later, receive as "
            "Recv | Irecv (optionally posted earlier, completed later) | Probe+Recv | Iprobe-loop+Recv, capacity exact/larger/smaller, "
            "Sendrecv merges, self messages, simulated delays, single Iprobe peeks, completion by Wait/Waitall/Waitany/Waitsome/Test/"
            "Testall/Testany/Testsome driven to completion).  Every rank executes its operations in the global order, which is deadlock-"
            "free with zero buffering; requested MPI_ANY_SOURCE / MPI_ANY_TAG and hoisted receives are kept only when the explorer of "
            "vf/p2p.py proves that EVERY matching allowed by MPI completes with any mix of buffered and synchronous sends.  Oracle = "
            "validity predicate: legal status source/tag compatible with the pattern, every message consumed exactly once, k-th receive "
            "of an envelope holds the k-th message of that envelope (bytes by CRC, count), untouched bytes after the capacity, truncation "
            "reported by the return code (MPI_ERR_TRUNCATE, or MPI_ERR_IN_STATUS + status for the multi-completion calls) exactly when "
            "oversized, probe announces what the receive gets, non-overtaking between two messages of one sender that one receive could "
            "both match.  Non-trivial: a kept wildcard receive with >= 2 candidate messages (legal matches in some allowed execution, or "
            "compatible messages pending together with it in the explorer's most-progress executions) of different size classes (eager / "
            "detached / rendez-vous).  Distinct = distinct canonical JSON.")
    assumptions = ["MPI_Rsend is not generated (erroneous unless the receive is known to be posted)",
                   "content and count of a truncated receive are not specified by MPI: only 'reported' and 'nothing written after the capacity' are asserted",
                   "smpi/errors-are-fatal:no (error codes are returned), smpi/simulate-computation:no",
                   "a polling loop (Test*, Iprobe) that does not complete within 20000 calls is a progress violation: the explorer proved that "
                   "the awaited message is eventually sent whatever the other ranks' matches"]

    def strategy(self, tier):
        return cases(12 if tier == "quick" else 16)

    def fixed_cases(self, tier):
        if os.environ.get("VF_C28_NOFIXED"):       # sensitivity measurements of the random part alone
            return []
        m = lambda **kw: dict({"s": 0, "d": 1, "tag": 0, "szc": 0, "szo": 0, "k0": 8}, **kw)
        res = []
        # two pending messages of one sender (different tags, then the same tag) to a late receiver using MPI_ANY_TAG, for every
        # pair of thresholds and several size / mode mixes
        mixes = [(dict(k0=8), dict(k0=8)), (dict(sm="ssend"), dict()), (dict(szc=1, szo=1), dict(szc=1, szo=-1)),
                 (dict(szc=2, szo=0), dict(szc=1, szo=-1)), (dict(szc=2, szo=-1), dict(szc=2, szo=0))]
        for thr in THRESHOLDS:
            for (a, b_) in mixes:
                for tags in ((1, 2), (1, 1)):
                    if tags == (1, 1) and thr[0] == 0:
                        continue
                    res.append({"np": 2, "thr": thr, "comms": [], "fan": 3,
                                "msgs": [m(tag=tags[0], wt=True, **a), m(tag=tags[1], wt=True, **b_)]})
        # a late wildcard receive that examines a SMALL candidate it must refuse (its same-tag predecessor waits in the other mailbox)
        # and then accepts a LARGER message queued behind it: one sender + ANY_TAG (mix 1), two senders + ANY_SOURCE (mix 2).
        # palette index (szm): 0 = T, 1 = 0 bytes, 2 = 1 byte, 3 = T-1, 4 = T/2 (T = smpi/async-small-thresh)
        mm = lambda **kw: dict({"s": 0, "d": 0, "tag": 0, "szc": 0, "szo": 0, "k0": 0}, **kw)
        for thr in THRESHOLDS:
            if thr[0] < 16:
                continue
            for first in (dict(szm=0), dict(szm=2, sm="ssend")):
                for a_, b_ in ((1, 4), (2, 3), (2, 4)):
                    res.append({"np": 2, "thr": thr, "comms": [], "mix": 1,
                                "msgs": [mm(tag=0, **first), mm(tag=0, szm=a_), mm(tag=1, szm=b_)]})
                    res.append({"np": 3, "thr": thr, "comms": [], "mix": 2,
                                "msgs": [mm(s=0, **first), mm(s=0, szm=a_), mm(s=1, szm=b_, sz=[1, 0])]})
        return res

    def check(self, case):
        oc = core.Outcome()
        K, E = mpi2.consts()
        b = p2p.Build(case, K)
        dc = b.driver_case()
        res = mpi2.run(dc, cpu=25)
        self.labels(b, oc)
        fail = res.failure()
        gave = [rec for rec in res.recs.values() if rec.get("gaveup")]
        if fail and gave:
            # a polling loop (Test*, Iprobe) gave up after 20000 calls: the rank then went on WITHOUT its message and left; what the run
            # died of afterwards (a sender aborting with "receiving rank gone", a deadlock of the others) is only a consequence.  The
            # root event is the blocked receive: same classification as a deadlock (known two-mailbox / truncation classes, else progress:*)
            g = gave[0]
            mode = next((op.get("mode") for op in b.ops[g["r"]] if op["t"] in ("complete", "precv") and b.index.get((g["r"], b.ops[g["r"]].index(op))) == g["i"]), "poll")
            oc.bad(b.blocked_sig("progress:%s" % mode),
                   "the program is deadlock-free under every matching MPI allows, yet rank %d polled %d times (%s, operation #%d) without getting its message "
                   "and went on without it; the run then ended with: %s: %s" % (g["r"], g.get("calls", 0), mode, g["i"], fail[0], fail[1][:600]))
            return oc
        if fail:
            sig, msg_ = fail
            if sig == "bad-case":
                raise RuntimeError(msg_)
            if sig == "cpu-exceeded" and any(op["t"] == "precv" and op["mode"] == "probe" for ops in b.ops for op in ops):
                # MPI_Probe polls for ever when its message never comes: the simulation does not end (a deadlock with a busy rank)
                sig = "deadlock"
                msg_ = "the simulation does not end (a rank polls in MPI_Probe for a message that never comes): " + msg_
            if sig == "deadlock":
                msg_ = "the program is deadlock-free under every matching MPI allows, yet " + msg_
                sig = b.blocked_sig("deadlock")
                if sig.endswith("async-thresh"):
                    pairs = b.across_thresh()
                    msg_ += "  [message %d (%d bytes) is compatible with receive #%d of capacity %d bytes < smpi/async-small-thresh:%d]" % (
                        pairs[0][0], b.msgs[pairs[0][0]]["nbytes"], pairs[0][1], b.msgs[pairs[0][1]]["cap"] * b.msgs[pairs[0][1]]["tsize"], b.thr[0])
                elif sig != "deadlock":
                    msg_ += "  [the case has the ingredients of the known %s non-overtaking defect of the two mailboxes, smpi/async-small-thresh:%d]" % (
                        sig.rsplit(":", 1)[1], b.thr[0])
            oc.bad(sig, msg_)
            return oc
        p2p.judge(b, res, oc, E)
        if getattr(b, "got", None) is not None:
            if any(b.got[k] != k for k in b.got):
                oc.labels.append("matching-differs-from-intended")
            oc.info = {"matching": {str(k): v for k, v in sorted(b.got.items()) if k != v}}
        return oc

    @staticmethod
    def labels(b, oc):
        L = set(b.labels)
        M = b.msgs
        L.add("np=%d" % b.np)
        L.add("thr=%d/%d" % tuple(b.thr))
        if b.mix:
            L.add("mix=%d" % b.mix)
        ex = b.explorer
        L.add("matchings=%s" % (len(ex.totals) if len(ex.totals) < 3 else "3+"))
        nontrivial = False
        for m in M:
            L.add("mode:" + m["mode"])
            L.add("class:" + b.size_class(m["nbytes"]))
            if m["nbytes"] == 0:
                L.add("zero-bytes")
            if m["selfmsg"]:
                L.add("self-message")
            if m["ci"] != 0:
                L.add("sub-communicator")
            if m["count"] > m["cap"]:
                L.add("intended-truncation")
            if m["tsize"] > 1:
                L.add("multi-byte-type")
        for k, (ws, wt) in b.wild.items():
            L.add("wild:" + ("src+tag" if ws and wt else "src" if ws else "tag"))
            tog = set(ex.cands.get(k, ())) | set(ex.together.get(k, ()))
            cl = set(b.size_class(M[s]["nbytes"]) for s in tog)
            if len(tog) >= 2:
                L.add("wild-multi-candidate")
                if len(cl) >= 2:
                    nontrivial = True
                    L.add("wild-multi-candidate-size-classes")
        for p in range(b.np):
            for op in b.ops[p]:
                t = op["t"]
                if t == "complete":
                    L.add("complete:" + op["mode"] + (":multi" if len(op["reqs"]) > 1 else ""))
                elif t == "precv":
                    L.add(op["mode"] + "+recv")
                elif t in ("sendrecv", "peek", "isend", "irecv", "sleep"):
                    L.add(t)
        for r, a, c, pr, kind in b.refused_candidates():
            L.add("refused-candidate-then-accepted:" + kind)
            # ... and the explorer's most-progress execution has the three messages pending together with the receive
            if {a, c, pr} <= set(ex.together.get(r, ())):
                L.add("refused-candidate-then-accepted:" + kind + ":pending-together")
        if b.use_hoist and any(m["rh"] > 0 and m["rk"] == "irecv" for m in M):
            L.add("hoisted-irecv")
        oc.labels = sorted(L)
        oc.nontrivial = nontrivial


PROP = C28()
