"""C33 Cartesian topologies follow MPI rules."""
import itertools

from hypothesis import strategies as st

from .. import core, mpi

MAXN = 64
CANARY = -777777


def prod(l):
    p = 1
    for x in l:
        p *= x
    return p


# ---------------------------------------------------------------------------------------------
# Reference (MPI-3.1 chapter 7), integers only

def coords_of(rank, dims):
    """MPI: row-major numbering is always used for the processes of a Cartesian structure."""
    c = []
    n = prod(dims)
    for d in dims:
        n //= d
        c.append(rank // n)
        rank %= n
    return c


def rank_of(coords, dims, periods):
    """Inverse, with wrap-around on periodic dimensions; None when a non-periodic coordinate is out of range."""
    r = 0
    for c, d, p in zip(coords, dims, periods):
        if c < 0 or c >= d:
            if not p:
                return None
            c %= d
        r = r * d + c
    return r


def shift_of(rank, dims, periods, direction, disp, proc_null):
    c = coords_of(rank, dims)
    res = []
    for delta in (-disp, disp):       # source, dest
        cc = list(c)
        cc[direction] += delta
        r = rank_of(cc, dims, periods)
        res.append(proc_null if r is None else r)
    return res


# ---------------------------------------------------------------------------------------------
# What each caller asks.  `full`: every caller asks everything (all ranks, all coordinate vectors, all displacements in
# [-2*dim, 2*dim]); otherwise (grids > 16 nodes in random cases) every caller still asks about itself, its neighbours, the corners
# and some caller-dependent ranks, so that all ranks are covered by the union of the callers (O(n) output instead of O(n^2)).

def q_ranks(r, m, full):
    if full:
        return list(range(m))
    return sorted({r % m, (r + 1) % m, m - 1 - (r % m), 0, m - 1, (7 * r + 3) % m})


def q_coords(r, dims, periods, wrap, full):
    base = [coords_of(q, dims) for q in q_ranks(r, prod(dims), full)]
    res = list(base)
    for c in base:      # moved by wrap[i]*dims[i] on the periodic dimensions: still valid for MPI_Cart_rank
        cc = [x + (w * d if p else 0) for x, w, d, p in zip(c, wrap, dims, periods)]
        if cc != c:
            res.append(cc)
    return res


def q_shifts(r, dims, full):
    res = []
    for d, size in enumerate(dims):
        if full or size <= 10:
            ks = range(-2 * size, 2 * size + 1)
        else:
            ks = sorted({-2 * size, -2 * size + 1, -size - 1, -size, -size + 1, -2, -1, 0, 1, 2, size - 1, size, size + 1, 2 * size - 1,
                         2 * size, (5 * r) % (4 * size + 1) - 2 * size, (11 * r + 7) % (4 * size + 1) - 2 * size})
        res += [[d, k] for k in ks]
    return res


def is_full(grid):
    return bool(grid.get("full")) or prod(grid["dims"]) <= 16


def per_rank(np_, f):
    vals = [f(r) for r in range(np_)]
    return vals[0] if all(v == vals[0] for v in vals) else {"@": vals}


def arg_of(prog, i, name, r):
    v = prog[i][name]
    return v["@"][r % len(v["@"])] if isinstance(v, dict) and "@" in v else v


def case_np(case):
    return max([prod(g["dims"]) for g in case["grids"]] + [1]) + case["extra"]


def build_prog(case):
    """-> prog, idx.  idx[(g, key)] = index in prog of the operation `key` of grid #g; idx["dc", k] of Dims_create query k;
    idx["owner"][i] = (g, k, lvl) for every operation i that works on the sub-communicator of chain k, level lvl of grid g."""
    np_ = case_np(case)
    prog = []
    idx = {"owner": {}}
    for k, (nn, part) in enumerate(case["dc"]):
        idx[("dc", k)] = len(prog)
        prog.append({"op": "dims_create", "nnodes": nn, "dims": part, "only": [0]})
    owner = [None]
    cur = {}

    def add(key, op, everybody=False):
        if not everybody:
            op["only"] = cur["inside"]
        idx[(cur["gi"], key)] = len(prog)
        if owner[0] is not None:
            idx["owner"][len(prog)] = owner[0]
        prog.append(op)

    def queries(key, comm, qd, qp):
        slack, full, wrap = cur["slack"], cur["full"], cur["wrap"]
        add(key + "dim", {"op": "cartdim_get", "comm": comm})
        add(key + "get", {"op": "cart_get", "comm": comm, "maxdims": len(qd) + slack})
        if qd:
            add(key + "coords", {"op": "cart_coords", "comm": comm, "maxdims": len(qd) + slack,
                                 "ranks": per_rank(np_, lambda r: q_ranks(r, prod(qd), full))})
            add(key + "rank", {"op": "cart_rank", "comm": comm, "coords": per_rank(np_, lambda r: q_coords(r, qd, qp, wrap, full))})
            add(key + "shift", {"op": "cart_shift", "comm": comm, "shifts": per_rank(np_, lambda r: q_shifts(r, qd, full))})

    for gi, g in enumerate(case["grids"]):
        dims, periods = g["dims"], g["periods"]
        cur.update(gi=gi, inside=list(range(prod(dims))), slack=g.get("slack", 0), full=is_full(g), wrap=g["wrap"])
        cname = "c%d" % gi
        add("create", {"op": "cart_create", "dims": dims, "periods": periods, "reorder": g.get("reorder", 0), "out": cname}, everybody=True)
        queries("", cname, dims, periods)
    # the sub-grids come after the main queries of ALL grids (a crash on a sub-communicator then hides as little as possible)
    for gi, g in enumerate(case["grids"]):
        dims, periods = g["dims"], g["periods"]
        cur.update(gi=gi, inside=list(range(prod(dims))), slack=g.get("slack", 0), full=is_full(g), wrap=g["wrap"])
        cname = "c%d" % gi
        for k, sub in enumerate(g["subs"]):
            comm = cname
            sdims, sper = dims, periods
            for lvl, mask in enumerate(sub):
                mask = mask[:len(sdims)]
                name = "s%d_%d_%d" % (gi, k, lvl)
                key = "sub%d_%d" % (k, lvl)
                add(key, {"op": "cart_sub", "comm": comm, "remain": mask, "out": name})
                owner[0] = (gi, k, lvl)
                add(key + "grp", {"op": "comm_group", "comm": name, "out": "g" + name})
                kd = [d for d, m in zip(sdims, mask) if m]
                kp = [p for p, m in zip(sper, mask) if m]
                queries(key, name, kd, kp)
                owner[0] = None
                comm, sdims, sper = name, kd, kp
    return prog, idx


def sub_ranks(grid, me, k):
    """reference: for sub chain #k and the process of rank `me` in the grid, [(rank before, rank after)] per level"""
    dims, periods = grid["dims"], grid["periods"]
    c = coords_of(me, dims)
    res = []
    rank = me
    for mask in grid["subs"][k]:
        mask = mask[:len(dims)]
        kept = [i for i, m in enumerate(mask) if m]
        dims, periods, c = [dims[i] for i in kept], [periods[i] for i in kept], [c[i] for i in kept]
        new = rank_of(c, dims, periods) if dims else 0
        res.append((rank, new))
        rank = new
    return res


def valid_grid(g):
    dims = g["dims"]
    return (len(dims) == len(g["periods"]) <= 4 and all(d >= 1 for d in dims) and prod(dims) <= MAXN
            and len(g["wrap"]) >= len(dims))


# ---------------------------------------------------------------------------------------------
@st.composite
def grids(draw):
    nd = draw(st.sampled_from([0, 1, 1, 2, 2, 2, 3, 3, 3, 4, 4]))
    dims = []
    budget = MAXN
    for _ in range(nd):
        d = draw(st.integers(1, min(budget, 9))) if draw(st.integers(0, 5)) else draw(st.integers(1, budget))
        dims.append(d)
        budget //= d
    periods = [draw(st.integers(0, 1)) for _ in range(nd)]
    subs = []
    for _ in range(draw(st.integers(0, 3))):
        m1 = [draw(st.integers(0, 1)) for _ in range(nd)]
        sub = [m1]
        if draw(st.integers(0, 2)) == 0:
            sub.append([draw(st.integers(0, 1)) for _ in range(sum(m1))])
        subs.append(sub)
    return {"dims": dims, "periods": periods, "reorder": draw(st.integers(0, 1)), "slack": draw(st.integers(0, 2)),
            "wrap": [draw(st.integers(-2, 2)) for _ in range(4)], "subs": subs, "full": draw(st.integers(0, 9)) == 0}


@st.composite
def dims_create_queries(draw):
    nn = draw(st.integers(1, MAXN))
    part = []
    for _ in range(draw(st.integers(1, 4))):
        kind = draw(st.integers(0, 3))
        if kind <= 1:
            part.append(0)
        elif kind == 2:
            part.append(draw(st.sampled_from([x for x in range(1, nn + 1) if nn % x == 0])))
        else:
            part.append(draw(st.integers(1, 9)))
    return [nn, part]


@st.composite
def cases(draw):
    return {"grids": draw(st.lists(grids(), min_size=1, max_size=4)), "extra": draw(st.integers(0, 2)),
            "dc": draw(st.lists(dims_create_queries(), max_size=6))}


class C33(core.Prop):
    id = "C33"
    ready = True
    drivers = ["mpi_interp"]
    sizes = {"quick": 300, "thorough": 8000}
    max_workers = 4
    technique = ("property-based testing (Hypothesis) + exhaustive enumeration of small grids: integer-arithmetic reference of MPI-3.1 "
                 "chapter 7 (row-major rank<->coordinates, periodic wrap, shift neighbours, Cart_sub partition) compared with the "
                 "answers of every rank of an SMPI program")
    rule = ("A case = one simulated SMPI run (world of max(nnodes)+0..2 ranks) that creates 1..4 Cartesian grids (each 0..4 dimensions, "
            "<= 64 nodes, any periodicity pattern, reorder 0/1) with MPI_Cart_create; EVERY rank of each grid calls Cartdim_get, Cart_get, "
            "Cart_coords (all ranks), Cart_rank (all in-range coordinate vectors plus out-of-range ones on periodic dimensions), Cart_shift "
            "(all directions, all displacements in [-2*dim, 2*dim]; on grids > 16 nodes a caller-dependent subset whose union over the "
            "callers covers everything, or everything with probability 1/10); 0..3 Cart_sub keep-masks per grid (optionally a second "
            "Cart_sub on the result) followed by the same calls on the sub-communicator and its member list; rank 0 runs 0..6 "
            "MPI_Dims_create(nnodes<=64, partial dims) queries.  Fixed cases enumerate every grid of <= 8 nodes (quick) / <= 24 nodes "
            "(thorough) with every periodicity pattern and every keep-mask, and Dims_create for every nnodes <= 64.  Oracle: integer "
            "arithmetic. Non-trivial: some grid has >= 2 dimensions of size >= 2 with mixed periodicity. Distinct = distinct canonical JSON.")
    assumptions = ["coordinates out of range on a non-periodic dimension, direction >= ndims, maxdims < ndims and dims that do not fit the "
                   "communicator are erroneous in MPI: not generated",
                   "Dims_create: only product == nnodes, given entries kept, entries positive, and an error code when nnodes is not a multiple of "
                   "the product of the given entries; balance/ordering of the free entries is NOT asserted (the statement does not require it)",
                   "processes of a Cart_sub sub-grid keep their coordinates of the kept dimensions (what every MPI implementation does and "
                   "what the statement's 'keeps the selected dimensions' says); reported under its own signature",
                   "smpi/errors-are-fatal:no so that error codes are returned instead of aborting; MPI_Topo_test is not implemented by SMPI "
                   "(explicit 'not yet implemented' abort) and is not called"]

    def strategy(self, tier):
        return cases()

    def fixed_cases(self, tier):
        lim = 8 if tier == "quick" else 24
        gl = []

        def shapes(nd, budget):
            if nd == 0:
                yield []
                return
            for d in range(1, budget + 1):
                for rest in shapes(nd - 1, budget // d):
                    yield [d] + rest
        for nd in range(0, 5):
            for dims in shapes(nd, lim):
                if nd >= 3 and dims.count(1) >= 2 and tier == "quick":
                    continue       # degenerate shapes are covered by the lower-dimensional ones
                for per in itertools.product([0, 1], repeat=nd):
                    masks = [list(m) for m in itertools.product([0, 1], repeat=nd)]
                    gl.append({"dims": dims, "periods": list(per), "reorder": 0, "slack": 0, "wrap": [1, -1, 2, -2],
                               "subs": [[m] for m in masks], "full": True})
        res = []
        gl.sort(key=lambda g: prod(g["dims"]))
        for i in range(0, len(gl), 6):       # 6 grids per simulated run
            res.append({"grids": gl[i:i + 6], "extra": (i // 6) % 2, "dc": []})
        # Dims_create: every nnodes <= 64 with all-free dims of every length, and one fixed entry
        dcs = []
        for nn in range(1, MAXN + 1):
            for k in range(1, 5):
                dcs.append([nn, [0] * k])
            for d in range(1, nn + 1):
                if nn % d == 0:
                    dcs.append([nn, [0, d, 0]])
                    dcs.append([nn, [d, 0]])
        for i in range(0, len(dcs), 100):
            res.append({"grids": [], "extra": 0, "dc": dcs[i:i + 100]})
        return res

    # -------------------------------------------------------------------------------------------
    def check(self, case):
        oc = core.Outcome()
        if not all(valid_grid(g) for g in case["grids"]):
            oc.invalid = True
            return oc
        K, E = mpi.consts()
        np_ = case_np(case)
        prog, idx = build_prog(case)
        self.prog = prog
        res = mpi.run({"np": np_, "prog": prog}, cpu=60)
        oc.info = {"np": np_}
        oc.labels.append("grids=%d" % len(case["grids"]))
        for g in case["grids"]:
            dims, periods = g["dims"], g["periods"]
            oc.labels.append("ndims=%d" % len(dims))
            mixed = len(set(p for d, p in zip(dims, periods) if d >= 2)) == 2
            if mixed:
                oc.labels.append("mixed-periodicity")
                oc.nontrivial = True
            if g["subs"]:
                oc.labels.append("has-sub")
            if any(len(s) > 1 for s in g["subs"]):
                oc.labels.append("has-sub-of-sub")
            if prod(dims) < np_:
                oc.labels.append("world-larger-than-grid")
            if prod(dims) >= 32:
                oc.labels.append("nodes>=32")
            if g.get("reorder"):
                oc.labels.append("reorder=1")
        if case["dc"]:
            oc.labels.append("has-dims-create")

        fail = res.failure()
        if fail:
            sig, msg = fail
            if sig == "bad-case":
                raise RuntimeError(msg)
            if res.crash is not None and res.crash["i"] in idx["owner"]:
                # a crash in a call on a sub-communicator: did Cart_sub change the rank of that process?
                gi, k, lvl = idx["owner"][res.crash["i"]]
                g = case["grids"][gi]
                c0 = res.get(res.crash["r"], idx[(gi, "create")]) or {}
                chain = sub_ranks(g, c0.get("rank", res.crash["r"]), k)
                sig = "cart-sub:rank-changed:crash" if chain[lvl][0] != chain[lvl][1] else "cart-sub:crash"
                msg += " [grid dims=%s periods=%s, Cart_sub chain %s level %d; rank before/after that Cart_sub: %s]" % (
                    g["dims"], g["periods"], g["subs"][k], lvl, chain[lvl])
                oc.labels.append("crashed-on-sub-communicator")
            oc.bad(sig, msg)
            return oc

        self.check_dims_create(oc, case, res, idx)
        for gi, g in enumerate(case["grids"]):
            self.check_grid(oc, K, case, res, idx, gi, g, np_)
            if oc.violations:
                break
        return oc

    # -------------------------------------------------------------------------------------------
    def check_dims_create(self, oc, case, res, idx):
        for k, (nn, part) in enumerate(case["dc"]):
            d = res.get(0, idx[("dc", k)])
            if d is None:
                continue
            given = prod([x for x in part if x > 0])
            out = d["dims"][:len(part)]
            call = "MPI_Dims_create(%d, %d, %s)" % (nn, len(part), part)
            feasible = nn % given == 0 and (0 in part or given == nn)
            if d["dims"][len(part)] != CANARY:
                oc.bad("dims-create:overrun", "%s wrote past the array" % call)
            if not feasible:
                oc.labels.append("dims-create-infeasible")
                if d["rc"] == 0:
                    each = all(nn % x == 0 for x in part if x > 0)
                    oc.bad("dims-create:no-error:each-entry-divides" if each else "dims-create:no-error",
                           "%s returned MPI_SUCCESS with %s although %d is not a multiple of the product of the given entries" % (call, out, nn))
                continue
            oc.labels.append("dims-create-feasible")
            if d["rc"] != 0:
                oc.bad("dims-create:error", "%s returned error %d" % (call, d["rc"]))
                continue
            if any(x <= 0 for x in out) or prod(out) != nn:
                oc.bad("dims-create:product", "%s -> %s: product is not %d" % (call, out, nn))
            if any(p > 0 and o != p for p, o in zip(part, out)):
                oc.bad("dims-create:given-entry-changed", "%s -> %s: a non-zero entry was modified" % (call, out))

    # -------------------------------------------------------------------------------------------
    def check_grid(self, oc, K, case, res, idx, gi, g, np_):
        dims, periods = g["dims"], g["periods"]
        n = prod(dims)

        def rec(r, key):
            return res.get(r, idx[(gi, key)]) if (gi, key) in idx else None

        # ---- creation
        cart_rank = {}
        for r in range(np_):
            c = rec(r, "create")
            if c is None:
                continue
            if c["rc"] != 0:
                oc.bad("cart-create:error", "rank %d: MPI_Cart_create(dims=%s) returned %d" % (r, dims, c["rc"]))
                continue
            if r >= n:
                if not c["null"]:
                    oc.bad("cart-create:extra-rank-not-null", "dims=%s: world rank %d >= %d nodes got a communicator" % (dims, r, n))
                continue
            if c["null"]:
                oc.bad("cart-create:null", "dims=%s: world rank %d < %d nodes got MPI_COMM_NULL" % (dims, r, n))
                continue
            if c["size"] != n:
                oc.bad("cart-create:size", "dims=%s rank %d: size of the Cartesian communicator is %d, expected %d" % (dims, r, c["size"], n))
            if not g.get("reorder", 0) and c["rank"] != r:
                oc.bad("cart-create:rank-changed", "dims=%s: reorder=false but world rank %d became rank %d" % (dims, r, c["rank"]))
            cart_rank[r] = c["rank"]
        if oc.violations:
            return
        if sorted(cart_rank.values()) != list(range(n)):
            oc.bad("cart-create:ranks-not-a-permutation", "dims=%s: ranks in the Cartesian communicator: %s" % (dims, cart_rank))
            return

        for r, me in sorted(cart_rank.items()):
            self.check_comm(oc, K, rec, r, me, dims, periods, "", "cart", False)
            if oc.violations:
                return
            # ---- sub-grids
            for k, sub in enumerate(g["subs"]):
                sdims, sper = dims, periods
                prev_rank = me
                P = sorted(cart_rank)                                       # world ranks of the current communicator
                C = {w: coords_of(cart_rank[w], dims) for w in P}           # their coordinates in it
                for lvl, mask in enumerate(sub):
                    mask = mask[:len(sdims)]
                    key = "sub%d_%d" % (k, lvl)
                    s = rec(r, key)
                    if s is None:
                        break
                    what = "Cart_sub(remain=%s) of %s%s" % (mask, sdims, "" if lvl == 0 else " (second level)")
                    kept = [i for i, m in enumerate(mask) if m]
                    dropped = [i for i, m in enumerate(mask) if not m]
                    kd = [sdims[i] for i in kept]
                    kp = [sper[i] for i in kept]
                    # reference: the processes that share my coordinates on the dropped dimensions, with the kept coordinates
                    P2 = [w for w in P if all(C[w][i] == C[r][i] for i in dropped)]
                    C2 = {w: [C[w][i] for i in kept] for w in P2}
                    if s["rc"] != 0:
                        oc.bad("cart-sub:error", "world rank %d: %s returned %d" % (r, what, s["rc"]))
                        break
                    if s["null"]:
                        if not kd:
                            oc.bad("cart-sub:zero-dim-null", "world rank %d: %s gave MPI_COMM_NULL; MPI: a zero-dimensional topology "
                                   "(a communicator of one process)" % (r, what))
                        else:
                            oc.bad("cart-sub:null", "world rank %d: %s gave MPI_COMM_NULL" % (r, what))
                        break
                    if s["size"] != prod(kd):
                        oc.bad("cart-sub:size", "world rank %d: %s has %d processes, expected %d" % (r, what, s["size"], prod(kd)))
                        break
                    gr = rec(r, key + "grp")
                    if gr is not None and gr["rc"] == 0 and sorted(gr["members"]) != P2:
                        oc.bad("cart-sub:members", "world rank %d: %s groups world ranks %s, expected %s (same coordinates on the "
                               "dropped dimensions)" % (r, what, sorted(gr["members"]), P2))
                        break
                    exp_rank = rank_of(C2[r], kd, kp) if kd else 0
                    if s["rank"] != exp_rank:
                        oc.bad("cart-sub:coords-not-kept", "world rank %d (coords %s): rank %d in %s, expected %d = row-major rank of "
                               "the kept coordinates %s" % (r, C[r], s["rank"], what, exp_rank, C2[r]))
                        break
                    self.check_comm(oc, K, rec, r, s["rank"], kd, kp, key, what, s["rank"] != prev_rank)
                    if oc.violations:
                        return
                    prev_rank = s["rank"]
                    P, C, sdims, sper = P2, C2, kd, kp

    def check_comm(self, oc, K, rec, r, me, dims, periods, key, what, changed):
        """Checks the answers of world rank r (rank `me` in the communicator) on a Cartesian communicator of shape dims/periods.
        key = '' for the main grid or 'sub<k>_<lvl>'."""
        nd = len(dims)
        # on a sub-communicator the signature tells whether Cart_sub changed the rank of the calling process
        pre = ("cart-sub:rank-changed:" if changed else "cart-sub:") if key else "cart:"
        who = "rank %d (world %d) of %s %s periods %s" % (me, r, what, dims, periods)
        d = rec(r, key + "dim")
        if d is not None and (d["rc"] != 0 or d["ndims"] != nd):
            oc.bad(pre + "ndims", "%s: MPI_Cartdim_get -> rc=%d ndims=%d, expected %d" % (who, d["rc"], d["ndims"], nd))
        g = rec(r, key + "get")
        mine = coords_of(me, dims)
        if g is not None:
            if g["rc"] != 0:
                oc.bad(pre + "get-error", "%s: MPI_Cart_get returned %d" % (who, g["rc"]))
            else:
                if g["dims"][:nd] != dims:
                    oc.bad(pre + "get-dims", "%s: MPI_Cart_get dims=%s, expected %s" % (who, g["dims"][:nd], dims))
                elif [int(bool(x)) for x in g["periods"][:nd]] != [int(bool(x)) for x in periods]:
                    oc.bad(pre + "get-periods", "%s: MPI_Cart_get periods=%s, expected %s" % (who, g["periods"][:nd], periods))
                elif g["coords"][:nd] != mine:
                    oc.bad(pre + "get-coords", "%s: MPI_Cart_get coords=%s, expected %s" % (who, g["coords"][:nd], mine))
                if g["dims"][-1] != CANARY or g["periods"][-1] != CANARY or g["coords"][-1] != CANARY:
                    oc.bad(pre + "get-overrun", "%s: MPI_Cart_get(maxdims=%d) wrote past maxdims entries" % (who, len(g["dims"]) - 1))
        if oc.violations or nd == 0:
            return
        c = rec(r, key + "coords")
        if c is not None:
            for q, (rc, co) in zip(arg_of(self.prog, c["i"], "ranks", r), c["res"]):
                exp = coords_of(q, dims)
                if rc != 0 or co[:nd] != exp:
                    oc.bad(pre + "coords", "%s: MPI_Cart_coords(%d) -> rc=%d %s, expected %s" % (who, q, rc, co[:nd], exp))
                    break
                if co[-1] != CANARY:
                    oc.bad(pre + "coords-overrun", "%s: MPI_Cart_coords(maxdims=%d) wrote past maxdims entries" % (who, len(co) - 1))
                    break
        k = rec(r, key + "rank")
        if k is not None:
            for co, (rc, rk) in zip(arg_of(self.prog, k["i"], "coords", r), k["res"]):
                exp = rank_of(co, dims, periods)
                if rc != 0 or rk != exp:
                    oc.bad(pre + ("rank-wrap" if any(x < 0 or x >= dd for x, dd in zip(co, dims)) else "rank"),
                           "%s: MPI_Cart_rank(%s) -> rc=%d %d, expected %d" % (who, co, rc, rk, exp))
                    break
        s = rec(r, key + "shift")
        if s is not None:
            for (direction, disp), (rc, src, dst) in zip(arg_of(self.prog, s["i"], "shifts", r), s["res"]):
                es, ed = shift_of(me, dims, periods, direction, disp, K.PROC_NULL)
                if rc != 0:
                    oc.bad(pre + "shift-error", "%s: MPI_Cart_shift(%d, %d) returned %d" % (who, direction, disp, rc))
                    break
                if dst != ed:
                    oc.bad(pre + "shift-dest", "%s coords %s: MPI_Cart_shift(direction=%d, disp=%d) dest=%d, expected %d"
                           % (who, mine, direction, disp, dst, ed))
                    break
                if src != es:
                    oc.bad(pre + "shift-source", "%s coords %s: MPI_Cart_shift(direction=%d, disp=%d) source=%d, expected %d"
                           % (who, mine, direction, disp, src, es))
                    break


PROP = C33()
