"""C21 Work is conserved and capacity is respected over time."""
import math

from hypothesis import strategies as st

from .. import core, model, platgen
from ..platgen import Plat

T = model.T


# ------------------------------------------------------------------------------------------------ generator
def secs():
    """target duration of an activity if it were alone (s): amounts are derived from it so that activities really overlap"""
    return st.one_of(st.integers(1, 64).map(lambda k: k / 8), st.floats(0.05, 8.0, allow_nan=False))


def pauses():
    return st.one_of(st.just(0.0), st.integers(0, 32).map(lambda k: k / 8), st.floats(0, 4.0, allow_nan=False))


@st.composite
def workloads(draw):
    """Concurrent workload: 1-4 actors, each a sequence of sleeps and asynchronous activities (execs with bounds / priorities / threads,
    communications, I/Os) that it waits for at once or at the end; optionally one group of k equal executions alone on a host."""
    dyadic = draw(st.integers(0, 5)) == 0
    plat = draw(platgen.platforms(n_hosts=(1, 3), cores=(1, 4), max_pstates=1, n_disks=(0, 2), route_len=(1, 3), max_pool=5, dyadic=dyadic,
                                  speed=platgen.pow2(20, 30) if dyadic else platgen.loguniform(1e6, 1e9),
                                  bw=platgen.pow2(17, 30) if dyadic else platgen.loguniform(1e5, 1e9),
                                  lat=st.one_of(st.just(0.0), platgen.pow2(-13, -3)) if dyadic else
                                  st.one_of(st.sampled_from([0.0, 1e-4, 1e-3, 0.01]), platgen.loguniform(1e-5, 0.1)),
                                  disk_bw=platgen.pow2(14, 26) if dyadic else platgen.loguniform(1e4, 1e8)))
    p = Plat(plat)
    names = [h["name"] for h in plat["hosts"]]
    case = {"platform": plat, "model": draw(st.sampled_from(["LV08", "LV08", "CM02", "raw", "SMPI"]))}
    ct = draw(st.sampled_from([None, None, True, False]))
    if ct is not None:
        case["crosstraffic"] = ct
    if draw(st.integers(0, 3)) == 0:
        case["optim"] = draw(st.sampled_from([["cpu/optim:Full"], ["network/optim:Full"], ["cpu/optim:Full", "network/optim:Full"]]))
    # observing the remaining work makes a lazy model fold its pending progress at every time advance: half of the cases only read the rates
    case["observe"] = draw(st.sampled_from(["remaining", "rates"]))
    group_host = None
    if draw(st.integers(0, 2)) == 0:
        group_host = draw(st.sampled_from(names))
    exec_hosts = [n for n in names if n != group_host]
    nh = [0]

    def handle():
        nh[0] += 1
        return nh[0]
    actors = []
    nact = draw(st.integers(1, 4))
    for ai in range(nact):
        host = draw(st.sampled_from(names))
        steps = []
        kinds = ["comm", "comm"] if len(names) > 1 else []
        if exec_hosts:
            kinds += ["exec", "exec", "exec"]
        if p.disks:
            kinds += ["io", "io"]
        if not kinds:
            kinds = ["sleep"]
        for _ in range(draw(st.integers(1, 5))):
            kind = draw(st.sampled_from(kinds))
            s = {"op": kind, "pause": draw(pauses()), "wait": draw(st.booleans())}
            d = draw(secs())
            if kind == "exec":
                s["h"] = handle()
                s["host"] = host if host in exec_hosts and draw(st.integers(0, 3)) else draw(st.sampled_from(exec_hosts))
                sp = p.speed(s["host"])
                s["flops"] = d * sp
                o = draw(st.integers(0, 6))
                if o == 6 or (o == 5 and p.cores(s["host"]) > 1):
                    # a bound ABOVE the speed of one core: it must change nothing for a single-core execution (the core is the limit)
                    s["bound"] = sp * draw(st.sampled_from([1.25, 1.5, 2.5, 2.0, 4.0]))
                elif o == 0:
                    s["bound"] = sp * draw(st.sampled_from([0.125, 0.25, 0.5, 0.75, 1.0, 2.0]))
                elif o == 1:
                    s["prio"] = draw(st.sampled_from([0.5, 2.0, 4.0, 3.0]))
                elif o == 2:
                    s["bound"] = sp * draw(st.sampled_from([0.25, 0.5]))
                    s["prio"] = draw(st.sampled_from([0.5, 2.0]))
                elif o == 3:
                    s["threads"] = draw(st.integers(2, 6))
            elif kind == "comm":
                s["h"] = handle()
                s["dst"] = draw(st.sampled_from([n for n in names if n != host]))
                bw = min(p.links[l]["bw"] for l in p.route(host, s["dst"]))
                s["size"] = max(1, int(d * bw))
                s["rdelay"] = draw(pauses())
            elif kind == "io":
                s["h"] = handle()
                s["disk"] = draw(st.sampled_from(sorted(p.disks)))
                s["type"] = draw(st.sampled_from(["read", "write"]))
                dk = p.disks[s["disk"]]
                s["size"] = max(1, int(d * (dk["read_bw"] if s["type"] == "read" else dk["write_bw"])))
            steps.append(s)
        actors.append({"host": host, "steps": steps})
    if group_host is not None:
        k = draw(st.integers(1, 9))
        d = draw(secs())
        g = {"op": "group", "pause": draw(pauses()), "k": k, "flops": d * p.speed(group_host), "hs": [handle() for _ in range(k)]}
        if draw(st.booleans()):
            # the k executions all carry the same bound above the speed of one core: still S x min(1, n/k) each
            g["bound"] = p.speed(group_host) * draw(st.sampled_from([1.25, 1.5, 2.5]))
        pos = draw(st.integers(0, nact - 1))
        # the group's actor lives on the group's host; it only runs the group (plus sleeps), so the k executions are alone on that host
        actors.insert(pos, {"host": group_host, "steps": [g]})
    case["actors"] = actors
    return case


# ------------------------------------------------------------------------------------------------ property
class C21(core.Prop):
    id = "C21"
    drivers = ["s4u_model"]
    sizes = {"quick": 1000, "thorough": 30000}
    max_workers = 6
    ready = True
    technique = ("property-based testing (Hypothesis): generated concurrent workloads sampled at every time advance; conservation and capacity "
                 "validity predicates over the sampled trajectories, closed form for k equal executions")
    rule = ("Generated workloads on flat platforms with real sharing (vf/platgen.py: 1-3 hosts of 1-4 cores, shared / fat-pipe / split-duplex links, "
            "routes of 1-3 links, disks): 1-4 actors, each a sequence of pauses and asynchronous activities waited at once or at the end: execs "
            "(unbounded, bounded, priorities 0.5-4, 2-6 threads, local or remote), communications sharing links (raw/CM02/LV08/SMPI, cross-traffic "
            "on/off), reads and writes sharing disks; amounts = capacity x 0.05..8 s so that activities overlap; 1 case in 3 adds a group of k=1..9 equal "
            "single-core executions alone on an n-core host; 1 in 4 uses cpu|network/optim:Full. Sampled at EVERY Engine::on_time_advance: "
            "Activity::get_remaining and the granted rate of every running activity, Host::get_load, Link::get_load, the three constraints of every disk. "
            "Oracle: remaining = requested amount at start, never increases, > 0 before the completion date and 0 at it; sum of granted rate x step "
            "= amount; per step, decrease of remaining = granted rate x step; sampled load <= capacity for hosts (cores x speed), links, disks; load "
            "recomputed from the observed progress <= capacity; each of k equal executions (unbounded, or all with the same bound above S) progresses at S x min(1, n/k) in every step; a single-core "
            "execution is never granted more than min(bound, S) (bounds 1.25-4 x S are generated on multi-core hosts). "
            "Non-trivial: >= 2 activities share a resource (host, link or disk) over a step of positive length.")
    assumptions = ["tolerances: 1e-9 relative + precision/work-amount (1e-5 flop|byte) + 8 ulp of the amounts; disks: + 0.5 byte per activity and step "
                   "(DiskS19Model moves rint(rate x step) bytes per step: remaining stays a whole number of bytes, never negative, the total is exact)",
                   "the rate sampled at a time advance is the rate the last solve granted, i.e. the rate over the step that just ended",
                   "capacities are constant in this property (profiles and pstate changes belong to C22 / C19)",
                   "multi-thread executions: the action carries threads x flops; its initial remaining is taken as observed",
                   "half of the cases only read the granted rates (observe=rates): calling get_remaining() makes a lazy model fold its pending "
                   "progress, so observing it at every time advance hides errors of the lazy bookkeeping"]

    def strategy(self, tier):
        return workloads()

    def fixed_cases(self, tier):
        return []

    # -------------------------------------------------------------------------------------------- scenario
    def scenario(self, case):
        plat = case["platform"]
        p = Plat(plat)
        cfg = list(case.get("optim", [])) + ["network/model:" + case["model"]]
        if "crosstraffic" in case:
            cfg.append("network/crosstraffic:%d" % (1 if case["crosstraffic"] else 0))
        actors, meta = [], {}
        nmb = 0
        for ai, a in enumerate(case["actors"]):
            ops, pending = [], []
            name = "a%d" % ai
            for s in a["steps"]:
                if s.get("pause", 0) > 0:
                    ops.append(["sleep", s["pause"]])
                if s["op"] == "sleep":
                    continue
                if s["op"] == "group":
                    for h in s["hs"]:
                        meta[h] = {"kind": "exec", "amount": s["flops"], "host": a["host"], "group": True, "actor": name, "start_op": len(ops),
                                   "bound": s.get("bound")}
                        ops.append(["exec_async", s["flops"], {"bound": s["bound"]} if "bound" in s else {}, h])
                    for h in s["hs"]:
                        meta[h]["info0"] = len(ops)
                        ops.append(["act_info", h])
                    ops.append(["wait_all", list(s["hs"])])
                    for h in s["hs"]:
                        meta[h]["info1"] = len(ops)
                        ops.append(["act_info", h])
                    continue
                h = s["h"]
                if s["op"] == "exec":
                    opts = {"host": s["host"]}
                    for k in ("bound", "prio", "threads"):
                        if k in s:
                            opts[k] = s[k]
                    meta[h] = {"kind": "exec", "amount": s["flops"], "host": s["host"], "threads": s.get("threads", 1), "bound": s.get("bound"),
                               "prio": s.get("prio"), "actor": name}
                    ops.append(["exec_async", s["flops"], opts, h])
                elif s["op"] == "comm":
                    meta[h] = {"kind": "comm", "amount": float(s["size"]), "src": a["host"], "dst": s["dst"], "actor": name}
                    ops.append(["put_async", nmb, s["size"], {}, h])
                    actors.append({"name": "r%d" % nmb, "host": s["dst"], "ops": ([["sleep", s["rdelay"]]] if s["rdelay"] > 0 else []) + [["get", nmb]]})
                    nmb += 1
                else:
                    meta[h] = {"kind": "io", "amount": float(s["size"]), "disk": s["disk"], "type": s["type"], "actor": name}
                    ops.append(["io_async", s["disk"], s["size"], s["type"], h])
                meta[h]["info0"] = len(ops)
                ops.append(["act_info", h])
                if s["wait"]:
                    ops.append(["wait", h])
                    meta[h]["info1"] = len(ops)
                    ops.append(["act_info", h])
                else:
                    pending.append(h)
            for h in pending:
                ops.append(["wait", h])
            for h in pending:
                meta[h]["info1"] = len(ops)
                ops.append(["act_info", h])
            actors.append({"name": name, "host": a["host"], "ops": ops})
        sc = {"cfg": cfg, "platform": plat, "objects": {"mailbox": nmb}, "quiet": ["actor", "onoff", "act", "adv"], "actors": actors,
              "sample": {"load": sorted(p.hosts), "usage": p.all_link_names()},
              "msample": {"rate": True, "raw": case.get("observe", "remaining") == "rates", "disks": sorted(p.disks), "cpu": sorted(p.hosts),
                          "links": p.all_link_names()}}
        return sc, meta

    # -------------------------------------------------------------------------------------------- oracle
    def check(self, case):
        oc = core.Outcome()
        sc, meta = self.scenario(case)
        log = model.run(sc, cpu=30, wall=300)
        if log.wall_exceeded:
            raise core.Inconclusive()
        if not log.done:
            oc.bad(model.crash_sig(log), "s4u_model did not finish: " + log.crash_text())
            return oc
        p = Plat(case["platform"])
        labels = set([case["model"]])
        if case.get("optim"):
            labels.add("optim-nondefault")
        ops = {(o["a"], o["i"]): o for o in log.ops()}
        samples = []           # (t, s-record, ms-record)
        cur = None
        for l in log.lines:
            if l["k"] == "s":
                cur = [T(l["t"]), l, None]
                samples.append(cur)
            elif l["k"] == "ms":
                if cur is not None and cur[0] == T(l["t"]) and cur[2] is None:
                    cur[2] = l
                else:
                    cur = [T(l["t"]), None, l]
                    samples.append(cur)
        if any(s[1] is None or s[2] is None for s in samples):
            raise core.Inconclusive("unpaired sample records")
        # ---- per activity: dates, trajectory
        acts = {}
        for h, m in sorted(meta.items()):
            i0, i1 = ops.get((m["actor"], m["info0"])), ops.get((m["actor"], m["info1"]))
            if i0 is None or i1 is None or "r" not in i0 or "r" not in i1:
                oc.bad("activity-not-completed:" + m["kind"], "activity %d (%r) was not waited for successfully: %r / %r" % (h, m, i0, i1))
                continue
            a = dict(m, h=h, start=T(i1["r"]["start"]), finish=T(i1["r"]["finish"]), rem0=T(i0["r"]["remaining"]), state1=i1["r"]["state"],
                     rem1=T(i1["r"]["remaining"]))
            acts[h] = a
        if oc.violations:
            return oc
        WPREC = model.PREC_W
        use_rem = case.get("observe", "remaining") == "remaining"
        labels.add("observe-" + case.get("observe", "remaining"))

        def tolw(a, extra=0.0):
            return 1e-9 * a["amount0"] + WPREC + 8 * math.ulp(a["amount0"]) + extra
        for h, a in sorted(acts.items()):
            who = "%s %d (%s)" % (a["kind"], h, ", ".join("%s=%r" % (k, a[k]) for k in ("amount", "host", "src", "dst", "disk", "type", "threads",
                                                                                       "bound", "prio") if a.get(k) is not None))
            a["who"] = who
            # remaining at start
            amount = a["amount"]
            if a["kind"] == "exec" and a.get("threads", 1) > 1:
                a["amount0"] = a["rem0"]
            elif a["kind"] == "comm" and a["rem0"] == 0 and a["start"] > ops[(a["actor"], a["info0"])]["t_ret"]:
                a["amount0"] = amount          # not matched yet when asked: no model action, the getter reports 0 (not an observation of the transfer)
            else:
                a["amount0"] = amount
                if a["rem0"] != amount:
                    oc.bad("remaining-at-start:" + a["kind"], "%s: get_remaining() right after the start is %r, requested %r" % (who, a["rem0"], amount))
            if a["rem1"] != 0:
                oc.bad("remaining-after-completion:" + a["kind"], "%s: get_remaining() after wait() is %r" % (who, a["rem1"]))
            # trajectory
            pts = [(a["start"], a["amount0"], None)]
            for t, s, ms in samples:
                if t <= a["start"] or t > a["finish"]:
                    continue
                e = ms.get("rate", {}).get(str(h))
                if e is None and t == a["finish"] and len(pts) > 1 and pts[-1][0] == t and pts[-1][1] == 0:
                    continue        # several time advances at one date (steps shorter than an ulp): it completed at an earlier one
                if e is None:
                    oc.bad("activity-without-action:" + a["kind"], "%s: no model action at date %r although it runs from %r to %r" % (who, t, a["start"], a["finish"]))
                    break
                pts.append((t, T(e[1]), T(e[0])))
            a["pts"] = pts
            if oc.violations:
                break
            if a["finish"] > a["start"] and (len(pts) < 2 or pts[-1][0] != a["finish"]):
                oc.bad("no-time-advance-at-completion:" + a["kind"], "%s: completes at %r but the last time advance inside its life is at %r"
                       % (who, a["finish"], pts[-1][0]))
                break
            granted = 0.0
            nsteps = 0
            core_cap = None
            if a["kind"] == "exec" and a.get("threads", 1) == 1:
                core_cap = min(p.speed(a["host"]), a["bound"]) if a.get("bound") else p.speed(a["host"])
            io_slack = 0.5 if a["kind"] == "io" else 0.0
            dur = a["finish"] - a["start"]
            for (t0, r0, _), (t1, r1, rate) in zip(pts, pts[1:]):
                dt = t1 - t0
                nsteps += 1
                granted += rate * dt
                if core_cap is not None:
                    # a single-core execution never runs faster than one core, nor than its bound
                    if rate > core_cap * (1 + 1e-9) or (use_rem and (r0 - r1) > core_cap * dt * (1 + 1e-9) + tolw(a)):
                        oc.bad("single-core-exec-exceeds-core-speed", "%s: between %r and %r it is granted %r flop/s and progresses by %r flops, but "
                               "one core of %s delivers %r flop/s%s" % (who, t0, t1, rate, (r0 - r1) if use_rem else rate * dt, a["host"],
                                                                       p.speed(a["host"]), "" if not a.get("bound") else " and its bound is %r" % a["bound"]))
                        break
                if not use_rem:
                    continue
                if r1 > r0 + 8 * math.ulp(a["amount0"]):
                    oc.bad("remaining-increases:" + a["kind"], "%s: remaining goes from %r at %r to %r at %r" % (who, r0, t0, r1, t1))
                    break
                if t1 < a["finish"] - (1e-9 + 1e-9 * dur) and r1 <= 0 and a["amount0"] > WPREC:
                    oc.bad("remaining-zero-before-completion:" + a["kind"], "%s: remaining is %r at %r but it completes at %r" % (who, r1, t1, a["finish"]))
                    break
                if (t1, r1, rate) == pts[-1] and r1 != 0:
                    oc.bad("remaining-nonzero-at-completion:" + a["kind"], "%s: remaining is %r at the time advance of its completion (date %r)"
                           % (who, r1, t1))
                    break
                if abs((r0 - r1) - rate * dt) > tolw(a, io_slack) + 1e-9 * rate * dt:
                    oc.bad("progress-differs-from-granted-rate:" + a["kind"], "%s: between %r and %r remaining decreases by %r but the granted rate "
                           "%r x %r s = %r" % (who, t0, t1, r0 - r1, rate, dt, rate * dt))
                    break
            else:
                if abs(granted - a["amount0"]) > tolw(a, io_slack) * max(1, nsteps) and a["finish"] > a["start"]:
                    oc.bad("work-not-conserved:" + a["kind"], "%s: sum of granted rate x step over its life = %r, requested %r (%d steps)"
                           % (who, granted, a["amount0"], nsteps))
            if oc.violations:
                break
        if oc.violations:
            oc.labels = sorted(labels)
            return oc
        # ---- per step: capacities
        xt = case.get("crosstraffic")
        if xt is None:
            xt = model.NET_MODELS[case["model"]][3]
        bf_spec = model.NET_MODELS[case["model"]][1]
        for a in acts.values():
            if a["kind"] == "comm":
                a["w"] = p.flow_weights(a["src"], a["dst"], xt)
                a["bf"] = max(model.factor_values(bf_spec, int(a["amount"])))
        shared_step = False
        prev_t = 0.0
        for t, s, ms in samples:
            dt = t - prev_t
            running = []       # (activity, decrease of remaining over this step)
            for a in acts.values():
                pts = a["pts"]
                for (t0, r0, _), (t1, r1, rate) in zip(pts, pts[1:]):
                    if t1 == t and t0 == prev_t:
                        running.append((a, (r0 - r1) if use_rem else rate * (t1 - t0), t1 - t0, rate))
            # sampled loads
            for hname in p.hosts:
                cap = p.cores(hname) * p.speed(hname)
                load = T(s["load"][hname])
                if load > cap * (1 + 1e-9) + WPREC:
                    oc.bad("host-load-exceeds-capacity", "at %r Host::get_load(%s) = %r > %d cores x %r" % (t, hname, load, p.cores(hname), p.speed(hname)))
                c = ms["cpu"][hname]
                if T(c[1]) != cap:
                    oc.bad("host-capacity-differs", "at %r the CPU constraint of %s has bound %r, platform says %r" % (t, hname, T(c[1]), cap))
            for lname, l in p.links.items():
                u = T(s["usage"][lname])
                if u > l["bw"] * (1 + 1e-9) + WPREC:
                    oc.bad("link-load-exceeds-capacity", "at %r Link::get_load(%s) = %r > bandwidth %r" % (t, lname, u, l["bw"]))
            for dname, d in p.disks.items():
                v = [T(x) for x in ms["disk"][dname]]
                caps = [max(d["read_bw"], d["write_bw"]), d["read_bw"], d["write_bw"]]
                for k, what in enumerate(["read+write", "read", "write"]):
                    if v[k] > caps[k] * (1 + 1e-9) + WPREC:
                        oc.bad("disk-load-exceeds-capacity", "at %r the %s usage of disk %s is %r > %r" % (t, what, dname, v[k], caps[k]))
            if oc.violations:
                break
            # loads recomputed from the observed progress (work units over this step)
            if dt > 0:
                per_host, per_link, per_disk = {}, {}, {}
                for a, dec, adt, rate in running:
                    if adt != dt:
                        continue            # started in the middle of nothing: activities start at event dates, so adt == dt always
                    slack = 8 * math.ulp(a["amount0"]) + WPREC
                    if a["kind"] == "exec":
                        e = per_host.setdefault(a["host"], [0.0, 0.0, 0])
                        e[0] += dec
                        e[1] += slack
                        e[2] += 1 if dec > 0 else 0
                    elif a["kind"] == "io":
                        e = per_disk.setdefault(a["disk"], {"read": [0.0, 0.0, 0], "write": [0.0, 0.0, 0]})[a["type"]]
                        e[0] += dec
                        e[1] += slack + 0.5
                        e[2] += 1 if dec > 0 else 0
                    else:
                        for lname, w in a["w"].items():
                            e = per_link.setdefault(lname, [0.0, 0.0, 0, 0.0])
                            v = w * dec / a["bf"]
                            if p.links[lname]["policy"] == "FATPIPE":
                                e[0] = max(e[0], v)
                            else:
                                e[0] += v
                            e[1] += slack
                            e[2] += 1 if dec > 0 else 0
                for hname, (used, slack, n) in per_host.items():
                    cap = p.cores(hname) * p.speed(hname) * dt
                    if n >= 2:
                        shared_step = True
                        labels.add("shared-host")
                    if used > cap * (1 + 1e-9) + slack:
                        oc.bad("host-progress-exceeds-capacity", "between %r and %r the executions on %s progressed by %r flops in total > %d cores x %r x %r s"
                               % (prev_t, t, hname, used, p.cores(hname), p.speed(hname), dt))
                for lname, (used, slack, n, _) in per_link.items():
                    cap = p.links[lname]["bw"] * dt
                    if n >= 2:
                        shared_step = True
                        labels.add("shared-link" if p.links[lname]["policy"] != "FATPIPE" else "shared-fatpipe")
                    if used > cap * (1 + 1e-9) + slack:
                        oc.bad("link-progress-exceeds-capacity", "between %r and %r the communications crossing %s (%s) progressed by %r weighted bytes > "
                               "%r B/s x %r s" % (prev_t, t, lname, p.links[lname]["policy"], used, p.links[lname]["bw"], dt))
                for dname, e in per_disk.items():
                    d = p.disks[dname]
                    tot = e["read"][0] + e["write"][0]
                    if e["read"][2] + e["write"][2] >= 2:
                        shared_step = True
                        labels.add("shared-disk")
                    for used, cap, slack, what in ((e["read"][0], d["read_bw"], e["read"][1], "read"), (e["write"][0], d["write_bw"], e["write"][1], "written"),
                                                   (tot, max(d["read_bw"], d["write_bw"]), e["read"][1] + e["write"][1], "moved")):
                        if used > cap * dt * (1 + 1e-9) + slack:
                            oc.bad("disk-progress-exceeds-capacity", "between %r and %r %r bytes were %s on disk %s > %r B/s x %r s"
                                   % (prev_t, t, used, what, dname, cap, dt))
            if oc.violations:
                break
            prev_t = t
        # ---- k equal executions on an n-core host
        groups = {}
        for a in acts.values():
            if a.get("group"):
                groups.setdefault(a["host"], []).append(a)
        for hname, g in groups.items():
            k, n, S = len(g), p.cores(hname), p.speed(hname)
            share = S * min(1.0, n / k)
            labels.add("equal-group")
            labels.add("equal-group:k%sn" % ("<" if k < n else "=" if k == n else ">"))
            for a in g:
                for (t0, r0, _), (t1, r1, rate) in zip(a["pts"], a["pts"][1:]):
                    dt = t1 - t0
                    if (use_rem and abs((r0 - r1) - share * dt) > 1e-9 * share * dt + tolw(a)) or abs(rate - share) > 1e-9 * share:
                        oc.bad("equal-executions-share", "%d equal executions on %s (%d cores, speed %r): between %r and %r one of them progresses by %r "
                               "flops (granted rate %r), expected %r x %r s = %r" % (k, hname, n, S, t0, t1, r0 - r1, rate, share, dt, share * dt))
                        break
                exp = a["amount"] / share
                if not model.close(a["finish"] - a["start"], exp, date=a["finish"]):
                    oc.bad("equal-executions-share", "%d equal executions of %r flops on %s (%d cores, speed %r) take %r s, expected %r"
                           % (k, a["amount"], hname, n, S, a["finish"] - a["start"], exp))
                if oc.violations:
                    break
        for a in acts.values():
            labels.add(a["kind"])
            if a.get("threads", 1) > 1:
                labels.add("threads")
            if a.get("bound") is not None:
                labels.add("bound")
                if a["kind"] == "exec" and a.get("threads", 1) == 1 and a["bound"] > p.speed(a["host"]):
                    labels.add("bound>S")
                    n = p.cores(a["host"])
                    if n > 1:
                        labels.add("bound>S:multicore")
                        # is there a step of its life with fewer running executions than cores on that host?
                        for (t0, _, _), (t1, _, _) in zip(a["pts"], a["pts"][1:]):
                            if t1 > t0 and sum(1 for b in acts.values() if b["kind"] == "exec" and b["host"] == a["host"]
                                               and b["start"] <= t0 and b["finish"] >= t1) < n:
                                labels.add("bound>S:idle-cores")
                                break
            if a.get("prio") is not None:
                labels.add("prio")
        labels.add("steps-%s" % ("<5" if len(samples) < 5 else "5-15" if len(samples) <= 15 else ">15"))
        oc.labels = sorted(labels)
        oc.nontrivial = shared_step
        oc.info = {"activities": len(acts), "steps": len(samples)}
        return oc


PROP = C21()
