"""C17 Selective (lazy) solving equals full recomputation."""
from .. import core, lmm


class C17(core.Prop):
    id = "C17"
    drivers = ["lmm_driver"]
    ready = True
    technique = "property-based differential testing: selective-update solve vs a fresh full solve of the same system after every step of generated histories"
    sizes = {"quick": 15000, "thorough": 400000}
    rule = ("C15 histories with the maxmin solver and selective update ON, a solve after random subsets of modifications, plus counter-jump "
            "operations that put visited_counter_ at UINT_MAX-k (k<=4) so that the wrap-around code runs within the history. After every solve "
            "the driver builds a FRESH non-selective system from its own shadow of the history (current constraints, variables, elements, the "
            "penalties currently applied) and solves it; all rates must agree (relative 1e-9). "
            "Non-trivial: some solve happens while the system has >=2 connected components with enabled variables and >=1 modification since the "
            "previous solve (so the selective path really skips something).")
    assumptions = ["same arithmetic in a different visiting order only: tolerance relative 1e-9 + absolute 1e-12"]

    def strategy(self, tier):
        return lmm.histories(solvers=("maxmin",), selective=True, limits="some", jumps=True)

    def check(self, case):
        oc = core.Outcome()
        r = lmm.run_history(case, fresh=True)
        steps, done = lmm.parse(r)
        if not done:
            if r.wall_exceeded:
                raise core.Inconclusive()
            oc.bad("driver-crash", "lmm_driver ended with rc=%s; stderr tail: %s" % (r.rc, r.err[-1500:]))
        nsolve = 0
        multi = False
        wrapped = any(o[0] == "jump" for o in case["ops"])
        for s in steps:
            st_ = s["st"]
            if not st_["solved"]:
                continue
            nsolve += 1
            fresh = st_.get("fresh")
            if fresh is None:
                continue
            for v, f in zip(st_["var"], fresh):
                if abs(v["value"] - f) > 1e-9 * max(abs(v["value"]), abs(f)) + 1e-12:
                    oc.bad("selective-differs", "after op #%d: variable uid %d has rate %r with selective update, %r when the current system is solved from scratch"
                           % (s["i"], v["uid"], v["value"], f))
            if nsolve >= 2 and components(st_) >= 2:
                multi = True
            if oc.violations:
                break
        if wrapped:
            oc.labels.append("counter-jump")
        if multi:
            oc.labels.append("multi-component-resolve")
        oc.nontrivial = multi
        return oc


def components(st_):
    parent = list(range(len(st_["cnst"])))

    def find(x):
        while parent[x] != x:
            parent[x] = parent[parent[x]]
            x = parent[x]
        return x
    used = set()
    for v in st_["var"]:
        if not lmm.enabled(v):
            continue
        cs = [c for c, w in v["elems"]]
        for c in cs:
            used.add(c)
        for a, b in zip(cs, cs[1:]):
            parent[find(a)] = find(b)
    return len({find(c) for c in used})


PROP = C17()
