"""C38 Model-checker reductions are sound."""
from hypothesis import strategies as st

from .. import core, mcrun, refsem, syncgen

REDUCTIONS = ["dpor", "sdpor", "odpor"]


class C38(core.Prop):
    id = "C38"
    drivers = ["s4u_interp"]
    ready = True
    sizes = {"quick": 24, "thorough": 300}
    max_workers = 8
    technique = ("property-based differential testing (Hypothesis): the set of terminal outcomes and the deadlock/assertion verdict of "
                 "simgrid-mc under every reduction vs an independent all-interleavings reference explorer and vs reduction none")
    rule = ("Synchronisation programs of 2-4 actors x <=6 operations (thorough: <=8) over mutexes (lock/try_lock/unlock, plain and recursive), "
            "semaphores, condition variables (wait, wait_for), barriers, mailboxes (blocking put/get) and MC_random, run as the application "
            "of simgrid-mc with max-errors:-1; the application prints one OUTCOME line (observations of every actor) when its last actor ends. "
            "Oracle: for reduction in {dpor, sdpor, odpor} (x exploration-algo DFS/BeFS x strategy none/uniform with a drawn rand-seed, drawn per "
            "case) and for reduction none when the reference counts <= 400 (thorough: 3000) maximal paths: the SET of distinct OUTCOME lines equals the set of "
            "complete terminal outcomes of the reference explorer (vf/refsem.py, model-checker granularity), a deadlock is reported iff the "
            "reference has a reachable deadlock, and the checker ends normally. "
            "Non-trivial: the reference has >=2 complete outcomes, or a reachable deadlock next to a complete outcome.")
    assumptions = ["the reference explorer is itself compared with reduction none on every program small enough",
                   "udpor is not exercised here: it refuses MUTEX_TRYLOCK explicitly and stops early on plain lock/unlock programs (recorded finding)"]

    none_limit = 400      # reduction none runs one application fork per trace: bounded by the reference's path count

    def strategy(self, tier):
        big = tier == "thorough"
        self.none_limit = 3000 if big else 400
        prog = syncgen.programs(kinds=("mutex", "sem", "cond", "barrier", "mailbox", "random", "tick"), max_actors=4 if big else 3,
                                max_ops=8 if big else 6, mc=True, max_mutex=1, max_sem=1, max_cond=1, max_bar=1,
                                profile="contention")
        variant = st.fixed_dictionaries({"algo": st.sampled_from(["DFS", "DFS", "DFS", "DFS", "DFS", "BeFS"]),
                                         "strategy": st.sampled_from(["none", "none", "uniform"]),
                                         "seed": st.integers(0, 1000)})
        return st.tuples(prog, variant).map(lambda t: {"program": t[0], "variant": t[1]})

    def check(self, case):
        oc = core.Outcome()
        sc = case["program"]
        var = case["variant"]
        try:
            ex = refsem.explore(sc, "mc", max_states=150000)
        except refsem.TooBig:
            oc.invalid = True
            return oc
        ref = ex.complete_outcomes()
        ref_dl = bool(ex.deadlocks)
        extra = []
        if var["algo"] != "DFS":
            extra.append("model-check/exploration-algo:" + var["algo"])
        if var["strategy"] != "none":
            extra += ["model-check/strategy:" + var["strategy"], "model-check/rand-seed:%d" % var["seed"]]
        reds = list(REDUCTIONS)
        if ex.npaths <= self.none_limit:
            reds.append("none")
            oc.labels.append("none-run")
        oc.evals = 0
        # known finding (known_findings.json): ODPOR never terminates when a multi-valued transition (MC_random) is executed
        # below the root of the exploration.  Such programs get a small CPU budget under odpor so that the search goes on.
        random_below_root = any(op[0] == "mc_random" and i > 0 for a in sc["actors"] for i, op in enumerate(a["ops"]))
        for red in reds:
            known_class = red == "odpor" and random_below_root
            res = mcrun.run(sc, red, extra if red != "none" else [], cpu=4 if known_class else 40, wall=1200)
            oc.evals += 1
            if res.r.wall_exceeded:
                raise core.Inconclusive()
            if known_class and res.crashed:
                oc.labels.append("odpor-known-class")
                oc.bad("odpor-nontermination:multi-valued-transition-below-root",
                       "reduction odpor does not terminate on a program that executes MC_random after another transition "
                       "(rc=%s cpu_exceeded=%s, %d OUTCOME lines printed so far for %d distinct outcomes)"
                       % (res.rc, res.r.cpu_exceeded, res.noutcome_lines, len(res.outcomes)))
                continue
            if res.load_failure:
                raise core.Inconclusive()       # simgrid-mc's own 5 s wall-clock limit to start its child: load, not a verdict
            befs = "befs:" if (var["algo"] != "DFS" and red != "none") else ""
            # root-cause classes of the recorded soundness findings (known_findings.json)
            cls = []
            if red == "dpor" and var["strategy"] != "none":
                cls.append("uniform-strategy")
            if red in ("sdpor", "odpor") and any(op[0] == "cv_wait_for" for a in sc["actors"] for op in a["ops"]):
                cls.append("timed-condvar")
            if red == "dpor" and any(a["ops"][i][0] == "lock" and b["ops"][j][0] == "try_lock" and a["ops"][i][1] == b["ops"][j][1]
                                     for a in sc["actors"] for b in sc["actors"] if a is not b
                                     for i in range(len(a["ops"])) for j in range(len(b["ops"]))):
                cls.append("lock-vs-trylock")          # a blocking lock and a try_lock of one mutex by two actors
            cls = ":" + ("+".join(cls) or "plain") if red != "none" else ""
            if res.crashed and "Assertion lock_handle > 0 failed" in res.r.err:
                oc.bad("%sabort:lock_handle-assertion:%s" % (befs, red), "simgrid-mc reduction %s (%s) aborts: 'Assertion lock_handle > 0 "
                       "failed'" % (red, extra))
                continue
            if res.crashed and "A condvar wait is always preceeded by an async_lock right" in res.r.err:
                oc.bad("%sabort:condvar-wait-without-async-lock:%s" % (befs, red), "simgrid-mc reduction %s (%s) aborts: 'A condvar wait is "
                       "always preceeded by an async_lock right?'" % (red, extra))
                continue
            if res.crashed and "Actor -1 does not exist in state" in res.r.err:
                oc.bad("%sabort:actor--1-does-not-exist:%s" % (befs, red), "simgrid-mc reduction %s (%s) aborts: %s"
                       % (red, extra, [l for l in res.r.err.splitlines() if "does not exist in state" in l][:1]))
                continue
            if res.crashed:
                oc.bad(befs + "checker-crash:" + red, "simgrid-mc reduction %s (%s) did not end normally (rc=%s cpu_exceeded=%s):\n%s"
                       % (red, extra, res.rc, res.r.cpu_exceeded, res.tail()))
                continue
            if res.no_transition:
                oc.labels.append("no-visible-transition")     # the application ended before the checker had anything to explore
                continue
            if res.outcomes != ref:
                missing = sorted(ref - res.outcomes)[:3]
                extra_o = sorted(res.outcomes - ref)[:3]
                sig = befs + ("outcomes-missed:" if missing else "outcomes-unreachable:")
                oc.bad(sig + red + cls, "reduction %s (%s): %d distinct outcomes, the reference has %d; missing e.g. %s; not in the reference e.g. %s "
                       "(%d traces explored, reference counts %d maximal paths)" % (red, extra, len(res.outcomes), len(ref), missing, extra_o,
                                                                                     res.traces, ex.npaths))
            if res.deadlock != ref_dl:
                oc.bad(befs + ("deadlock-missed:" if ref_dl else "deadlock-spurious:") + red + cls,
                       "reduction %s (%s): deadlock reported=%s, reference reachable deadlock=%s" % (red, extra, res.deadlock, ref_dl))
            if res.assertion != ex.assert_fail:
                oc.bad("assertion-verdict:" + red, "reduction %s: assertion failure reported=%s, reference=%s" % (red, res.assertion, ex.assert_fail))
        if len(ref) >= 2:
            oc.labels.append("ref>=2-outcomes")
        if ref_dl:
            oc.labels.append("ref-deadlock")
        if var["algo"] != "DFS":
            oc.labels.append("BeFS")
        if var["strategy"] != "none":
            oc.labels.append("uniform-strategy")
        oc.nontrivial = len(ref) >= 2 or (ref_dl and len(ref) >= 1)
        oc.info = {"ref_outcomes": len(ref), "ref_paths": ex.npaths, "ref_states": ex.nstates}
        return oc


PROP = C38()
