"""C04 Mutex semantics: exclusion, FIFO hand-off, ownership, recursion."""
from .. import core, s4u, syncgen, syncspec


class SyncProp(core.Prop):
    """shared by C04-C07: run a generated synchronisation program, replay its kernel-ordered log through the sequential
    specification of vf/syncspec.py"""
    drivers = ["s4u_interp"]
    max_workers = 6
    kinds = ("mutex",)
    nontrivial_labels = ()
    gen_args = {}

    def strategy(self, tier):
        return syncgen.programs(kinds=self.kinds, **self.gen_args)

    def check(self, case):
        oc = core.Outcome()
        log = s4u.run(case, cpu=20, wall=240)
        if log.wall_exceeded:
            raise core.Inconclusive()
        if not log.done:
            oc.bad("run-crashed", "s4u_interp did not finish: " + log.crash_text())
            return oc
        labels = set()
        try:
            syncspec.replay(case, log, oc, labels)
        except syncspec.Desync as e:
            oc.invalid = True
            oc.info = {"desync": str(e)}
            return oc
        if log.of("deadlock"):
            labels.add("deadlock")
        oc.labels = sorted(labels)
        oc.nontrivial = any(l in labels for l in self.nontrivial_labels)
        return oc


class C04(SyncProp):
    id = "C04"
    kinds = ("mutex",)
    sizes = {"quick": 1500, "thorough": 60000}
    ready = True
    nontrivial_labels = ("mutex-blocks", "recursive-trylock-depth>=2", "recursive-trylock-first")
    technique = ("property-based testing (Hypothesis): generated lock/try_lock/unlock programs run on the real kernel, their "
                 "kernel-ordered log replayed through a sequential mutex specification (model-based oracle, exact dates)")
    rule = ("Programs of 2-5 actors x <=10 operations over 1-3 mutexes (each plain or recursive): lock, try_lock (+ unlock iff it "
            "succeeded), unlock, get_owner, dyadic sleeps (multiples of 1/4 s so that dates coincide often); well-formed by construction "
            "(an actor only unlocks what it holds; a plain mutex is never locked twice by its owner (undefined behaviour); holders may end while owning). "
            "Oracle: the sequential specification (owner, recursion depth, FIFO queue) driven by the kernel-ordered log: every try_lock result, "
            "every get_owner value, and the exact return date of every lock (the date of the unlock that hands the mutex to the HEAD of the "
            "queue) must match; an operation that returns without grant, or never returns although granted, is a violation. "
            "Non-trivial: some locker blocks, or a recursive mutex is acquired through try_lock.")
    assumptions = ["sequential runs (contexts/nthreads:1): the order of request records is the order in which the kernel handles them",
                   "model-checker and sthread executions of the same programs are covered by C14/C38, not here"]


PROP = C04()
