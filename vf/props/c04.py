"""C04 Mutex semantics: exclusion, FIFO hand-off, ownership, recursion."""
from .. import core, s4u, syncgen, syncspec


class SyncProp(core.Prop):
    """shared by C04-C07: run a generated synchronisation program, replay its kernel-ordered log through the sequential
    specification of vf/syncspec.py"""
    drivers = ["s4u_interp", "pthread_interp"]
    max_workers = 6
    kinds = ("mutex",)
    nontrivial_labels = ()
    gen_args = {}

    mc_share = 20      # one generated case in `mc_share` is a model-checker case

    def strategy(self, tier):
        from hypothesis import strategies as st
        real = syncgen.programs(kinds=self.kinds, **self.gen_args)
        # the model-checker half of the statements ("under every interleaving explored by the model checker"): small programs of
        # the same object kind, explored by simgrid-mc WITHOUT reduction (all interleavings); programs with more than 400 traces are discarded
        mc = syncgen.programs(kinds=tuple(self.kinds) + ("tick",), mc=True, max_actors=3, max_ops=4, max_mutex=2, max_sem=1, max_cond=1,
                              max_bar=1, profile="contention").map(lambda p: {"mc": True, "program": p})
        # (st.one_of() of the same strategy object repeated does not weight it: draw the class explicitly)
        # pthread programs run through sthread (LD_PRELOAD=libsthread.so): the same objects behind the pthread API
        pth = syncgen.programs(kinds=tuple(self.kinds) + ("tick",), mc=True, max_actors=4, max_ops=6, max_mutex=2, max_sem=2, max_cond=1,
                               max_bar=1, profile="contention").map(lambda p: {"sthread": True, "program": p})
        return st.integers(0, self.mc_share - 1).flatmap(lambda k: mc if k == 0 else (pth if k == 1 else real))

    def check_sthread(self, case):
        from .. import refsem, sthread
        oc = core.Outcome()
        sc = case["program"]
        oc.labels.append("sthread-case")
        if not sthread.supported(sc):
            oc.invalid = True
            return oc
        try:
            ex = refsem.explore(sc, "real", max_states=100000)
        except refsem.TooBig:
            oc.invalid = True
            return oc
        r, outcome, dl = sthread.run_real(sc)
        if r.wall_exceeded:
            raise core.Inconclusive()
        if r.rc not in (0,) and outcome is None and not dl and r.rc < 0:
            oc.bad("sthread-run-crashed", "pthread_interp under libsthread.so ended with rc=%s: %s" % (r.rc, r.err[-800:]))
            return oc
        complete = ex.complete_outcomes()
        if outcome is not None:
            if outcome not in complete:
                oc.bad("sthread-unreachable-outcome", "the pthread program run through sthread ended with %s, which the reference semantics "
                       "cannot reach (%d reachable complete outcomes, e.g. %s)" % (outcome, len(complete), sorted(complete)[:3]))
        elif not ex.deadlocks:
            oc.bad("sthread-no-outcome", "the pthread program run through sthread printed no outcome (rc=%s, deadlock reported=%s) although "
                   "the reference semantics has no reachable deadlock; stderr tail: %s" % (r.rc, dl, r.err[-500:]))
        oc.nontrivial = len(ex.outcomes) >= 2
        return oc

    def check_mc(self, case):
        from .. import mcrun, refsem
        oc = core.Outcome()
        sc = case["program"]
        oc.labels.append("model-checker-case")
        try:
            ex = refsem.explore(sc, "mc", max_states=60000)
        except refsem.TooBig:
            oc.invalid = True
            return oc
        if ex.npaths > 400:           # only explorations WITHOUT reduction decide here (the soundness of the reductions is C38's
            oc.invalid = True         # business), and they cost one application fork per trace: larger programs are discarded by size
            return oc
        red = "none"
        res = mcrun.run(sc, red, cpu=40, wall=1200)
        if res.r.wall_exceeded or res.load_failure:
            raise core.Inconclusive()
        if res.no_transition:
            return oc
        oc.labels.append("mc-" + red)
        if res.crashed:
            oc.bad("mc-run-crashed:" + red, "simgrid-mc (reduction %s) did not end normally on a %s program (rc=%s):\n%s"
                   % (red, "/".join(self.kinds), res.rc, res.tail()))
            return oc
        ref = ex.complete_outcomes()
        if res.outcomes != ref:
            oc.bad("mc-outcomes-differ:" + red, "under simgrid-mc (reduction %s) the program reaches the outcomes %s, the reference semantics "
                   "(FIFO objects, all interleavings) reaches %s" % (red, sorted(res.outcomes)[:4], sorted(ref)[:4]))
        if res.deadlock != bool(ex.deadlocks):
            oc.bad("mc-deadlock-verdict:" + red, "under simgrid-mc (reduction %s) deadlock reported=%s, the reference has a reachable "
                   "deadlock=%s" % (red, res.deadlock, bool(ex.deadlocks)))
        oc.nontrivial = len(ref) >= 2 or bool(ex.deadlocks)
        return oc

    def check(self, case):
        if case.get("mc"):
            return self.check_mc(case)
        if case.get("sthread"):
            return self.check_sthread(case)
        oc = core.Outcome()
        log = s4u.run(case, cpu=20, wall=240)
        if log.wall_exceeded:
            raise core.Inconclusive()
        if not log.done:
            oc.bad("run-crashed", "s4u_interp did not finish: " + log.crash_text())
            return oc
        labels = set()
        try:
            syncspec.replay(case, log, oc, labels)
        except syncspec.Desync as e:
            oc.invalid = True
            oc.info = {"desync": str(e)}
            return oc
        if log.of("deadlock"):
            labels.add("deadlock")
        oc.labels = sorted(labels)
        oc.nontrivial = any(l in labels for l in self.nontrivial_labels)
        return oc


class C04(SyncProp):
    id = "C04"
    kinds = ("mutex",)
    sizes = {"quick": 1500, "thorough": 20000}
    ready = True
    nontrivial_labels = ("mutex-blocks", "recursive-trylock-depth>=2", "recursive-trylock-first")
    technique = ("property-based testing (Hypothesis): generated lock/try_lock/unlock programs run on the real kernel, their "
                 "kernel-ordered log replayed through a sequential mutex specification (model-based oracle, exact dates)")
    rule = ("Programs of 2-5 actors x <=10 operations over 1-3 mutexes (each plain or recursive): lock, try_lock (+ unlock iff it "
            "succeeded), unlock, get_owner, dyadic sleeps (multiples of 1/4 s so that dates coincide often); well-formed by construction "
            "(an actor only unlocks what it holds; a plain mutex is never locked twice by its owner (undefined behaviour); holders may end while owning). "
            "Oracle: the sequential specification (owner, recursion depth, FIFO queue) driven by the kernel-ordered log: every try_lock result, "
            "every get_owner value, and the exact return date of every lock (the date of the unlock that hands the mutex to the HEAD of the "
            "queue) must match; an operation that returns without grant, or never returns although granted, is a violation. "
            "Non-trivial: some locker blocks, or a recursive mutex is acquired through try_lock.")
    assumptions = ["sequential runs (contexts/nthreads:1): the order of request records is the order in which the kernel handles them",
                   "one case in 40 is explored by simgrid-mc without reduction (programs of <= 400 traces) and compared with the reference "
                   "explorer vf/refsem.py; one case in 20 is the same kind of program written with the pthread API and run through "
                   "libsthread.so (real run; outcome must be reachable for the reference semantics)"]


PROP = C04()
