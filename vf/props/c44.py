"""C44 Unfolding set algebra is correct."""
import os
from math import comb

from hypothesis import strategies as st

from .. import core, mcds, unf
from ..unf import mask_of, members


class Out(core.Outcome):
    """Outcome keeping at most 2 violations per signature: a known finding must never crowd out another violation."""

    def bad(self, sig, msg):
        if sum(1 for v in self.violations if v.sig == sig) < 2:
            super().bad(sig, msg)


class C44(core.Prop):
    id = "C44"
    drivers = ["mcds_driver"]
    ready = True
    max_workers = 14
    sizes = {"quick": 3000, "thorough": 60000}
    technique = ("property-based testing (Hypothesis) of udpor Unfolding/UnfoldingEvent/EventSet/History/Configuration/"
                 "maximal_subsets_iterator and the xbt subset enumerators against a brute-force set-theoretic reference over bit masks")
    rule = ("Hypothesis-generated unfoldings of <=15 events built by mcds_driver (in-process) with Unfolding::discover_event from REAL "
            "transition objects and/or synthetic ones with a generated symmetric dependency matrix (same generators as C42); every new "
            "event gets a causally closed, conflict-free history by construction (candidate causes are accepted while the union of "
            "their local configurations stays conflict-free w.r.t. the pairwise depends() of the real code; immediate causes given as "
            "the maximal causes or, sometimes, with redundant ones as ActorJoin extensions do; some events duplicate an earlier one). "
            "Oracle = definitions evaluated by brute force: causality = closure of immediate causes; conflict = inherited from two "
            "unrelated events with dependent transitions; configuration = closed + conflict-free; maximal = antichain. Compared: "
            "per pair in_history_of/related_to/conflicts_with/immediately_conflicts_with, per event history/local configuration/"
            "immediate conflicts kept by the Unfolding, de-duplication of equivalent events; for ALL subsets of the first <=9 events "
            "(12 in the thorough tier) is_valid_configuration/is_maximal/is_conflict_free/get_largest_maximal_subset/History; for "
            "generated sets, their closures and maximal parts additionally History iteration/contains/maximal events, "
            "conflicts_with_any, topological orders; Configuration construction (throws iff invalid), latest event per actor, "
            "compatibility with every event and with histories, history differences, add_event sequences, k-partial alternatives; "
            "EventSet union/difference/intersection/inclusion/equality (pure and in-place, EventSet and Configuration flavours); "
            "maximal_subsets_iterator (with filters and size limits) and the k-subset, powerset and variable_for_loop enumerators "
            "must yield every qualifying set exactly once.  Non-trivial: >=2 events in conflict and causal depth >=3. "
            "Distinct = distinct canonical JSON.")
    assumptions = ["depends() is symmetric (checked on the dump)",
                   "two events with the same actor, type, times_considered and history are the same event (true of every unfolding of a "
                   "program: the next action of an actor is a function of its history); the generator never creates two different ones",
                   "k-subsets with k = 0 and in_history_of(e, e) are not asserted (the code and the set-theoretic reading differ by convention)"]

    def strategy(self, tier):
        # thorough: beyond the statement's bound (20 events), all subsets of the first 12
        return unf.unf_cases(max_events=20 if tier == "thorough" else 15, tier=tier)

    def fixed_cases(self, tier):
        if os.environ.get("VF_NO_FIXED"):
            return []
        return FIXED

    # -----------------------------------------------------------------------------------------------------------------
    def build(self, case, depmat, allsets_max):
        events = case["events"]
        n = len(events)
        ref = unf.Ref(n)
        canon = []
        keys = {}
        dev = []
        hist_of = {}
        for i, (spec, cand, flag) in enumerate(events):
            causes = None
            if flag == 7 and i > 0 and cand:
                c = canon[cand[0] % i]
                spec, causes = dev[c][0], list(dev[c][1])
                H = ref.lt[c]
            else:
                H = 0
                acc = []
                cl = list(cand)
                if flag & 2 and i > 0:
                    cl = [i - 1] + cl
                for c in cl:
                    c = canon[c % i]
                    if c in acc:
                        continue
                    if ref.cfree(H | ref.le[c]):
                        acc.append(c)
                        H |= ref.le[c]
                causes = acc if flag & 1 else members(ref.maximal(mask_of(acc)))
            key = (mcds.spec_aid(spec), unf.spec_type(spec), unf.spec_tc(spec), H)
            if key in keys:
                k = keys[key]
                canon.append(k)
                dev.append([dev[k][0], list(dev[k][1])])
                continue
            keys[key] = i
            canon.append(i)
            dev.append([spec, causes])
            depmask = 0
            for j in range(i):
                if canon[j] == j and depmat[i][j] == "1":
                    depmask |= 1 << j
            ref.add_event(i, causes, depmask, mcds.spec_aid(spec))
        used = ref.used
        cm = lambda lst: mask_of([canon[x % n] for x in lst])
        raw = [cm(s) for s in case["sets"]]
        q = []
        m = min(n, allsets_max)
        q.append(["allsets", m])
        for si, S in enumerate(raw):
            T = raw[(si + 1) % len(raw)]
            k = case["ks"][si]
            cl = ref.closure(S)
            mx = ref.maximal(S)
            for X in {S, cl, mx}:
                q.append(["set", members(X)])
            q.append(["cfg", members(cl), members(T)])
            if cl != S:
                q.append(["cfg", members(S), members(T)])
            order = members(cl)
            extra = [canon[x % n] for x in case["sets"][(si + 1) % len(raw)][:2]]
            q.append(["add", order + extra])
            q.append(["add", [canon[x % n] for x in case["sets"][si]]])
            q.append(["algebra", members(S), members(T), canon[(si * 5 + len(case["sets"][si])) % n]])
            if ref.valid(cl):
                D = members(T & ~cl)[:3]
                if D:
                    q.append(["alt", members(cl), D, len(D)])
                    if len(D) > 1 and k is not None:
                        q.append(["alt", members(cl), D, min(k, len(D))])
            F = None if si % 2 == 0 else T
            for X, via in ((cl, 1 if ref.valid(cl) else 0), (S, 0)):
                base = X if F is None else X & F
                exp = ref.antichains(base, k, cap=4000)
                kk = k
                if exp is None:
                    kk = 2
                    exp = ref.antichains(base, kk, cap=4000)
                if exp is not None:
                    q.append(["msi", members(X), None if F is None else members(F), kk, via, 20000])
        it = case["iters"]
        q.append(["ksub", it[0], it[1]])
        q.append(["pow", it[2]])
        q.append(["vfl", it[3]])
        return ref, canon, dev, q

    def check(self, case):
        allsets_max = case.get("allsets", 9)
        oc = Out()
        oc.evals = 2
        specs = [e[0] for e in case["events"]]
        r0 = mcds.run_case({"mode": "deps", "syn": case["syn"], "ts": specs})
        if r0.wall_exceeded:
            raise core.Inconclusive()
        l0 = r0.json_lines()
        if not l0 or l0[-1].get("done") is not True:
            oc.bad("driver-crash", "mcds_driver (deps) ended with rc=%s: %s %s" % (r0.rc, l0[-1:], r0.err[-1000:]))
            return oc
        depmat = l0[0]["dep"]
        n = len(specs)
        for i in range(n):
            for j in range(n):
                if depmat[i][j] != depmat[j][i]:
                    oc.bad("depends-asymmetric", "depends(%s, %s) = %s but the converse = %s" % (specs[i], specs[j], depmat[i][j], depmat[j][i]))
                    return oc
        ref, canon, dev, q = self.build(case, depmat, allsets_max)
        r = mcds.run_case({"mode": "unf", "syn": case["syn"], "events": dev, "q": q})
        if r.wall_exceeded:
            raise core.Inconclusive()
        lines = r.json_lines()
        if not lines or lines[-1].get("done") is not True:
            exc = next((l["exc"] for l in lines if "exc" in l and "q" not in l), None)
            oc.bad("driver-crash" if exc is None else "driver-exception",
                   "mcds_driver ended with rc=%s cpu_exceeded=%s exc=%s; stderr tail: %s" % (r.rc, r.cpu_exceeded, exc, r.err[-1500:]))
            return oc
        base = lines[0]
        self._canon = canon
        self.check_base(oc, ref, canon, dev, base)
        answers = {l["q"]: l for l in lines[1:] if "q" in l}
        for qi, qq in enumerate(q):
            a = answers.get(qi)
            if a is None:
                oc.bad("driver-dumps", "no answer to query %d %s" % (qi, qq))
                break
            if "exc" in a:
                oc.bad("unexpected-exception:" + qq[0], "query %s raised %s" % (qq, a["exc"]))
                continue
            getattr(self, "q_" + qq[0])(oc, ref, qq, a)
            if len(oc.violations) > 30:
                break
        # labels
        used = members(ref.used)
        nd = len(used)
        oc.labels.append("events<=3" if nd <= 3 else "events<=8" if nd <= 8 else "events<=12" if nd <= 12 else "events<=15" if nd <= 15 else "events<=20")
        depth = 0
        dp = {}
        for i in used:
            dp[i] = 1 + max([dp[c] for c in members(ref.lt[i])], default=0)
            depth = max(depth, dp[i])
        oc.labels.append("depth=%d" % min(depth, 6) if depth < 6 else "depth>=6")
        nconf = sum(bin(ref.conf[i]).count("1") for i in used) // 2
        oc.labels.append("conflicts=0" if nconf == 0 else "conflicts<=5" if nconf <= 5 else "conflicts>5")
        if any(ref.conf[i] & ~ref.direct[i] for i in used):
            oc.labels.append("inherited-conflict")
        if any(self.both_sides(ref, i, j) for i in used for j in members(ref.conf[i])):
            oc.labels.append("both-sides-conflict")
        if len(set(canon)) < len(canon):
            oc.labels.append("duplicates")
        if any(len(d[1]) > 1 for d in dev):
            oc.labels.append("multi-cause")
        if any(ref.maximal(mask_of(d[1])) != mask_of(d[1]) for i, d in enumerate(dev) if canon[i] == i):
            oc.labels.append("redundant-causes")
        fams = sorted({mcds.spec_family(d[0]) for d in dev})
        for f in fams:
            oc.labels.append("fam-" + f)
        for k in sorted(self._seen):
            oc.labels.append(k)
        oc.nontrivial = nconf >= 1 and depth >= 3
        oc.info = {"events": nd, "depth": depth, "conflicts": nconf}
        return oc

    _seen = set()

    @staticmethod
    def both_sides(ref, i, j):
        """i # j only through strict causes on both sides: no event of [i]\\[j] is dependent with j's transition and vice versa"""
        only_i = ref.le[i] & ~ref.le[j]
        only_j = ref.le[j] & ~ref.le[i]
        return not (only_i & ref.dep[j]) and not (only_j & ref.dep[i])

    # -----------------------------------------------------------------------------------------------------------------
    def check_base(self, oc, ref, canon, dev, b):
        self._seen = set()
        n = len(dev)
        used = members(ref.used)
        if b["ev"] != canon:
            i = next(k for k in range(n) if b["ev"][k] != canon[k])
            oc.bad("unfolding-dedup", "event #%d (%s, causes %s): the unfolding returned the handle of event #%d, expected #%d "
                   "(an equivalent event %s)" % (i, dev[i][0], dev[i][1], b["ev"][i], canon[i], "exists" if canon[i] != i else "does not exist"))
            return
        if b["usize"] != len(used) or b["uall"] != used:
            oc.bad("unfolding-content", "the unfolding holds %s, expected %s" % (b["uall"], used))
        for i in used:
            dep = mcds.bits(b["dep"][i])
            exp = 0
            for j in used:
                if i != j and (ref.dep[i] >> j) & 1:
                    exp |= 1 << j
            got = dep & ref.used & ~(1 << i)
            if got != exp:
                oc.bad("driver-depends", "event %d: is_dependent_with = %s, the transitions alone gave %s" % (i, members(got), members(exp)))
                return
        for i in used:
            if b["hist"][i] != members(ref.lt[i]):
                oc.bad("history", "get_history(%d) = %s, causes are %s" % (i, b["hist"][i], members(ref.lt[i])))
            if b["lc"][i] != members(ref.le[i]):
                oc.bad("local-config", "get_local_config(%d) = %s, expected %s" % (i, b["lc"][i], members(ref.le[i])))
            if b["actor"][i] != ref.actor[i]:
                oc.bad("driver-actor", "event %d is of actor %s, expected %s" % (i, b["actor"][i], ref.actor[i]))
            inh = mcds.bits(b["inhist"][i])
            rel = mcds.bits(b["related"][i])
            conf = mcds.bits(b["conf"][i])
            ic = mcds.bits(b["iconf"][i])
            for j in used:
                if i == j:
                    if (conf >> j) & 1 or (ic >> j) & 1:
                        oc.bad("conflict-reflexive", "event %d conflicts with itself" % i)
                    continue
                e_inh = bool((ref.lt[j] >> i) & 1)
                if bool((inh >> j) & 1) != e_inh:
                    oc.bad("in-history-of", "%d.in_history_of(%d) = %s, expected %s" % (i, j, not e_inh, e_inh))
                e_rel = e_inh or bool((ref.lt[i] >> j) & 1)
                if bool((rel >> j) & 1) != e_rel:
                    oc.bad("related-to", "%d.related_to(%d) = %s, expected %s" % (i, j, not e_rel, e_rel))
                e_conf = bool((ref.conf[i] >> j) & 1)
                if bool((conf >> j) & 1) != e_conf:
                    both = e_conf and self.both_sides(ref, i, j)
                    oc.bad("conflicts-with:inherited-on-both-sides" if both else "conflicts-with",
                           "%d.conflicts_with(%d) = %s, expected %s: [%d] = %s, [%d] = %s, direct conflicts between them: %s"
                           % (i, j, not e_conf, e_conf, i, members(ref.le[i]), j, members(ref.le[j]),
                              [(a, c) for a in members(ref.le[i]) for c in members(ref.direct[a] & ref.le[j])]))
                e_ic = ref.imm_conflict(i, j)
                if e_ic:
                    self._seen.add("immediate-conflict")
                if bool((ic >> j) & 1) != e_ic:
                    oc.bad("immediately-conflicts-with", "%d.immediately_conflicts_with(%d) = %s, expected %s" % (i, j, not e_ic, e_ic))
            e_uic = [j for j in used if j != i and ref.imm_conflict(i, j)]
            if b["uic"][i] != e_uic:
                oc.bad("unfolding-immediate-conflicts", "Unfolding::get_immediate_conflicts_of(%d) = %s, expected %s" % (i, b["uic"][i], e_uic))
            if len(oc.violations) > 30:
                return

    # -----------------------------------------------------------------------------------------------------------------
    @staticmethod
    def red(ref, S):
        """signature suffix: the set's closure holds an event whose immediate causes are redundant (a cause of a cause is listed too)"""
        return ":redundant-causes" if ref.redundant_in(S) else ""

    def cfree_sig(self, ref, S):
        """signature suffix: are all the conflicts inside S of the 'inherited on both sides' kind?"""
        pairs = [(i, j) for i in members(S) for j in members(ref.conf[i] & S) if i < j]
        return ":inherited-on-both-sides" if pairs and all(self.both_sides(ref, i, j) for i, j in pairs) else ""

    def q_allsets(self, oc, ref, qq, a):
        m = qq[1]
        for mask in range(1 << m):
            S = 0
            for i in range(m):
                if (mask >> i) & 1:
                    S |= 1 << self._canon_of(ref, i)
            ev = ref.valid(S)
            if (a["valid"][mask] == "1") != ev:
                oc.bad("is-valid-configuration", "%s.is_valid_configuration() = %s, expected %s (closed %s, conflict-free %s)"
                       % (members(S), not ev, ev, ref.closed(S), ref.cfree(S)))
            em = ref.antichain(S)
            if (a["max"][mask] == "1") != em:
                oc.bad("is-maximal", "%s.is_maximal() = %s, expected %s" % (members(S), not em, em))
            ec = ref.cfree(S)
            if (a["cfree"][mask] == "1") != ec:
                oc.bad("is-conflict-free" + self.cfree_sig(ref, S), "%s.is_conflict_free() = %s, expected %s" % (members(S), not ec, ec))
            if a["lms"][mask] != ref.maximal(S):
                oc.bad("largest-maximal-subset", "%s.get_largest_maximal_subset() = %s, expected %s" % (members(S), members(a["lms"][mask]), members(ref.maximal(S))))
            if a["hall"][mask] != ref.closure(S):
                oc.bad("history-all-events", "History(%s).get_all_events() = %s, expected %s" % (members(S), members(a["hall"][mask]), members(ref.closure(S))))
            if len(oc.violations) > 30:
                return
        self._seen.add("allsets=%d" % (1 << m))

    _canon = None

    def _canon_of(self, ref, i):
        # events that are not canonical do not exist in ref: they alias an earlier one
        return self._canon[i] if self._canon else i

    def q_set(self, oc, ref, qq, a):
        S = mask_of(qq[1])
        r = a["r"]
        n = ref.n
        nm = members(S)
        if r["size"] != len(nm) or mcds.bits(r["contains"]) & ref.used != S:
            oc.bad("eventset-content", "EventSet(%s) has size %d and contains %s" % (nm, r["size"], members(mcds.bits(r["contains"]))))
            return
        ev = ref.valid(S)
        if r["valid"] != ev:
            oc.bad("is-valid-configuration", "%s.is_valid_configuration() = %s, expected %s (closed %s, conflict-free %s)" % (nm, r["valid"], ev, ref.closed(S), ref.cfree(S)))
        if r["max"] != ref.antichain(S):
            oc.bad("is-maximal", "%s.is_maximal() = %s, expected %s" % (nm, r["max"], ref.antichain(S)))
        if r["cfree"] != ref.cfree(S):
            oc.bad("is-conflict-free" + self.cfree_sig(ref, S), "%s.is_conflict_free() = %s, expected %s" % (nm, r["cfree"], ref.cfree(S)))
        if r["lms"] != members(ref.maximal(S)):
            oc.bad("largest-maximal-subset", "%s.get_largest_maximal_subset() = %s, expected %s" % (nm, r["lms"], members(ref.maximal(S))))
        cl = ref.closure(S)
        if r["lc"] != members(cl):
            oc.bad("eventset-local-config", "%s.get_local_config() = %s, expected %s" % (nm, r["lc"], members(cl)))
        if r["hall"] != members(cl):
            oc.bad("history-all-events", "History(%s).get_all_events() = %s, expected %s" % (nm, r["hall"], members(cl)))
        if r["hmax"] != members(ref.maximal(S)):
            oc.bad("history-maximal-events", "History(%s).get_all_maximal_events() = %s, expected %s" % (nm, r["hmax"], members(ref.maximal(S))))
        if mcds.bits(r["hcontains"]) & ref.used != cl:
            oc.bad("history-contains", "History(%s).contains(e) holds for %s, expected %s" % (nm, members(mcds.bits(r["hcontains"]) & ref.used), members(cl)))
        if sorted(r["hiter"]) != members(cl):
            oc.bad("history-iteration", "iterating over History(%s) yields %s, expected each of %s once" % (nm, r["hiter"], members(cl)))
        if r["chist"] != ref.closed(S):
            oc.bad("eventset-contains-history", "%s.contains(History(itself)) = %s, expected %s" % (nm, r["chist"], ref.closed(S)))
        exp_any = 0
        for i in members(ref.used):
            if ref.conf[i] & S:
                exp_any |= 1 << i
        got_any = mcds.bits(r["cany"]) & ref.used
        if got_any != exp_any:
            diff = members(got_any ^ exp_any)
            both = all((exp_any >> i) & 1 and all(self.both_sides(ref, i, j) for j in members(ref.conf[i] & S)) for i in diff)
            oc.bad("conflicts-with-any" + (":inherited-on-both-sides" if both else ""),
                   "e.conflicts_with_any(%s) holds for %s, expected %s" % (nm, members(got_any), members(exp_any)))
        for key, rev in (("topo", False), ("rtopo", True)):
            self.check_order(oc, ref, S, r[key], rev, "%s.%s" % (nm, "get_topological_ordering_of_reverse_graph()" if rev else "get_topological_ordering()"))
        if not ref.closed(S):
            self._seen.add("set-not-closed")
        if ev and len(nm) >= 3:
            self._seen.add("set-config>=3")

    def check_order(self, oc, ref, S, order, rev, what):
        seq = order[::-1] if rev else list(order)
        if len(set(seq)) != len(seq):
            oc.bad("topological-order" + self.red(ref, S), "%s = %s lists an event twice" % (what, order))
            seq = [e for k, e in enumerate(seq) if e not in seq[:k]]      # go on with the first occurrences
        if sorted(seq) != members(S) or not ref.respects_causality(seq):
            oc.bad("topological-order", "%s = %s is not a%s ordering of the set compatible with causality" % (what, order, " reverse" if rev else ""))

    def q_cfg(self, oc, ref, qq, a):
        S = mask_of(qq[1])
        T = mask_of(qq[2])
        nm = members(S)
        ev = ref.valid(S)
        if ("throws" in a) != (not ev):
            oc.bad("configuration-ctor", "Configuration(%s) %s, but the set is %s (closed %s, conflict-free %s)"
                   % (nm, "throws" if "throws" in a else "is accepted", "a configuration" if ev else "not a configuration", ref.closed(S), ref.cfree(S)))
            return
        if not ev:
            self._seen.add("cfg-rejected")
            return
        self.check_state(oc, ref, a["state"], S, "Configuration(%s)" % nm, None)
        if a["mre"] != members(ref.maximal(S)):
            oc.bad("minimally-reproducible-events" + (":always-empty" if not a["mre"] else ""),
                   "Configuration(%s).get_minimally_reproducible_events() = %s, expected the maximal events %s" % (nm, a["mre"], members(ref.maximal(S))))
        for key, rev in (("topo", False), ("rtopo", True)):
            self.check_order(oc, ref, S, a[key], rev, "Configuration(%s).get_topologically_sorted_events%s()" % (nm, "_of_reverse_graph" if rev else ""))
        if mcds.bits(a["contains"]) & ref.used != S:
            oc.bad("configuration-contains", "Configuration(%s).contains(e) holds for %s" % (nm, members(mcds.bits(a["contains"]) & ref.used)))
        comp = mcds.bits(a["compat"])
        for i in members(ref.used):
            exp = ref.valid(S | (1 << i))
            if bool((comp >> i) & 1) != exp:
                oc.bad("is-compatible-with-event", "Configuration(%s).is_compatible_with(%d) = %s, expected %s (history %s, conflicts %s)"
                       % (nm, i, not exp, exp, members(ref.lt[i]), members(ref.conf[i] & S)))
                break
        clT = ref.closure(T)
        if a["hdiff"] != members(clT & ~S):
            oc.bad("history-diff", "History(%s).get_event_diff_with(Configuration(%s)) = %s, expected %s" % (members(T), nm, a["hdiff"], members(clT & ~S)))
        exp = ref.valid(S | clT)
        if a["hcompat"] != exp:
            oc.bad("is-compatible-with-history", "Configuration(%s).is_compatible_with(History(%s)) = %s, expected %s" % (nm, members(T), a["hcompat"], exp))
        if exp and clT & ~S:
            self._seen.add("history-compatible-extension")
        if a["csub"] != (T & ~S == 0):
            oc.bad("configuration-contains-set", "Configuration(%s).contains(%s) = %s" % (nm, members(T), a["csub"]))
        if "c_event" in a and a["c_event"] != members(clT):
            oc.bad("configuration-ctor-event", "Configuration(event %s) = %s, expected its local configuration %s" % (members(T), a["c_event"], members(clT)))
        if ("c_hist_throws" in a) != (not ref.valid(clT)):
            oc.bad("configuration-ctor-history", "Configuration(History(%s)) %s, but the history is %s"
                   % (members(T), "throws" if "c_hist_throws" in a else "is accepted", "a configuration" if ref.valid(clT) else "not conflict-free"))
        elif "c_hist" in a and a["c_hist"] != members(clT):
            oc.bad("configuration-ctor-history", "Configuration(History(%s)) = %s, expected %s" % (members(T), a["c_hist"], members(clT)))
        self._seen.add("cfg-accepted")

    def check_state(self, oc, ref, st_, S, what, newest):
        if st_["events"] != members(S):
            oc.bad("configuration-events", "%s holds %s, expected %s" % (what, st_["events"], members(S)))
            return
        for actor, li, ok in st_["latest"]:
            tops = ref.latest_of(S, actor)
            exp = tops[0] if len(tops) == 1 else -1
            if len(tops) > 1:
                continue    # cannot happen in a configuration
            if li != exp or not ok:
                oc.bad("latest-event-of-actor" + (self.red(ref, S) if newest is None else ""), "%s.get_latest_event_of(actor %d) = %d (action consistent: %s), expected %d" % (what, actor, li, ok, exp))
        if newest is not None and st_["newest"] != newest:
            oc.bad("configuration-newest", "%s.get_latest_event() = %d, expected %d" % (what, st_["newest"], newest))

    def q_add(self, oc, ref, qq, a):
        C = 0
        newest = -1
        steps = []
        for e in qq[1]:
            if (C >> e) & 1:
                steps.append(1)
                continue
            if ref.conf[e] & C or ref.lt[e] & ~C:
                steps.append(0)
                break
            C |= 1 << e
            newest = e
            steps.append(1)
        if a["steps"] != steps:
            k = next((i for i in range(min(len(steps), len(a["steps"]))) if steps[i] != a["steps"][i]), min(len(steps), len(a["steps"])))
            e = qq[1][k] if k < len(qq[1]) else None
            oc.bad("add-event", "add_event sequence %s: outcomes %s, expected %s (1 = accepted, 0 = throws; event %s: missing causes %s, conflicts %s)"
                   % (qq[1], a["steps"], steps, e, members(ref.lt[e] & ~C) if e is not None else None, members(ref.conf[e] & C) if e is not None else None))
            return
        if steps and steps[-1] == 0:
            self._seen.add("add-rejected")
            return
        self.check_state(oc, ref, a["state"], C, "Configuration() + add_event%s" % qq[1], newest)
        if len(members(C)) >= 3:
            self._seen.add("add-accepted>=3")

    def q_algebra(self, oc, ref, qq, a):
        A, B, e = mask_of(qq[1]), mask_of(qq[2]), qq[3]
        E = 1 << e
        clB = ref.closure(B)
        exp = {"union": A | B, "union_e": A | E, "minus": A & ~B, "minus_e": A & ~E, "inter": A & B, "m_union": A | B, "m_minus": A & ~B,
               "m_insert": A | E, "m_remove": A & ~E, "a_after": A, "vector": A}
        if "c_invalid" in a:
            if ref.valid(clB):
                oc.bad("configuration-ctor", "Configuration(%s) throws but the set is a configuration" % members(clB))
        else:
            exp.update({"c_union": A | clB, "c_minus": A & ~clB, "cm_union": A | clB, "cm_minus": A & ~clB, "from_config": clB})
        for key, m in exp.items():
            if a[key] != members(m):
                oc.bad("set-algebra:" + key, "A = %s, B = %s, e = %d: %s gives %s, expected %s" % (qq[1], qq[2], e, key, a[key], members(m)))
        flags = {"intersects": bool(A & B), "subset": A & ~B == 0, "eq": A == B, "ne": A != B, "empty": A == 0, "size": len(members(A)),
                 "equiv": bool(A & E), "hinter": bool(A & clB)}
        for key, v in flags.items():
            if a[key] != v:
                oc.bad("set-algebra:" + key, "A = %s, B = %s, e = %d: %s is %s, expected %s" % (qq[1], qq[2], e, key, a[key], v))
        if A & B and A & ~B and B & ~A:
            self._seen.add("algebra-overlap")

    def q_alt(self, oc, ref, qq, a):
        """Configuration(C).compute_k_partial_alternative_to(D, U, k): a configuration J with C + J a configuration, J disjoint from D,
        holding for each of (some) k events of D an event in conflict with it; nullopt only when there is none."""
        import itertools
        C = mask_of(qq[1])
        D = qq[2]
        Dm = mask_of(D)
        k = qq[3]
        what = "Configuration(%s).compute_k_partial_alternative_to(D=%s, k=%d)" % (qq[1], D, k)
        used = members(ref.used)

        def weak(i, j):
            return bool((ref.conf[i] >> j) & 1) and not self.both_sides(ref, i, j)

        def strong(i, j):
            return bool((ref.conf[i] >> j) & 1)

        def outcomes(rel, subset):
            spikes = [[e for e in used if rel(d, e) and not ref.le[e] & Dm and ref.valid(C | ref.le[e])] for d in subset]
            res = set()
            n = 0
            for combo in itertools.product(*spikes):
                n += 1
                if n > 20000:
                    return None
                if any(rel(x, y) for x, y in itertools.combinations(set(combo), 2)):
                    continue
                J = 0
                for e in combo:
                    J |= ref.le[e]
                res.add(J if ref.valid(J) else "throws")
            return res or {None}
        got = "throws" if "throws" in a else None if a["J"] is None else mask_of(a["J"])
        subsets = list(itertools.combinations(D, k))
        ok_strong = ok_weak = False
        for sub in subsets:
            o1 = outcomes(strong, sub)
            o2 = outcomes(weak, sub)
            if o1 is None or o2 is None:
                return
            ok_strong = ok_strong or got in o1
            ok_weak = ok_weak or got in o2
        shown = got if got in ("throws", None) else members(got)
        if not ok_strong:
            sig = "alternative" + (":inherited-on-both-sides" if ok_weak else "")
            if got == "throws":
                oc.bad(sig, "%s throws std::invalid_argument (%s)" % (what, a["throws"]))
            elif got is None:
                oc.bad(sig, "%s finds no alternative although one exists" % what)
            else:
                why = []
                if not ref.valid(got):
                    why.append("it is not a configuration")
                if not ref.valid(C | got):
                    why.append("C + J is not a configuration")
                if got & Dm:
                    why.append("it meets D")
                if not any(all(ref.conf[d] & got for d in sub) for sub in subsets):
                    why.append("no %d events of D are each in conflict with an event of J" % k)
                oc.bad(sig, "%s = %s is not an alternative: %s" % (what, shown, "; ".join(why) or "not the union of local configurations of conflicting events"))
        self._seen.add("alt-none" if got is None else "alt-throws" if got == "throws" else "alt-found")

    def q_msi(self, oc, ref, qq, a):
        X = mask_of(qq[1])
        F = None if qq[2] is None else mask_of(qq[2])
        k = qq[3]
        base = X if F is None else X & F
        exp = ref.antichains(base, k, cap=20000)
        got = [mask_of(s) for s in a["sets"]]
        what = "maximal_subsets_iterator(%s %s, filter %s, max size %s)" % ("Configuration" if qq[4] else "EventSet", qq[1], qq[2], k)
        # the iterator walks the topological ordering of the set: when that ordering lists an event twice (known finding, needs
        # redundant immediate causes) whatever it yields is a consequence of that
        sfx = ":ordering-duplicates" if len(set(a["rtopo"])) != len(a["rtopo"]) else ""
        if len(set(got)) != len(got):
            dup = next(s for s in got if got.count(s) > 1)
            oc.bad("maximal-subsets%s:duplicate" % sfx, "%s yields %s %d times" % (what, members(dup), got.count(dup)))
            return
        spurious = [s for s in got if s not in set(exp)]
        if spurious:
            s = spurious[0]
            why = "not a subset of the filtered events" if s & ~base else "not maximal (an event causes another)" if not ref.antichain(s) else "too large"
            oc.bad("maximal-subsets%s:spurious" % sfx, "%s yields %s: %s" % (what, members(s), why))
            return
        missing = [s for s in exp if s not in set(got)]
        if missing:
            oc.bad("maximal-subsets%s:missing" % sfx, "%s yields %d sets and never %s (%d expected)" % (what, len(got), members(missing[0]), len(exp)))
            return
        self._seen.add("msi<=3" if len(exp) <= 3 else "msi<=30" if len(exp) <= 30 else "msi>30")
        if F is not None:
            self._seen.add("msi-filter")
        if k is not None and any(len(members(s)) == k for s in exp) and ref.antichains(base, k + 1, cap=20000) != exp:
            self._seen.add("msi-size-limit-binding")
        if not ref.closed(X):
            self._seen.add("msi-not-closed")

    def q_ksub(self, oc, ref, qq, a):
        n, k = qq[1], qq[2]
        if k == 0:
            return
        got = [tuple(sorted(s)) for s in a["sets"]]
        exp = comb(n, k) if k <= n else 0
        ok = len(set(got)) == len(got) == exp and all(len(set(s)) == k and all(0 <= x < n for x in s) for s in got)
        if not ok:
            oc.bad("k-subsets", "the %d-subsets of %d elements: %d yielded (%d distinct), %d expected; first ones %s" % (k, n, len(got), len(set(got)), exp, a["sets"][:6]))
        self._seen.add("ksub")

    def q_pow(self, oc, ref, qq, a):
        n = qq[1]
        got = [tuple(sorted(s)) for s in a["sets"]]
        ok = len(set(got)) == len(got) == 1 << n and all(len(set(s)) == len(s) and all(0 <= x < n for x in s) for s in got)
        if not ok:
            oc.bad("powerset", "the subsets of %d elements: %d yielded (%d distinct), %d expected" % (n, len(got), len(set(got)), 1 << n))

    def q_vfl(self, oc, ref, qq, a):
        sizes = qq[1]
        exp = 1
        for s in sizes:
            exp *= s
        if not sizes:
            exp = 0
        got = [tuple(s) for s in a["sets"]]
        ok = len(set(got)) == len(got) == exp and all(len(t) == len(sizes) and all(100 * c <= t[c] < 100 * c + sizes[c] for c in range(len(sizes))) for t in got)
        if not ok:
            oc.bad("variable-for-loop", "combinations over collections of sizes %s: %d yielded (%d distinct), %d expected" % (sizes, len(got), len(set(got)), exp))


def _ev(spec, causes, flag=0):
    return [spec, causes, flag]


def _syn(k, pairs):
    dep = [[0] * k for _ in range(k)]
    for a, b in pairs:
        dep[a][b] = dep[b][a] = 1
    return {"dep": dep, "real": [0] * k, "rev": [[0] * k for _ in range(k)]}


FIXED = [
    # upstream "More complicated conflicts": e2 (kind 1) and e6 (kind 2) dependent; conflicts inherited by e3..e5 and e7
    {"syn": _syn(3, [(1, 2)]),
     "events": [_ev(["syn", 0, 0], []), _ev(["syn", 1, 1], [0]), _ev(["syn", 2, 0], [1]), _ev(["syn", 3, 0], [2]),
                _ev(["syn", 4, 0], [2]), _ev(["syn", 5, 2], [0]), _ev(["syn", 6, 0], [5])],
     "sets": [[3, 6], [0, 1, 2], [4, 5]], "ks": [None, 2, 1], "iters": [4, 2, 3, [2, 2]]},
    # upstream maximal_subsets_iterator structure (8 events, all independent): 1 + 8 + 13 + 3 maximal sets
    {"syn": _syn(1, []),
     "events": [_ev(["syn", 1, 0], []), _ev(["syn", 2, 0], [0]), _ev(["syn", 3, 0], [1]), _ev(["syn", 4, 0], [2]),
                _ev(["syn", 5, 0], [0]), _ev(["syn", 6, 0], [4]), _ev(["syn", 7, 0], [5]), _ev(["syn", 8, 0], [5])],
     "sets": [[3, 6, 7], [1, 3, 6, 7]], "ks": [None, None], "iters": [5, 3, 4, [1, 3, 2]]},
]

PROP = C44()
