"""C26 Structured topologies follow their routing algorithms."""
import os

from hypothesis import strategies as st

from .. import core, known, route

SIG_XML_FT_LIM = "xml-fattree:limiter-link-names-of-switches-and-leaves-collide"
SIG_DF_CHASSIS0 = "dragonfly:same-group-route-restarts-from-chassis-0"


class C26(core.Prop):
    id = "C26"
    drivers = ["route_driver"]
    ready = True
    max_workers = 4
    sizes = {"quick": 400, "thorough": 12000}
    technique = ("property-based testing (Hypothesis): every route of a generated torus / fat-tree / dragonfly / star zone is decoded "
                 "into a node walk from the link names and checked against the documented routing scheme (validity predicate)")
    rule = ("Hypothesis generates one to three cluster zones per platform: torus (1-5 dimensions of size 1-9, <= 64 nodes), fat tree "
            "(1-3 levels, down 1-4, up 1-3, parallel links 1-3, <= 64 leaves), dragonfly (groups <= routers <= 3, chassis <= 3, nodes <= 3, "
            "the documented limitation groups <= routers per chassis is respected), star (<= 8 members with random up / down / "
            "symmetrical / loopback link lists over shared links); cluster links SPLITDUPLEX / SHARED / FATPIPE, loopback and limiter "
            "callbacks on or off.  One case in four declares the zones with the XML <cluster> tag instead (flat clusters with/without "
            "backbone, TORUS / FAT_TREE / DRAGONFLY, radicals with gaps, limiter_link, loopback_bw) and loads the file.  route_driver builds them and returns Host::route_to for all leaf pairs (<= 9 "
            "leaves) or 10-90 drawn pairs.  Oracle per route: the topology links form a continuous walk from src to dst (link names "
            "encode their end points); torus: one block of moves per dimension, one direction, min(|d|, n-|d|) steps; fat tree: up to "
            "the lowest level whose switch has dst below it, down again, 2*level links, up-port = destination-mod-k; dragonfly: one "
            "blue link iff the groups differ, inside a group one green move iff blades differ and one black move iff chassis differ; "
            "star: up(src)+down(dst) without repetition; flat cluster: limiter(src), private(src)_UP, backbone, private(dst)_DOWN, "
            "limiter(dst) without repetition; loopback link alone iff src = dst and configured; one limiter link per "
            "visit of a leaf/switch/router iff configured; the two halves of a split-duplex link are used in opposite directions.  "
            "Non-trivial: some queried pair differs in >= 2 coordinates (torus, dragonfly) / has its ancestor at level >= 2 (fat "
            "tree) / has non-empty up and down lists (star).")
    assumptions = ["leaf k of a cluster zone is the k-th host created by the host callback (what the XML loader does)",
                   "the order of the two intra-group moves of a dragonfly route and the position of limiter links inside the list are not asserted (not documented)",
                   "fat-tree parent choice is checked against destination-mod-k with the port numbering of the PGFT paper (parent = port mod w)"]

    def strategy(self, tier):
        api = st.lists(route.topos(), min_size=1, max_size=3).map(lambda ts: {"topos": ts})
        avoid = known.Known(self.id).is_known(SIG_XML_FT_LIM)

        def ok(ts):
            # known finding: a fat tree with at least as many switches as leaves + limiter_link cannot be loaded from XML
            return not (avoid and any(t["topology"] == "FAT_TREE" and t.get("limiter") and
                                      sum(route.FatTree(t["ft"]).by_level[1:]) >= route.FatTree(t["ft"]).n for t in ts))
        xml = st.lists(route.xml_topos(), min_size=1, max_size=3).filter(ok).map(lambda ts: {"xml": ts})
        return st.one_of(api, api, api, xml)

    def check(self, case):
        oc = core.Outcome()
        is_xml = "xml" in case
        xtopos = case.get("xml")
        pairs = []
        meta = []
        if is_xml:
            # the XML <cluster> tag: same zones through sg_platf.cpp (+ flat clusters); checked with the same predicates
            topos = [t if t["topology"] == "FLAT" else route.xml_as_api_topo(t) for t in xtopos]
            tags = []
            for zi, t in enumerate(xtopos):
                zname = "T%d" % zi
                tags.append(route.xml_cluster_tag(t, zname))
                for (s, d) in t["pairs"]:
                    pairs.append([route.xml_host(zname, t, s), route.xml_host(zname, t, d)])
                    meta.append((zi, s, d))
            path = core.write_tmp(route.xml_platform(tags), suffix=".xml")
            plat = {"xml": path, "pairs": pairs, "dump": True}
            oc.labels.append("xml-cluster-tag")
        else:
            topos = case["topos"]
            zones = []
            for zi, t in enumerate(topos):
                zname = "T%d" % zi
                zones.append(route.topo_zone(t, zname))
                for (s, d) in t["pairs"]:
                    pairs.append(["%s-%d" % (zname, s), "%s-%d" % (zname, d)])
                    meta.append((zi, s, d))
            plat = {"zones": zones, "pairs": pairs, "dump": True}
        r, zdump, res, done, build_err = route.run_platform(plat, cpu=10, wall=180)
        if is_xml:
            try:
                os.unlink(path)
            except OSError:
                pass
        if r.wall_exceeded:
            raise core.Inconclusive()
        if build_err is not None:
            oc.bad("platform-rejected", "route_driver could not build the platform: %s" % build_err)
            return oc
        if not done:
            if not zdump and is_xml and "declared several times" in r.err and "_limiter" in r.err and any(
                    t["kind"] == "fattree" and t.get("limiter") and sum(route.FatTree(t["ft"]).by_level[1:]) >= route.FatTree(t["ft"]).n for t in topos):
                oc.bad(SIG_XML_FT_LIM, "the XML platform %s cannot be loaded: %s" % ([self.describe(t) for t in topos], r.err[:200]))
            elif not zdump:
                oc.bad("platform-abort", "the platform %s could not be sealed (rc=%s): %s ... %s"
                       % ([self.describe(t) for t in topos], r.rc, r.err[:700], r.err[-300:]))
            elif len(res) < len(meta):
                zi, s, d = meta[len(res)]
                kind = topos[zi]["kind"]
                oc.bad(("nontermination:" if r.cpu_exceeded else "crash:") + kind,
                       "%s zone %s: route %d -> %d %s; stderr: %s" % (kind, self.describe(topos[zi]), s, d,
                                                                    "never returned (10 s of CPU)" if r.cpu_exceeded else "killed the process (rc=%s)" % r.rc,
                                                                    r.err[-800:]))
            else:
                oc.bad("driver-crash", "route_driver died rc=%s: %s" % (r.rc, r.err[-800:]))
        nontrivial = False
        nsig = {}
        sdmap = {}
        offset = 0
        for j, x in enumerate(res):
            zi, s, d = meta[j]
            t = topos[zi]
            zname = "T%d" % zi
            kind = t["kind"]
            if "err" in x:
                oc.bad("exception:" + kind, "%s zone %s: route %d -> %d raised '%s'" % (kind, self.describe(t), s, d, x["err"]))
                continue
            links = x["links"]
            try:
                if kind == "xml":     # flat cluster
                    exp = route.xml_flat_expected(t, zname, s, d)
                    if links != exp:
                        raise route.Bad("flat-cluster:route", "route %d -> %d is %s, documented: limiter(src), private(src)_UP, backbone, "
                                        "private(dst)_DOWN, limiter(dst) without repetition = %s" % (s, d, links, exp))
                    if s != d:
                        nontrivial = True
                    continue
                if is_xml:
                    links = route.xml_rename(t, zname, links)
                if kind == "star":
                    exp = route.star_expected(t, zname, s, d)
                    if links != exp:
                        raise route.Bad("star:route", "route %d -> %d is %s, expected up(src)+down(dst) without repetition = %s" % (s, d, links, exp))
                    if s != d and t["members"][s].get("up") and (t["members"][d].get("down") or (t["members"][d].get("sym") and t["members"][d].get("up"))):
                        nontrivial = True
                    continue
                if kind == "torus":
                    w = route.check_torus(t, zname, s, d, links)
                    cs, cd = route.torus_coords(t["dims"], s), route.torus_coords(t["dims"], d)
                    if sum(1 for a, b in zip(cs, cd) if a != b) >= 2:
                        nontrivial = True
                elif kind == "fattree":
                    off = sum(route.topo_leaves(tt) for tt in topos[:zi] if tt["kind"] == "fattree")
                    try:
                        w = route.check_fattree(t, zname, s, d, links)
                    except route.Bad as b:
                        if b.sig == "fattree:d-mod-k" and off:
                            try:
                                route.check_fattree(t, zname, s, d, links, pos_offset=off)
                            except route.Bad:
                                raise b
                            raise route.Bad("fattree:leaf-positions-continue-across-zones",
                                            str(b) + " -- the choice is destination-mod-k of (destination + %d), the number of leaves of the fat trees created before this one" % off)
                        raise
                    ft = route.FatTree(t["ft"])
                    ls, ld = ft.label(0, s), ft.label(0, d)
                    if any(ls[i] != ld[i] for i in range(1, ft.h)):
                        nontrivial = True
                else:
                    try:
                        w = route.check_dragonfly(t, zname, s, d, links, list(zdump.get(zname, {}).get("links", {}).keys()))
                    except route.Bad as b:
                        df = route.Dragonfly(t["df"], [])
                        cs, cd = df.coords(s), df.coords(d)
                        if b.sig in ("dragonfly:not-a-walk", "dragonfly:not-minimal") and cs[0] == cd[0] and cs[2] != cd[2] and cs[1] != 0:
                            raise route.Bad(SIG_DF_CHASSIS0, str(b))
                        raise
                    dfm = route.Dragonfly(t["df"], [])
                    cs, cd = dfm.coords(s), dfm.coords(d)
                    if sum(1 for a, b in zip(cs[:3], cd[:3]) if a != b) >= 2:
                        nontrivial = True
                route.check_limiters(t, w, s, d, links, kind)
                for (base, half, a, b) in w.hops:
                    if t.get("policy", 2) == 2 and half is None:
                        raise route.Bad(kind + ":split-duplex", "route %d -> %d uses link %s which has no _UP/_DOWN half although the zone is SPLITDUPLEX" % (s, d, base))
                    if half is None:
                        continue
                    mp = sdmap.setdefault((zi, base), {})
                    prev = mp.get((repr(a), repr(b)))
                    if prev is not None and prev != half:
                        raise route.Bad(kind + ":split-duplex", "link %s is used from %s to %s once as %s once as %s" % (base, a, b, prev, half))
                    mp[(repr(a), repr(b))] = half
                    back = mp.get((repr(b), repr(a)))
                    if back is not None and back == half and a != b:
                        raise route.Bad(kind + ":split-duplex", "both directions between %s and %s use the same half %s_%s" % (a, b, base, half))
            except route.Bad as b:
                nsig[b.sig] = nsig.get(b.sig, 0) + 1
                if nsig[b.sig] <= 3:
                    oc.bad(b.sig, "%s zone T%d %s: %s" % (kind, zi, self.describe(t), b))
        for zi, t in enumerate(topos):
            oc.labels.append(t["kind"] if t["kind"] != "xml" else "flat-cluster")
            if t.get("radical") and t["radical"] != list(range(t["radical"][0], t["radical"][0] + len(t["radical"]))):
                oc.labels.append("xml:radical-with-gaps")
            if t["kind"] == "xml":
                if t.get("bb"):
                    oc.labels.append("flat-cluster:backbone")
                continue
            if t["kind"] != "star":
                oc.labels.append("%s:policy=%s" % (t["kind"], {0: "fatpipe", 1: "shared", 2: "splitduplex"}[t.get("policy", 2)]))
                if t.get("loopback"):
                    oc.labels.append(t["kind"] + ":loopback")
                if t.get("limiter"):
                    oc.labels.append(t["kind"] + ":limiter")
            if t["kind"] == "torus":
                oc.labels.append("torus:%dd" % len(t["dims"]))
                if any(x % 2 == 0 and x > 2 for x in t["dims"]):
                    oc.labels.append("torus:even-dimension(tie)")
                if 2 in t["dims"]:
                    oc.labels.append("torus:dimension-of-2")
                if 1 in t["dims"]:
                    oc.labels.append("torus:dimension-of-1")
            if t["kind"] == "fattree":
                oc.labels.append("fattree:%d-levels" % t["ft"][0])
                if any(x > 1 for x in t["ft"][3]):
                    oc.labels.append("fattree:parallel-links")
                if any(x > 1 for x in t["ft"][2]):
                    oc.labels.append("fattree:several-parents")
                if zi > 0 and any(tt["kind"] == "fattree" for tt in topos[:zi]):
                    oc.labels.append("fattree:second-fat-tree-of-platform")
            if t["kind"] == "dragonfly":
                df = t["df"]
                oc.labels.append("dragonfly:groups=%d" % df[0][0])
                if df[1][0] > 1:
                    oc.labels.append("dragonfly:several-chassis")
                if df[2][0] > 1:
                    oc.labels.append("dragonfly:several-routers")
        if len(topos) > 1:
            oc.labels.append("two-zones")
        oc.nontrivial = nontrivial
        oc.info = {"zones": [self.describe(t) for t in topos], "routes": len(res)}
        return oc

    @staticmethod
    def describe(t):
        if t["kind"] == "torus":
            return "dims=%s" % t["dims"]
        if t["kind"] == "fattree":
            return "ft=%s" % t["ft"]
        if t["kind"] == "dragonfly":
            return "df=%s" % t["df"]
        if t["kind"] == "xml":
            return "flat cluster radical=%s bb=%s policy=%s loopback=%s limiter=%s" % (route.radical_str(t["radical"]), t.get("bb"), t.get("policy"), t.get("loopback"), t.get("limiter"))
        return "star(%d members)" % len(t["members"])


PROP = C26()
