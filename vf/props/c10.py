"""C10 Resource failures are reported to every live participant (fault enumeration)."""
from .. import core, faultgen


class C10(core.Prop):
    id = "C10"
    drivers = [faultgen.DRIVER]
    level = "fault_enumeration"
    sizes = {"quick": 32, "thorough": 300}
    max_workers = 6
    ready = True
    technique = ("property-based testing (Hypothesis) + exhaustive fault-schedule enumeration per generated program: invariants over the "
                 "kernel-ordered log of every faulty run (validity predicate built on a logical replay of the log)")
    rule = ("A case is ONE generated program: 2-3 actors on 2-3 hosts (1-4 cores, some with a disk), 1-3 links (SHARED / FATPIPE / SPLITDUPLEX, "
            "latencies 0-1 s so that latency phases last) with symmetric or asymmetric 1-2 link routes, cross-traffic on or off, cpu/optim Lazy / "
            "Full / TI, network/optim Lazy / Full; 2-5 steps among: communication (put / put_init+wait / put_async / put_detach against get / "
            "get_init+wait / get_async, later wait or wait_any), local and remote executions (blocking or async), local and remote disk I/O, sleeps, "
            "join, mutex sections; every actor registers an on_exit callback.  check() runs the program fault-free, collects its distinct event "
            "dates D and ENUMERATES the single faults: every host (but the injector's) and every link (each direction of a split-duplex link and "
            "the link as a whole) x every date of D (both injection methods: an injector actor on a host that never fails, and a state profile "
            "in the platform), D -/+ 2^-20 and the midpoints (methods alternate); above 64 runs the midpoints, then the 'just after', then the "
            "'just before' dates are dropped.  Thorough adds 2-6 generated pairs per program (a second failure, or the resource comes back, at "
            "an event date of the single-fault run +/- 2^-20).  Every faulty log is replayed logically (FIFO mailbox matching, which activity "
            "runs between which hosts over which links -- computed from the platform description, reverse route included under cross-traffic "
            "--, who is blocked on what) and checked: I1 every live actor blocked on an activity that uses the failed resource (or that starts "
            "on it while it is off, or waits for it later) gets NetworkFailure / HostFailure / StorageFailure at the date of the failure (resp. "
            "of the start / of the wait), never a normal return; I2 the actors of a failed host terminate at that date, their on_exit callbacks "
            "run once with failed=true, they print nothing afterwards, no survivor is killed; I3 every failure exception is justified by a failed "
            "resource its activity uses (an activity that completed before the switch does not count); I4 at the end nobody is blocked on "
            "anything but an unmatched communication, a synchronisation object or a join on a blocked actor.  A run that does not finish is a "
            "violation (crash signature).  NON-TRIVIAL case: at least one run where the failure hits a running activity with a surviving waiter.  "
            "Distinct = distinct programs.")
    assumptions = ["sequential runs; the kernel serves the requests of a scheduling round after all its actors ran, in the order of the req lines: "
                   "requests printed between the injector's request and the onoff record are replayed after the switch",
                   "an activity that ends at the very date of the switch may end either way (the tie is left open by the statement): completion is "
                   "read from the faulty log itself (act_end records, remaining == 0 samples) and from the reference run (same program without the fault)",
                   "Activity::test() is not generated (the kernel deliberately swallows the failure there); timeouts are not generated",
                   "a join on an actor of the failed host returns at the date of the failure",
                   "when a root-cause defect already invalidates the logical model of a run (a survivor killed, a victim not killed, a state "
                   "profile event that does not stop the clock) only that defect is reported for the run, not what follows from it"]

    def strategy(self, tier):
        if tier == "quick":
            return faultgen.programs(tier)
        return faultgen.programs_with_pairs()

    def check(self, case):
        oc = core.Outcome()
        prog = {k: v for k, v in case.items() if k != "faults"}
        base = faultgen.run(faultgen.faulty(prog, []))
        if base.wall_exceeded:
            raise core.Inconclusive()
        oc.evals = 1
        labels = set()
        if not base.done:
            oc.bad(faultgen.crash_sig(base), "the fault-free run did not finish: " + base.crash_text())
            return oc
        ref = faultgen.Replay(prog, base).run()
        if ref.desync:
            oc.invalid = True
            oc.info = {"desync": ref.desync}
            return oc
        for s, m in ref.viol:
            oc.bad("fault-free:" + s, "in the fault-free run: " + m)
        if ref.deadlock is not None:
            labels.add("fault-free-run-deadlocks")
        prog = {k: v for k, v in prog.items() if k != "pairs"}
        scheds = case.get("faults") or faultgen.enumerate_faults(prog, base, cap=160 if case.get("pairs") else 64)
        seen = set()
        nhit = 0
        singles = {}

        def one(faults, ref_rp):
            nonlocal nhit
            rp, viol, log = faultgen.check_one(prog, faults, ref_rp)
            oc.evals += 1
            if rp is not None:
                labels.update(rp.labels)
                labels.add("how:" + faults[-1]["how"])
                if len(faults) > 1:
                    labels.add("pair:" + ("back-on" if faults[-1]["on"] else "second-failure"))
                if rp.hit_with_waiter:
                    nhit += 1
            for s, m in viol:
                if s not in seen:
                    seen.add(s)
                    oc.bad(s, m)
            return rp, log
        for k, faults in enumerate(scheds):
            if len(faults) == 1:
                singles[k] = one(faults, ref)
            else:                       # an explicit schedule of a replay file: the reference of the last fault is the run without it
                rp1, viol1, log1 = faultgen.check_one(prog, faults[:-1], ref)
                oc.evals += 1
                if rp1 is not None:
                    one(faults, [ref, rp1])
        # generated pairs (thorough): a second failure, or the failed resource comes back, at an event date of the single-fault run
        for spec in case.get("pairs", []):
            if not singles:
                break
            k = sorted(singles)[spec["first"] % len(singles)]
            rp1, log1 = singles[k]
            if rp1 is None:
                continue
            pair = faultgen.make_pair(prog, scheds[k][0], log1, spec)
            if pair is not None:
                one(pair, [ref, rp1])
        oc.labels = sorted(labels)
        oc.nontrivial = nhit > 0
        oc.info = {"runs": oc.evals, "runs_hitting_a_waiter": nhit}
        return oc


PROP = C10()
