"""C10 Resource failures are reported to every live participant (fault enumeration)."""
from .. import core, faultgen


class C10(core.Prop):
    id = "C10"
    drivers = [faultgen.DRIVER]
    level = "fault_enumeration"
    sizes = {"quick": 40, "thorough": 1500}
    max_workers = 6
    technique = ("property-based testing (Hypothesis) + exhaustive fault-schedule enumeration per generated program: invariants over the "
                 "kernel-ordered log of every faulty run (validity predicate built on a logical replay of the log)")
    rule = ""
    assumptions = []

    def strategy(self, tier):
        return faultgen.programs(tier)

    def check(self, case):
        oc = core.Outcome()
        prog = {k: v for k, v in case.items() if k != "faults"}
        base = faultgen.run(faultgen.faulty(prog, []))
        if base.wall_exceeded:
            raise core.Inconclusive()
        oc.evals = 1
        labels = set()
        if not base.done:
            oc.bad(faultgen.crash_sig(base), "the fault-free run did not finish: " + base.crash_text())
            return oc
        ref = faultgen.Replay(prog, base).run()
        if ref.desync:
            oc.invalid = True
            oc.info = {"desync": ref.desync}
            return oc
        for s, m in ref.viol:
            oc.bad("fault-free:" + s, "in the fault-free run: " + m)
        if ref.deadlock is not None:
            labels.add("fault-free-run-deadlocks")
        scheds = case.get("faults") or faultgen.enumerate_faults(prog, base)
        seen = set()
        nhit = 0
        for faults in scheds:
            rp, viol, log = faultgen.check_one(prog, faults, ref)
            oc.evals += 1
            if rp is not None:
                labels |= rp.labels
                labels.add("how:" + faults[-1]["how"])
                if rp.hit_with_waiter:
                    nhit += 1
            for s, m in viol:
                if s not in seen:
                    seen.add(s)
                    oc.bad(s, m)
        oc.labels = sorted(labels)
        oc.nontrivial = nhit > 0
        oc.info = {"runs": oc.evals, "runs_hitting_a_waiter": nhit}
        return oc


PROP = C10()
