"""C10 Resource failures are reported to every live participant (fault enumeration)."""
from .. import core, faultgen


class C10(core.Prop):
    id = "C10"
    drivers = [faultgen.DRIVER]
    level = "fault_enumeration"
    sizes = {"quick": 40, "thorough": 1500}
    max_workers = 6
    technique = ("property-based testing (Hypothesis) + exhaustive fault-schedule enumeration per generated program: invariants over the "
                 "kernel-ordered log of every faulty run (validity predicate built on a logical replay of the log)")
    rule = ""
    assumptions = []

    def strategy(self, tier):
        if tier == "quick":
            return faultgen.programs(tier)
        return faultgen.programs_with_pairs()

    def check(self, case):
        oc = core.Outcome()
        prog = {k: v for k, v in case.items() if k != "faults"}
        base = faultgen.run(faultgen.faulty(prog, []))
        if base.wall_exceeded:
            raise core.Inconclusive()
        oc.evals = 1
        labels = set()
        if not base.done:
            oc.bad(faultgen.crash_sig(base), "the fault-free run did not finish: " + base.crash_text())
            return oc
        ref = faultgen.Replay(prog, base).run()
        if ref.desync:
            oc.invalid = True
            oc.info = {"desync": ref.desync}
            return oc
        for s, m in ref.viol:
            oc.bad("fault-free:" + s, "in the fault-free run: " + m)
        if ref.deadlock is not None:
            labels.add("fault-free-run-deadlocks")
        prog = {k: v for k, v in prog.items() if k != "pairs"}
        scheds = case.get("faults") or faultgen.enumerate_faults(prog, base, cap=160 if case.get("pairs") else 64)
        seen = set()
        nhit = 0
        singles = {}

        def one(faults, ref_rp):
            nonlocal nhit
            rp, viol, log = faultgen.check_one(prog, faults, ref_rp)
            oc.evals += 1
            if rp is not None:
                labels.update(rp.labels)
                labels.add("how:" + faults[-1]["how"])
                if len(faults) > 1:
                    labels.add("pair:" + ("back-on" if faults[-1]["on"] else "second-failure"))
                if rp.hit_with_waiter:
                    nhit += 1
            for s, m in viol:
                if s not in seen:
                    seen.add(s)
                    oc.bad(s, m)
            return rp, log
        for k, faults in enumerate(scheds):
            if len(faults) == 1:
                singles[k] = one(faults, ref)
            else:                       # an explicit schedule of a replay file: the reference of the last fault is the run without it
                rp1, viol1, log1 = faultgen.check_one(prog, faults[:-1], ref)
                oc.evals += 1
                if rp1 is not None:
                    one(faults, [ref, rp1])
        # generated pairs (thorough): a second failure, or the failed resource comes back, at an event date of the single-fault run
        for spec in case.get("pairs", []):
            if not singles:
                break
            k = sorted(singles)[spec["first"] % len(singles)]
            rp1, log1 = singles[k]
            if rp1 is None:
                continue
            pair = faultgen.make_pair(prog, scheds[k][0], log1, spec)
            if pair is not None:
                one(pair, [ref, rp1])
        oc.labels = sorted(labels)
        oc.nontrivial = nhit > 0
        oc.info = {"runs": oc.evals, "runs_hitting_a_waiter": nhit}
        return oc


PROP = C10()
