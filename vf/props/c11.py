"""C11 Actor lifecycle semantics."""
from .. import core, lifecycle, timing


class C11(core.Prop):
    id = "C11"
    drivers = [timing.DRIVER]
    sizes = {"quick": 1500, "thorough": 60000}
    max_workers = 6
    ready = True
    technique = ("property-based testing (Hypothesis): generated actor-management programs run on the real kernel, their kernel-ordered log "
                 "replayed through a lifecycle specification (model-based oracle, exact dates)")
    rule = ("1-4 workers on 3 hosts (0-3 on_exit callbacks, daemon / kill-time / auto-restart properties; bodies of <=6 operations: sleep, exec, "
            "on_exit registration, join with and without time-out, kill, suspend / resume of others, self-suspension, daemonize, set_kill_time, exit, "
            "spawn of template children), one controller (sleeps interleaved with kill, kill_all, suspend then resume, join, host turn_off then "
            "turn_on, spawn) and sometimes a second one; all durations are multiples of 1/4 s (3 in 4) or 2^-10 s, so that dates coincide often.  "
            "Oracle (exact dates, from the log): every actor terminates at the date of the earliest cause (end of body, exit, kill, kill_all, "
            "kill time, host shutdown, last non-daemon gone, deadlock) and never without cause; its on_exit callbacks run at that date, once "
            "each, in reverse registration order (callbacks inherited over a reboot included), failed = the body did not return; join(x, t) "
            "returns at min(termination of x, call + t); nothing completes while an actor is suspended: an operation that ends during a "
            "suspension returns at the resume date and an execution ends later by exactly the suspended span; turning a host on re-creates "
            "exactly its auto-restart actors, which start at once.  Non-trivial: a join whose time-out or call date equals the target's "
            "termination date, >= 2 on_exit callbacks, a suspension with an operation in flight, or a daemon alive at the end.")
    assumptions = ["sequential runs; the order of two requests issued at the same date is taken from the log; a request whose issuer is killed in the "
                   "very round it is issued may or may not be served (both accepted)",
                   "a sleep (or join time-out) keeps running while its actor is suspended and the actor wakes at max(end, resume) (the statement only "
                   "says that the actor makes no progress); an execution is frozen",
                   "an operation that completes at the very date a suspension starts may return at that date or at the resume date",
                   "several kill times: the last one set in the future wins (semantics of the fix 6bf89374c4); a child that terminates while its creator "
                   "is still applying daemon / kill time / auto-restart to it: the properties of its later incarnations are not asserted"]

    def strategy(self, tier):
        return lifecycle.c11_programs()

    def check(self, case):
        oc = core.Outcome()
        log = timing.run(case)
        if log.wall_exceeded:
            raise core.Inconclusive()
        labels = set()
        if not log.done:
            sig = timing.crash_sig(log)
            if sig.startswith("run-crashed:signal") and lifecycle.exception_wakes_suspended_actor(log):
                sig = lifecycle.EXC_WAKES + ":" + sig
            oc.bad(sig, "the interpreter did not finish: " + log.crash_text())
            return oc
        lifecycle.check_c11(case, log, oc, labels)
        oc.labels = sorted(labels)
        oc.nontrivial = any(l in labels for l in ("join-timeout-equals-death-date", "join-at-death-date", "on_exit>=2", "exec-shifted-by-suspension",
                                                   "join-while-suspended", "daemon-alive-at-the-end"))
        return oc


PROP = C11()
