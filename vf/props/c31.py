"""C31 Predefined reduction operators compute MPI results."""
import struct

from hypothesis import strategies as st

from .. import core, mpi

# ---------------------------------------------------------------------------------------------
# Datatypes: family (row of the MPI-3.1 5.9.2 table) and representation.  Widths come from MPI_Type_size at run time
# (SMPI has its own widths for some Fortran types: MPI_INTEGER1 is 4 bytes, MPI_COMPLEX32 is 2 doubles).
C_INT = {"INT": 1, "LONG": 1, "SHORT": 1, "UNSIGNED_SHORT": 0, "UNSIGNED": 0, "UNSIGNED_LONG": 0, "LONG_LONG": 1,
         "UNSIGNED_LONG_LONG": 0, "SIGNED_CHAR": 1, "UNSIGNED_CHAR": 0, "INT8_T": 1, "INT16_T": 1, "INT32_T": 1, "INT64_T": 1,
         "UINT8_T": 0, "UINT16_T": 0, "UINT32_T": 0, "UINT64_T": 0}
F_INT = {"INTEGER1": 1, "INTEGER2": 1, "INTEGER4": 1, "INTEGER8": 1, "INTEGER16": 1}
FP = ["FLOAT", "DOUBLE", "LONG_DOUBLE", "REAL", "REAL4", "REAL8", "REAL16"]
LOGICAL = ["C_BOOL", "CXX_BOOL"]
COMPLEX = ["C_FLOAT_COMPLEX", "C_DOUBLE_COMPLEX", "C_LONG_DOUBLE_COMPLEX", "CXX_FLOAT_COMPLEX", "CXX_DOUBLE_COMPLEX",
           "CXX_LONG_DOUBLE_COMPLEX", "COMPLEX8", "COMPLEX16", "COMPLEX32"]
MULTI = {"AINT": 1, "OFFSET": 1, "COUNT": 1}
CHARS = {"CHAR": 1, "WCHAR": 1}          # "printable characters": not in the table of any operator
PAIRS = {"FLOAT_INT": ("f4", "i4"), "DOUBLE_INT": ("f8", "i4"), "LONG_INT": ("i8", "i4"), "SHORT_INT": ("i2", "i4"), "2INT": ("i4", "i4"),
         "LONG_DOUBLE_INT": ("f16", "i4"), "2REAL": ("f4", "f4"), "2DOUBLE_PRECISION": ("f8", "f8"),
         "2LONG": ("i8", "i8")}          # MPI_2LONG: SMPI's own pair type (flagged for MINLOC/MAXLOC like the standard ones)

FAMILY = {}
for _n in C_INT:
    FAMILY[_n] = "c_int"
for _n in F_INT:
    FAMILY[_n] = "f_int"
for _n in FP:
    FAMILY[_n] = "fp"
for _n in LOGICAL:
    FAMILY[_n] = "logical"
for _n in COMPLEX:
    FAMILY[_n] = "complex"
for _n in MULTI:
    FAMILY[_n] = "multi"
for _n in CHARS:
    FAMILY[_n] = "char"
for _n in PAIRS:
    FAMILY[_n] = "pair"
FAMILY["BYTE"] = "byte"

OPS = ["MAX", "MIN", "SUM", "PROD", "LAND", "LOR", "LXOR", "BAND", "BOR", "BXOR", "MINLOC", "MAXLOC", "REPLACE", "NO_OP"]
GROUP = {"MAX": "minmax", "MIN": "minmax", "SUM": "sumprod", "PROD": "sumprod", "LAND": "logical", "LOR": "logical", "LXOR": "logical",
         "BAND": "bitwise", "BOR": "bitwise", "BXOR": "bitwise", "MINLOC": "loc", "MAXLOC": "loc", "REPLACE": "rma", "NO_OP": "rma"}
TABLE = {"minmax": {"c_int", "f_int", "fp", "multi"}, "sumprod": {"c_int", "f_int", "fp", "complex", "multi"},
         "logical": {"c_int", "logical"}, "bitwise": {"c_int", "f_int", "byte", "multi"}, "loc": {"pair"}, "rma": set()}


def status_of(op, fam):
    """'table': MPI defines the result; 'unsupported': no meaning at all, must be rejected; 'extension': MPI does not allow it but an
    implementation that accepts it is common practice (MPI_CHAR arithmetic, logical operators on other scalars...): only 'no crash'."""
    g = GROUP[op]
    if fam in TABLE[g]:
        return "table"
    if g == "rma" or (g == "loc") != (fam == "pair"):
        return "unsupported"
    if (g == "bitwise" and fam in ("fp", "complex")) or (g in ("minmax", "logical") and fam == "complex"):
        return "unsupported"
    return "extension"


# ---------------------------------------------------------------------------------------------
# Representation
_np = None


def np():
    global _np
    if _np is None:
        import numpy
        _np = numpy
    return _np


class Scalar:
    """kind: 'i' (signed int), 'u' (unsigned), 'f' (float), 'b' (C bool); size in bytes."""

    def __init__(self, kind, size):
        self.kind, self.size = kind, size

    def enc(self, v):
        if self.kind in "iu":
            return (int(v) & ((1 << (8 * self.size)) - 1)).to_bytes(self.size, "little")
        if self.kind == "b":
            return bytes([1 if v else 0])
        return self.fl(v).tobytes()

    def dec(self, b):
        if self.kind in "iu":
            return int.from_bytes(b, "little", signed=self.kind == "i")
        if self.kind == "b":
            return b[0]
        return np().frombuffer(bytes(b), dtype=self.ftype())[0]

    def ftype(self):
        return {4: np().float32, 8: np().float64, 16: np().longdouble}[self.size]

    def fl(self, v):
        with np().errstate(all="ignore"):
            return self.ftype()(v)

    def norm(self, v):
        """the value actually stored for the case atom v"""
        if self.kind == "f":
            return self.fl(v)
        if self.kind == "b":
            return 1 if v else 0
        return self.dec(self.enc(v))

    def lo(self):
        return -(1 << (8 * self.size - 1)) if self.kind == "i" else 0

    def hi(self):
        return (1 << (8 * self.size - 1)) - 1 if self.kind == "i" else (1 << (8 * self.size)) - 1


def scalar_of(code):
    return Scalar(code[0], int(code[1:]))


class TypeDesc:
    def __init__(self, name, info):
        self.name = name
        self.fam = FAMILY[name]
        self.size = info["size"]
        self.extent = info["extent"]
        fam = self.fam
        if fam in ("c_int", "f_int", "multi", "char", "byte"):
            signed = {**C_INT, **F_INT, **MULTI, **CHARS, "BYTE": 0}[name]
            self.fields = [(0, Scalar("i" if signed else "u", self.size))]
        elif fam == "fp":
            self.fields = [(0, Scalar("f", self.size))]
        elif fam == "logical":
            self.fields = [(0, Scalar("b", 1))]
        elif fam == "complex":
            self.fields = [(0, Scalar("f", self.size // 2)), (self.size // 2, Scalar("f", self.size // 2))]
        else:
            v, i = (scalar_of(c) for c in PAIRS[name])
            off = (v.size + i.size - 1) // i.size * i.size
            self.fields = [(0, v), (off, i)]
            total = off + i.size
            align = max(v.size, i.size)
            total = (total + align - 1) // align * align
            if total != self.extent:
                raise RuntimeError("layout of %s: computed %d bytes, MPI_Type_get_extent says %d" % (name, total, self.extent))

    def arity(self):
        return len(self.fields)

    def enc(self, elems):
        out = bytearray()
        for e in elems:
            b = bytearray(b"\x00" * self.extent)
            vals = e if self.arity() > 1 else [e]
            for (off, sc), v in zip(self.fields, vals):
                b[off:off + sc.size] = sc.enc(v)[:sc.size]
            out += b
        return bytes(out)

    def dec(self, data):
        res = []
        for k in range(len(data) // self.extent):
            chunk = data[k * self.extent:(k + 1) * self.extent]
            vals = [sc.dec(chunk[off:off + sc.size]) for off, sc in self.fields]
            res.append(vals if self.arity() > 1 else vals[0])
        return res

    def norm(self, elems):
        if self.arity() > 1:
            return [[sc.norm(v) for (_, sc), v in zip(self.fields, e)] for e in elems]
        return [self.fields[0][1].norm(e) for e in elems]


_TYPES = None


def types():
    global _TYPES
    if _TYPES is None:
        r = mpi.run({"np": 1, "prog": [{"op": "predefined_types"}]})
        if not r.ok:
            raise core.Inconclusive("cannot read the predefined types")
        info = r.get(0, 0)["types"]
        _TYPES = {n: TypeDesc(n, info[n]) for n in FAMILY if info.get(n)}
    return _TYPES


# ---------------------------------------------------------------------------------------------
# Reference
SKIP = object()        # result not defined by C (signed overflow): not compared


def same(a, b):
    if hasattr(a, "dtype") or isinstance(a, float):
        n = np()
        return bool((n.isnan(a) and n.isnan(b)) or a == b)       # +0 == -0: MPI says nothing about the sign of a zero
    return a == b


def ref_scalar(op, sc, xs):
    """fold of the values xs (already normalised to the type) with operator op, for one scalar type"""
    n = np()
    if sc.kind == "f":
        with n.errstate(all="ignore"):
            acc = xs[0]
            for x in xs[1:]:
                if op == "MAX":
                    acc = x if acc < x else acc
                elif op == "MIN":
                    acc = x if x < acc else acc
                elif op == "SUM":
                    acc = acc + x
                elif op == "PROD":
                    acc = acc * x
                else:
                    raise KeyError(op)
            return acc
    if sc.kind == "b":
        acc = xs[0]
        for x in xs[1:]:
            acc = {"LAND": acc and x, "LOR": acc or x, "LXOR": int(bool(acc) != bool(x))}[op]
        return 1 if acc else 0
    # integers
    mask = (1 << (8 * sc.size)) - 1
    if op == "MAX":
        return max(xs)
    if op == "MIN":
        return min(xs)
    if op in ("SUM", "PROD"):
        if op == "SUM":
            exact = sum(xs)
            risky = sum(x for x in xs if x > 0) > sc.hi() or sum(x for x in xs if x < 0) < sc.lo()
        else:
            exact = 1
            mag = 1
            for x in xs:
                exact *= x
                mag *= abs(x)
            risky = mag > sc.hi()
        if len(xs) == 2:
            risky = not (sc.lo() <= exact <= sc.hi())
        if sc.kind == "i" and sc.size >= 4 and risky:
            return SKIP          # signed overflow of int / long / long long is undefined behaviour in C
        return sc.dec((exact & mask).to_bytes(sc.size, "little"))
    if op in ("LAND", "LOR", "LXOR"):
        acc = xs[0]
        for x in xs[1:]:
            acc = {"LAND": int(bool(acc) and bool(x)), "LOR": int(bool(acc) or bool(x)), "LXOR": int(bool(acc) != bool(x))}[op]
        return acc
    if op in ("BAND", "BOR", "BXOR"):
        acc = xs[0] & mask
        for x in xs[1:]:
            x &= mask
            acc = {"BAND": acc & x, "BOR": acc | x, "BXOR": acc ^ x}[op]
        return sc.dec(acc.to_bytes(sc.size, "little"))
    raise KeyError(op)


def ref_elem(op, td, xs):
    """xs: the values of one element on every contributor, in rank order (Reduce_local: [in, inout])"""
    fam = td.fam
    if fam == "complex":
        sc = td.fields[0][1]
        n = np()
        with n.errstate(all="ignore"):
            re, im = xs[0]
            for xr, xi in xs[1:]:
                if op == "SUM":
                    re, im = re + xr, im + xi
                elif op == "PROD":
                    re, im = re * xr - im * xi, re * xi + im * xr
                else:
                    raise KeyError(op)
        return [re, im]
    if fam == "pair":
        best = xs[0]
        for v, i in xs[1:]:
            bv, bi = best
            if same(v, bv):
                if i < bi:
                    best = [v, i]
            elif (v > bv) if op == "MAXLOC" else (v < bv):
                best = [v, i]
        return best
    return ref_scalar(op, td.fields[0][1], xs)


def elem_equal(td, got, exp):
    if exp is SKIP:
        return True
    if td.arity() > 1:
        return all(same(g, e) for g, e in zip(got, exp))
    return same(got, exp)


# ---------------------------------------------------------------------------------------------
# Generation
def int_atoms(bits_hint=64):
    ext = [0, 1, -1, 2, 127, 128, -128, 255, 256, 32767, -32768, 65535, 2 ** 31 - 1, -2 ** 31, 2 ** 32 - 1, 2 ** 63 - 1, -2 ** 63, 2 ** 64 - 1,
           2 ** 127 - 1, -2 ** 127]
    return st.one_of(st.sampled_from(ext), st.integers(-4, 4), st.integers(-2 ** 63, 2 ** 64 - 1))


FLOAT_EXT = [0.0, -0.0, 1.0, -1.0, 0.5, 2.0, float("inf"), float("-inf"), 3.4028234663852886e+38, -3.4028234663852886e+38,
             1.7976931348623157e+308, -1.7976931348623157e+308, 5e-324, 1.401298464324817e-45, 1.1754943508222875e-38, 16777216.0, 16777217.0]
float_atoms = st.one_of(st.sampled_from(FLOAT_EXT), st.integers(-3, 3).map(float), st.floats(allow_nan=False, width=64))
safe_floats = st.sampled_from([0.0, 1.0, -1.0, 2.0, -2.0, 3.0, 0.5, -0.5, 4.0, -3.0])


def index_strategy(sc):
    """index component of a pair type: the FULL range of its C type with boundary bias; for 64-bit indices also values whose low
    32 bits (as a signed int) order differently from the full value"""
    if sc.kind == "f":
        return st.one_of(st.integers(0, 5).map(float), st.sampled_from([-1.0, 0.5, 16777216.0, 16777217.0, 4294967296.0, 1e30, -1e30]),
                         st.floats(allow_nan=False, allow_infinity=False, width=32))
    lo, hi = sc.lo(), sc.hi()
    bnd = [0, 1, -1, 2, lo, hi, lo + 1, hi - 1, 2 ** 15, 2 ** 16, -2 ** 15 - 1]
    if sc.size >= 8:
        bnd += [2 ** 31 - 1, 2 ** 31, 2 ** 31 + 1, -2 ** 31, -2 ** 31 - 1, 2 ** 32 - 1, 2 ** 32, 2 ** 32 + 1, 2 ** 32 + 7, 2 ** 33 - 2, -2 ** 32, -2 ** 32 + 3,
                0x180000001, 0x7fffffff00000000, 0x100000000 * 5 + 2, -0x100000000 * 3 - 1]
    bnd = [x for x in bnd if lo <= x <= hi]
    return st.one_of(st.integers(-2, 7), st.sampled_from(bnd), st.integers(lo, hi),
                     st.tuples(st.integers(-3, 3), st.integers(-4, 9)).map(lambda hl: max(lo, min(hi, (hl[0] << 32) + hl[1])) if sc.size >= 8 else hl[1]))


def elem_strategy(td, safe):
    def scalar(sc):
        if sc.kind in "iu":
            own = [sc.lo(), sc.hi(), sc.lo() + 1, sc.hi() - 1, sc.hi() // 2, sc.hi() // 2 + 1]      # extremes and sign bit of THIS width
            return st.one_of(st.sampled_from(own), int_atoms())
        if sc.kind == "b":
            return st.integers(0, 1)
        return safe_floats if safe else float_atoms
    if td.fam == "pair":
        v = scalar(td.fields[0][1])
        if td.fields[0][1].kind == "f":
            v = st.one_of(st.sampled_from([0.0, -0.0, 1.0, float("inf"), float("-inf")]), v)
        else:
            v = st.one_of(st.integers(-1, 1), v)
        return st.tuples(v, index_strategy(td.fields[1][1])).map(list)
    if td.fam == "complex":
        return st.tuples(scalar(td.fields[0][1]), scalar(td.fields[1][1])).map(list)
    return scalar(td.fields[0][1])


TYPE_NAMES = sorted(FAMILY)


@st.composite
def tests(draw, np_):
    tds = types()
    name = draw(st.sampled_from([n for n in TYPE_NAMES if n in tds] + [n for n in PAIRS if n in tds]))        # pair types twice
    td = tds[name]
    want = draw(st.integers(0, 9))
    cands = [o for o in OPS if status_of(o, td.fam) == "table"] if want < 8 else OPS
    op = draw(st.sampled_from(cands or OPS))
    kind = draw(st.sampled_from(["local", "local", "all", "rma"]))
    count = draw(st.sampled_from([0, 1, 1, 2, 2, 3, 4, 5, 8, 17, 64])) if draw(st.integers(0, 3)) == 0 else draw(st.integers(0, 6))
    mode = None
    if kind == "rma":
        # one-sided accumulate: the operators of the table for this type, plus MPI_REPLACE and (Get_accumulate/Fetch_and_op) MPI_NO_OP
        op = draw(st.sampled_from([o for o in OPS if status_of(o, td.fam) == "table"] + ["REPLACE", "REPLACE", "NO_OP", "NO_OP"]))
        mode = draw(st.sampled_from(["getacc", "fop"] if op == "NO_OP" else ["acc", "getacc", "fop"]))
        if mode == "fop":
            count = 1
    nvec = 2 if kind in ("local", "rma") else np_
    # order-sensitive floating-point folds (more than two contributors) and complex products use exactly representable values
    safe = (td.fam in ("fp", "complex") and op in ("SUM", "PROD") and nvec > 2) or (td.fam == "complex" and op == "PROD")
    es = elem_strategy(td, safe)
    ties = draw(st.booleans())
    vecs = []
    for k in range(nvec):
        if ties and k > 0 and draw(st.integers(0, 2)) == 0:
            vecs.append(list(vecs[0]))
        else:
            vecs.append(draw(st.lists(es, min_size=count, max_size=count)))
    if td.fam == "pair" and count and draw(st.integers(0, 9)) < 8:
        # MINLOC/MAXLOC are decided by the index only when the values tie: equal values across the contributors, different indices
        for e in range(count):
            for k in range(1, nvec):
                if draw(st.integers(0, 9)) < 6:
                    vecs[k][e] = [vecs[0][e][0], vecs[k][e][1]]
    t = {"k": kind, "op": op, "type": name, "v": vecs}
    if kind == "all":
        t["inplace"] = draw(st.booleans())
    if kind == "rma":
        t.update(mode=mode, origin=draw(st.integers(0, np_ - 1)), target=draw(st.integers(0, np_ - 1)))
    return t


@st.composite
def cases(draw):
    np_ = draw(st.sampled_from([1, 2, 2, 3, 4]))
    return {"np": np_, "tests": draw(st.lists(tests(np_), min_size=1, max_size=10))}


class C31(core.Prop):
    id = "C31"
    ready = True
    drivers = ["mpi_interp"]
    sizes = {"quick": 900, "thorough": 30000}
    max_workers = 4
    technique = ("property-based testing (Hypothesis): element-wise reference (Python integers, numpy float32/float64/80-bit long double) of "
                 "every predefined operator, compared with MPI_Reduce_local and MPI_Allreduce results; exhaustive operator x datatype sweep")
    rule = ("A case = one simulated SMPI run of 1..4 ranks executing 1..10 tests; a test = (operator, predefined datatype, count 0..64, one "
            "vector per contributor) run through MPI_Reduce_local (in, inout), MPI_Allreduce (one vector per rank, optionally MPI_IN_PLACE), or "
            "one-sided MPI_Accumulate / MPI_Get_accumulate / MPI_Fetch_and_op between two fences (table pairs plus MPI_REPLACE and MPI_NO_OP: "
            "window of the target, windows of the other ranks, fetched previous content). "
            "Datatypes: every distinct predefined handle of the MPI table (C integers, Fortran integers, floating point, C/C++ bool, C/C++/"
            "Fortran complex, byte, AINT/OFFSET/COUNT, the pair types) plus CHAR/WCHAR; widths from MPI_Type_size. Values: extremes of every "
            "width, +-0, +-inf, largest/smallest floats, small values (ties), repeated vectors. Oracle: (1) pair in the MPI-3.1 5.9.2 table: "
            "MPI_SUCCESS and the element-wise MPI result (MINLOC/MAXLOC: lowest index on ties), input buffer and guard zones untouched; "
            "(2) pairs without any meaning (MINLOC/MAXLOC on non-pair types, other operators on pair types, bitwise on floating point/complex, "
            "MAX/MIN/logical on complex, MPI_REPLACE/MPI_NO_OP outside RMA): an error code; (3) other pairs outside the table (MPI_CHAR "
            "arithmetic, logical operators on non-integer scalars...): accepted or rejected, but no abort. Fixed cases sweep all operator x "
            "datatype pairs with small vectors that contain the extremes of the type. Non-trivial: count >= 2 with a tie or an extreme value in a table pair. Distinct = canonical JSON.")
    assumptions = ["floating point: exact equality with the IEEE result of the same width (numpy scalars; the library is built without FMA "
                   "contraction: no -march flag), +0 and -0 considered equal, NaN equals NaN; NaN inputs are not generated (MPI does not define "
                   "MAX/MIN on NaN)",
                   "signed overflow of int/long/long long/int128 is undefined behaviour in C: those elements are not compared; narrower signed "
                   "types wrap (integer promotion) and are compared",
                   "folds over more than two contributors of floating-point SUM/PROD, and all complex PROD, use small exactly representable "
                   "values so that the association order and the complex multiplication algorithm cannot change the result",
                   "MPI_REPLACE and MPI_NO_OP must be rejected by Reduce_local/Allreduce (MPI allows them in RMA calls only); their results are "
                   "checked through Accumulate/Get_accumulate/Fetch_and_op at displacement 0 inside a fence epoch (epoch rules themselves: C34)",
                   "smpi/errors-are-fatal:no so that error codes are returned instead of aborting"]

    def strategy(self, tier):
        return cases()

    def fixed_cases(self, tier):
        tds = types()
        res = []
        ts = []
        for name in TYPE_NAMES:
            if name not in tds:
                continue
            td = tds[name]
            for op in OPS:
                for kind in ("local", "all"):
                    if kind == "all" and status_of(op, td.fam) != "table":
                        continue
                    if td.fam == "pair":
                        # ties on the value with indices at the boundaries of the index type (and beyond int32 for 64-bit indices)
                        vecs = [[[1, 3], [0, 1], [2, 2], [5, 7], [5, 1], [-1, 2 ** 31], [4, -1], [0, 2 ** 63 - 1]],
                                [[1, 1], [0, 2], [-1, 0], [5, 2 ** 32], [5, 2 ** 31], [-1, 2 ** 32 + 1], [4, 2 ** 32 - 1], [0, -2 ** 63]]]
                    elif td.fam == "complex":
                        vecs = [[[1, 2], [0, -1], [3, 0]], [[2, -1], [1, 1], [0, 0]]]
                    elif td.fam == "logical":
                        vecs = [[1, 0, 1], [1, 1, 0]]
                    else:
                        sc = td.fields[0][1]
                        vecs = [[3, 0, -2 if sc.kind != "u" else 250, sc.lo(), sc.hi(), sc.hi() // 2 + 1, 0],
                                [1, 5, 7, sc.hi(), sc.lo(), 1, sc.hi()]]
                    if td.fam == "fp":
                        vecs = [[float(x) for x in v] for v in vecs]
                    t = {"k": kind, "op": op, "type": name, "v": vecs}
                    if kind == "all":
                        t["inplace"] = False
                    ts.append(t)
        for i in range(0, len(ts), 12):
            res.append({"np": 2, "tests": ts[i:i + 12]})
        return res

    # -------------------------------------------------------------------------------------------
    def check(self, case):
        oc = core.Outcome()
        tds = types()
        np_ = case["np"]
        prog = []
        metas = []
        for t in case["tests"]:
            if t["type"] not in tds:
                oc.invalid = True
                return oc
            td = tds[t["type"]]
            vecs = t["v"]
            nvec = 2 if t["k"] in ("local", "rma") else np_
            if len(vecs) != nvec or len(set(len(v) for v in vecs)) != 1:
                oc.invalid = True
                return oc
            count = len(vecs[0])
            data = [td.enc(v) for v in vecs]
            if t["k"] == "rma":
                prog.append({"op": "rma_acc_hex", "win": data[1].hex(), "data": data[0].hex(), "origin": t["origin"] % np_,
                             "target": t["target"] % np_, "count": count, "type": t["type"], "mop": t["op"], "mode": t["mode"]})
            elif t["k"] == "local":
                prog.append({"op": "reduce_local_hex", "in": data[0].hex(), "inout": data[1].hex(), "count": count, "type": t["type"],
                             "mop": t["op"], "only": [0]})
            else:
                prog.append({"op": "allreduce_hex", "send": {"@": [d.hex() for d in data]}, "count": count, "type": t["type"], "mop": t["op"],
                             "inplace": bool(t.get("inplace"))})
            metas.append((t, td, data, count))
        res = mpi.run({"np": np_, "prog": prog}, cpu=30)
        fail = res.failure()
        crashed_at = None
        if fail:
            sig, msg = fail
            if sig == "bad-case":
                raise RuntimeError(msg)
            if res.crash is not None:
                crashed_at = res.crash["i"]
                t = case["tests"][crashed_at]
                if "Failed to apply" in res.rr.err:
                    sig = "no-loop-for-type:%s" % t["type"]
                    msg = "%s on MPI_%s (%s): accepted by the argument check, then the library aborts: %s" % (
                        t["op"], t["type"], status_of(t["op"], tds[t["type"]].fam), res.rr.err.strip()[-300:])
                else:
                    sig = "crash:%s:%s" % (GROUP[t["op"]], t["type"])
            oc.bad(sig, msg)
        for i, (t, td, data, count) in enumerate(metas):
            if crashed_at is not None and i >= crashed_at:
                break
            status = status_of(t["op"], td.fam)
            oc.labels.append(status)
            oc.labels.append("%s:%s" % (GROUP[t["op"]], td.fam))
            oc.labels.append(t["k"])
            ranks = [0] if t["k"] == "local" else list(range(np_))
            vals = [td.norm(v) for v in t["v"]]
            if t["k"] == "rma":
                self.judge_rma(oc, res, i, t, td, data, count, vals, np_)
                continue
            what = "MPI_%s(%s, MPI_%s, count=%d)" % ("Reduce_local" if t["k"] == "local" else "Allreduce", t["op"], t["type"], count)
            for r in ranks:
                rec = res.get(r, i)
                if rec is None:
                    if not fail:
                        oc.bad("not-executed", "rank %d did not report test #%d" % (r, i))
                    continue
                if not rec.get("guards", True):
                    oc.bad("guard-zone:%s:%s" % (GROUP[t["op"]], t["type"]), "%s wrote outside its buffers (rank %d)" % (what, r))
                if status == "unsupported":
                    if rec["rc"] == 0:
                        oc.bad("accepted:%s:%s" % (GROUP[t["op"]], td.fam), "%s returned MPI_SUCCESS; this pair has no meaning and must be rejected" % what)
                    continue
                if status == "extension":
                    oc.labels.append("extension-accepted" if rec["rc"] == 0 else "extension-rejected")
                    continue
                if rec["rc"] != 0:
                    oc.bad("rejected:%s:%s" % (GROUP[t["op"]], t["type"]), "%s returned error %d; the MPI table allows this pair" % (what, rec["rc"]))
                    continue
                got = td.dec(bytes.fromhex(rec["out"]))
                src_key = "in_after" if t["k"] == "local" else "send_after"
                mine = data[0] if t["k"] == "local" else data[r]
                if not (t["k"] == "all" and t.get("inplace")) and rec[src_key] != mine.hex():
                    oc.bad("input-modified:%s:%s" % (GROUP[t["op"]], t["type"]), "%s changed its input buffer (rank %d)" % (what, r))
                for e in range(count):
                    xs = [v[e] for v in vals]
                    exp = ref_elem(t["op"], td, xs)
                    if exp is SKIP:
                        oc.labels.append("signed-overflow-not-compared")
                        continue
                    if not elem_equal(td, got[e], exp):
                        oc.bad("wrong-result:%s:%s" % (t["op"] if td.fam in ("pair", "complex") else GROUP[t["op"]], t["type"]),
                               "%s element %d on rank %d: contributions %s -> %s, expected %s" % (what, e, r, fmt(xs), fmt(got[e]), fmt(exp)))
                        break
            if td.fam == "pair" and status == "table" and count >= 1:
                isc = td.fields[1][1]
                for e in range(count):
                    col = [v[e] for v in vals]
                    tied = [(a, b) for x, a in enumerate(col) for b in col[x + 1:] if same(a[0], b[0])]
                    if tied:
                        oc.labels.append("pair:tie")
                    if any(not same(a[1], b[1]) for a, b in tied):
                        oc.labels.append("pair:tie-distinct-index")
                    if isc.kind in "iu" and isc.size >= 8:
                        if any(not -2 ** 31 <= c[1] < 2 ** 31 for c in col):
                            oc.labels.append("pair:index-beyond-int32")

                        def low32(x):
                            x &= 0xffffffff
                            return x - 2 ** 32 if x >= 2 ** 31 else x
                        if any((a[1] < b[1]) != (low32(a[1]) < low32(b[1])) for a, b in tied if a[1] != b[1]):
                            oc.labels.append("pair:tie-index-low32-orders-differently")
                    if isc.kind in "iu" and any(c[1] in (isc.lo(), isc.hi()) for c in col):
                        oc.labels.append("pair:index-at-type-bound")
            if status == "table" and count >= 2:
                flat = [x for v in vals for e in v for x in (e if isinstance(e, list) else [e])]
                tie = any(vals[0][e] == vals[k][e] if not isinstance(vals[0][e], list) else same(vals[0][e][0], vals[k][e][0])
                          for e in range(count) for k in range(1, len(vals)))
                extreme = any(is_extreme(td, x) for x in flat)
                if tie:
                    oc.labels.append("tie")
                if extreme:
                    oc.labels.append("extreme")
                if tie or extreme:
                    oc.nontrivial = True
            if count == 0:
                oc.labels.append("count=0")
        pl = sorted(set(l for l in oc.labels if l.startswith("pair:")))          # once per case
        oc.labels = [l for l in oc.labels if not l.startswith("pair:")] + pl
        return oc


def _judge_rma(self, oc, res, i, t, td, data, count, vals, np_):
    """MPI_Accumulate / MPI_Get_accumulate / MPI_Fetch_and_op of `data` (origin) onto the window of the target, which holds `win`"""
    origin, target, mode, op = t["origin"] % np_, t["target"] % np_, t["mode"], t["op"]
    what = "MPI_%s(%s, MPI_%s, count=%d) from rank %d to the window of rank %d" % (
        {"acc": "Accumulate", "getacc": "Get_accumulate", "fop": "Fetch_and_op"}[mode], op, t["type"], count, origin, target)
    grp = "rma-" + (op if op in ("REPLACE", "NO_OP") else GROUP[op])
    oc.labels.append("rma:" + mode)
    for r in range(np_):
        rec = res.get(r, i)
        if rec is None:
            continue
        if rec["rc"] != 0 or rec["create_rc"] != 0 or rec["fence_rc"] != 0:
            oc.bad("rma-error:%s:%s" % (grp, t["type"]), "%s: return codes create/fence/call = %d/%d/%d on rank %d"
                   % (what, rec["create_rc"], rec["fence_rc"], rec["rc"], r))
            return
        if not rec.get("guards", True):
            oc.bad("guard-zone:%s:%s" % (grp, t["type"]), "%s wrote outside its buffers (rank %d)" % (what, r))
            return
        got = td.dec(bytes.fromhex(rec["win_after"]))
        for e in range(count):
            if r != target or op == "NO_OP":
                exp = vals[1][e]
            elif op == "REPLACE":
                exp = vals[0][e]
            else:
                exp = ref_elem(op, td, [vals[0][e], vals[1][e]])
            if exp is SKIP:
                continue
            if not elem_equal(td, got[e], exp):
                oc.bad("wrong-result:%s:%s" % (op if td.fam in ("pair", "complex") or op in ("REPLACE", "NO_OP") else GROUP[op], t["type"]),
                       "%s: window of rank %d element %d = %s, expected %s (origin data %s, window before %s)"
                       % (what, r, e, fmt(got[e]), fmt(exp), fmt(vals[0][e]), fmt(vals[1][e])))
                return
        if r == origin:
            if rec["data_after"] != data[0].hex():
                oc.bad("input-modified:%s:%s" % (grp, t["type"]), "%s changed the origin buffer" % what)
            if mode in ("getacc", "fop"):
                fetched = td.dec(bytes.fromhex(rec["result"]))
                for e in range(count):
                    if not elem_equal(td, fetched[e], vals[1][e]):
                        oc.bad("wrong-fetch:%s:%s" % (grp, t["type"]), "%s: fetched element %d = %s, expected the previous content %s"
                               % (what, e, fmt(fetched[e]), fmt(vals[1][e])))
                        return


C31.judge_rma = _judge_rma


def is_extreme(td, x):
    if hasattr(x, "dtype") or isinstance(x, float):
        n = np()
        return bool(n.isinf(x) or abs(x) >= 1e38 or (x != 0 and abs(x) < 1e-37))
    for _, sc in td.fields:
        if sc.kind in "iu" and x in (sc.lo(), sc.hi()):
            return True
    return False


def fmt(x):
    if isinstance(x, list):
        return "[" + ", ".join(fmt(y) for y in x) + "]"
    if hasattr(x, "dtype"):
        return repr(float(x)) if x.dtype.itemsize <= 8 else str(x)
    return str(x)


PROP = C31()
