"""C27 Values with units are parsed to the documented magnitudes."""
import fcntl
import math
import os
import re
import subprocess
from fractions import Fraction

from hypothesis import strategies as st

from .. import build, core, xbt1

DIG = "0123456789"


def ensure_fuzz():
    """thorough tier: the libFuzzer/ASan/UBSan target drivers/units_fuzz.cpp, compiled against the tree under test
    (the framework's own `fuzz` rule has fixed include paths, so it cannot follow VF_REPO)."""
    exe = os.path.join(build.DRV, "units_fuzz")
    srcs = [os.path.join(build.VERIF, "drivers", "units_fuzz.cpp"), os.path.join(build.REPO, "src/xbt/xbt_parse_units.cpp"),
            os.path.join(build.REPO, "src/simgrid/Exception.cpp")]
    deps = srcs + [os.path.join(build.REPO, "include/simgrid/Exception.hpp"), os.path.join(build.REPO, "include/xbt/log.h"),
                   os.path.join(build.REPO, "include/xbt/parse_units.hpp")]
    os.makedirs(build.DRV, exist_ok=True)
    with open(os.path.join(build.BUILD, ".units_fuzz.lock"), "w") as lk:
        fcntl.flock(lk, fcntl.LOCK_EX)
        if os.path.exists(exe) and os.path.getmtime(exe) >= max(os.path.getmtime(d) for d in deps):
            return exe
        cmd = ["clang++", "-std=gnu++17", "-g", "-O1", "-fsanitize=fuzzer,address,undefined", "-fno-sanitize-recover=undefined"] + \
              ["-I" + os.path.join(build.REPO, d) for d in ("include", "src", "")] + \
              ["-I" + os.path.join(build.SG, d) for d in ("include", "")] + srcs + ["-o", exe + ".tmp"]
        r = subprocess.run(cmd, stdout=subprocess.PIPE, stderr=subprocess.STDOUT, text=True)
        if r.returncode != 0:
            raise core.Inconclusive("units_fuzz does not compile:\n" + r.stdout[-3000:])
        os.replace(exe + ".tmp", exe)
    return exe


def fuzz_dictionary(path):
    toks = set(ALL_UNITS) | {"e", "E", "e-", "e+", ".", "-", "+", "0", "1", "e308", "e-308", "e309", "1.7976931348623157e308", "0x", "inf",
                             "nan", " ", "kilo", "mega", "flops", "ps", "Bps", "bps"}
    with open(path, "w") as f:
        for t in sorted(toks):
            f.write('"%s"\n' % "".join(c if c.isalnum() or c in ".+-" else "\\x%02x" % ord(c) for c in t))

# number literals sitting on the boundaries of strtod's range / rounding
BOUNDARY_NUMS = [
    "1.7976931348623157e308", "1.7976931348623158e308", "1.79769313486231580793e308", "1.7976931348623159e308",
    "17976931348623157" + "0" * 292, "17976931348623159" + "0" * 292, "1e308", "1e309", "0.1e310", "10e307", "100e307",
    "2.2250738585072014e-308", "2.2250738585072011e-308", "2.2250738585072009e-308", "4.9406564584124654e-324",
    "2.4703282292062327e-324", "2.4703282292062328e-324", "1e-323", "1e-324", "1e-400", "0." + "0" * 330 + "1",
    "9007199254740993", "9007199254740992.5", "9007199254740993.0000000000000000000000000001", "0.1", "0.3", "1e22", "1e23",
    "8.41e21", "1" + "0" * 30 + "e-30", "0e99999", "0.0e-99999", "1e99999", "1e-99999", "000000000000000000001", "1e+0000000000000000002",
    "123456789012345678901234567890", "0.000000000000000000000000000001", "5e-1", "5.", ".5", "00.50", "1E3", "1e+3", "1e-3",
]


def digits(lo, hi):
    """a string of lo..hi decimal digits (leading zeros possible), from ONE integer draw (a text() of 300 characters costs 300 draws)"""
    return st.integers(lo, hi).flatmap(lambda n: st.integers(0, 10 ** n - 1).map(lambda v: str(v).zfill(n)))


def numbers():
    ip = st.one_of(st.sampled_from(["0", "1", "2", "7", "10", "100", "1000", "1024", "0001", "999999999"]),
                   digits(1, 22),
                   st.integers(0, 2 ** 70).map(str),
                   digits(280, 330))
    fp = st.one_of(st.just(""), st.just(""), st.just("."), digits(1, 20).map(lambda d: "." + d),
                   st.tuples(st.integers(0, 340), digits(1, 18)).map(lambda t: "." + "0" * t[0] + t[1]))
    ex = st.one_of(
        st.just(""), st.just(""),
        st.tuples(st.sampled_from("eE"), st.sampled_from(["", "+", "-"]),
                  st.one_of(st.integers(0, 30), st.integers(0, 30),
                            st.sampled_from([0, 1, 15, 16, 22, 23, 290, 300, 306, 307, 308, 309, 310, 320, 323, 324, 325, 330, 400, 4000, 99999]),
                            st.integers(280, 345)),
                  st.sampled_from(["", "", "", "0", "000"])).map(lambda t: t[0] + t[1] + t[3] + str(t[2])))
    sign = st.sampled_from(["", "", "", "-", "+"])
    built = st.tuples(sign, ip, fp, ex).map("".join)
    nofrac_int = st.tuples(sign, digits(1, 18).map(lambda d: "." + d), ex).map("".join)
    return st.one_of(built, built, built, nofrac_int, st.tuples(sign, st.sampled_from(BOUNDARY_NUMS)).map("".join))


def all_units():
    s = set()
    for k in xbt1.KINDS:
        s.update(xbt1.TABLE[k])
        s.update(xbt1.LENIENT[k])
        s.update(xbt1.DOC_K.get(k, {}))
    return sorted(s)


ALL_UNITS = all_units()
UNIT_ALPHABET = "kKMGTPEZYiBbpsfmunhdwlo aetg"


def mutate(draw, u):
    how = draw(st.integers(0, 6))
    if not u:
        return draw(st.text(UNIT_ALPHABET, min_size=1, max_size=3))
    i = draw(st.integers(0, len(u) - 1))
    if how == 0:
        return u[:i] + u[i].swapcase() + u[i + 1:]
    if how == 1:
        return u[:i] + u[i + 1:]
    if how == 2:
        return u[:i] + draw(st.sampled_from(UNIT_ALPHABET)) + u[i:]
    if how == 3:
        return u + draw(st.sampled_from([" ", "s", "1", ".", "\t", "ps", "i", u]))
    if how == 4:
        return " " + u
    if how == 5:
        return u.swapcase()
    return u[:i] + draw(st.sampled_from(UNIT_ALPHABET)) + u[i + 1:]


@st.composite
def units_for(draw, kind):
    c = draw(st.integers(0, 19))
    own = sorted(xbt1.TABLE[kind])
    if c < 10:
        return draw(st.sampled_from(own))
    if c == 10:
        return ""
    if c in (11, 12):
        return draw(st.sampled_from(ALL_UNITS))           # mostly units of another kind
    if c in (13, 14, 15):
        return mutate(draw, draw(st.sampled_from(own)))
    if c == 16:
        extra = sorted(xbt1.LENIENT[kind]) + sorted(xbt1.DOC_K.get(kind, {})) + \
            [p + b for p in xbt1.IEC + xbt1.SI_FULL[:3] for b in ("f", "flops", "B", "s")]
        return draw(st.sampled_from(extra))
    if c == 17:
        return draw(st.text(UNIT_ALPHABET, min_size=1, max_size=5))
    return draw(st.text(st.characters(blacklist_characters="\0", blacklist_categories=("Cs",)), min_size=1, max_size=4))


RAW_ALPHABET = "0123456789.eE+-xXinfaINFN kMGiBbps\t,;"


@st.composite
def scalar_string(draw, kind):
    c = draw(st.integers(0, 19))
    if c < 15:
        return draw(numbers()) + draw(units_for(kind))
    if c == 15:
        return draw(st.text(RAW_ALPHABET, max_size=10))
    if c == 16:
        return draw(st.text(st.characters(blacklist_characters="\0", blacklist_categories=("Cs",)), max_size=8))
    if c == 17:    # C99 specials and white space in front
        return draw(st.sampled_from(["inf", "-inf", "INF", "infinity", "nan", "NaN", "nan(1)", "0x10", "0x1p3", "0x.8", "0x1f", "0X1P-2",
                                     " 1", "\t2", "\n3", "0x", "0xg", "infi"])) + draw(units_for(kind))
    if c == 18:    # malformed numbers
        return draw(st.sampled_from(["", ".", "-", "+", "e5", ".e5", "--1", "+-1", "-+1", "1..2", "1,5", "1_000", "1e", "1e+", "e", "1.2.3",
                                     "- 1", "+ 1", "١٢", "1e5e5", "1ee5", "1e5.5"])) + draw(units_for(kind))
    return draw(units_for(kind)) + draw(numbers())          # unit first


@st.composite
def list_token(draw, kind):
    if draw(st.integers(0, 9)) < 8:     # mostly valid tokens, so that whole lists are accepted and compared element-wise
        return draw(numbers()) + draw(st.sampled_from(sorted(xbt1.TABLE[kind])))
    return draw(scalar_string(kind))


@st.composite
def item(draw):
    k = draw(st.sampled_from(["time", "size", "bandwidth", "speed", "time", "size", "bandwidth", "speed", "bandwidths", "all_speeds"]))
    ent = draw(st.sampled_from(["", "", "link latency"]))
    if k == "bandwidths":
        toks = draw(st.lists(list_token("bandwidth"), min_size=1, max_size=4))
        seps = draw(st.lists(st.sampled_from([";", ","]), min_size=len(toks) - 1, max_size=len(toks) - 1))
        s = toks[0] + "".join(a + b for a, b in zip(seps, toks[1:]))
    elif k == "all_speeds":
        toks = draw(st.lists(list_token("speed"), min_size=1, max_size=4))
        pads = draw(st.lists(st.sampled_from(["", "", " ", "  ", "\t"]), min_size=2 * len(toks), max_size=2 * len(toks)))
        s = ",".join(pads[2 * i] + t + pads[2 * i + 1] for i, t in enumerate(toks))
    else:
        s = draw(scalar_string(k))
    return [k, s, ent]


def cross_items(items):
    """Generating a string costs ~5 ms of Hypothesis time, judging it 0.3 ms: every (number, unit) pair drawn for a scalar parser is
    also recombined with the numbers/units of the other strings of the case and sent to all four scalar parsers (deterministic)."""
    nums, units = [], {k: [] for k in xbt1.KINDS}
    for kind, s, _e in items:
        if kind in xbt1.KINDS:
            m = xbt1.NUM_RE.match(s)
            if m and m.end() > 0:
                if m.group(0) not in nums:
                    nums.append(m.group(0))
                if s[m.end():] not in units[kind]:
                    units[kind].append(s[m.end():])
    have = {(k, s) for k, s, _e in items}
    out = []
    for ki, kind in enumerate(xbt1.KINDS):
        for i, n in enumerate(nums[:14]):
            for j, u in enumerate(units[kind][:5]):
                # the unit with the parser it was drawn for; one time in five also with the next parser (unit of another kind)
                for k2 in (kind, xbt1.KINDS[(ki + 1 + j) % 4]) if (i + j) % 5 == 0 else (kind,):
                    if (k2, n + u) not in have:
                        have.add((k2, n + u))
                        out.append([k2, n + u, ""])
    return out


def hexval(h):
    if h in ("inf", "-inf"):
        return float(h)
    if "nan" in h:
        return float("nan")
    return float.fromhex(h)


class C27(core.Prop):
    id = "C27"
    drivers = ["units_driver"]
    sizes = {"quick": 1200, "thorough": 60000}
    max_workers = 14
    technique = ("property-based testing (Hypothesis): total reference reader of '<number><unit>' strings (documented unit tables x exact "
                 "rational arithmetic) compared with xbt_parse_get_time/size/bandwidth(s)/speed/all_speeds called in-process")
    rule = ("Each case is a batch of 16 generated strings for the six parsers of xbt_parse_units.cpp, plus the recombinations of their "
            "(number, unit) parts with each other and with the other scalar parsers (<=190 more strings, deterministic). Strings are built as number literal "
            "([sign] digits [. digits] [e[sign]digits], incl. 300-digit literals, leading zeros, literals on the DBL_MAX / DBL_MIN / "
            "rounding boundaries, exponents around +-308/324) + unit (every documented unit of the kind; units of the other kinds; "
            "documented units with one character case-flipped/dropped/inserted/appended; cross forms such as Kif, kiloB; random text), "
            "plus malformed numbers, unit-first strings, C99 specials (inf, nan, hex floats, leading blanks) and raw text; list parsers "
            "get 1-4 such tokens joined by ',' / ';' (all_speeds with blank padding). fixed_cases enumerate EVERY unit of EVERY kind "
            "against every parser with four numbers. Oracle: a reference classifier says for ANY string whether the docs require a value "
            "(then |got - exact| <= 2 ulp), a rejection (ParseError), or leave it open ('lenient': C99 strtod extensions, unit-less "
            "non-zero values, subnormal literals, products beyond DBL_MAX: rejected, or the exact value when one is defined). "
            "Anything but a value or a ParseError (other exception, crash) is a violation. "
            "Non-trivial item: accepted value whose unit has a prefix and whose number has a fractional or exponent part; a case is "
            "non-trivial when it holds such an item and a must-reject item. Distinct = distinct canonical JSON.")
    assumptions = ["tolerance 2 ulp of the exact product: strtod is correctly rounded (0.5 ulp), the multiplier of ms/us/ns/ps, bits and "
                   "10^24 is itself a rounded double (0.5 ulp), the product rounds once more (0.5 ulp) -> 1.5 ulp worst case",
                   "strings with NUL bytes are out of the domain (XML attributes cannot hold them)",
                   "reference tables are copied from docs/source/XML_reference.rst (time table, bandwidth prefixes), Z/Y prefixes from "
                   "upstream's xbt_str_test.cpp, speed prefixes from '1Gf = 1,000,000,000 flops' / '20kf = 20,000 flop/s'"]
    ready = True

    def strategy(self, tier):
        return st.fixed_dictionaries({"items": st.lists(item(), min_size=16, max_size=16), "cross": st.just(True)})

    def fixed_cases(self, tier):
        cases = []
        if tier == "thorough":
            cases += [{"fuzz": {"seed": k, "runs": 1500000}} for k in range(1, 15)]
        nums = ["1", "2.5", "1e3", "-0.125e-2"]
        for kind in xbt1.KINDS:
            items = []
            for u in ALL_UNITS + ["", "x", "S", "Bp", "bp", "flop", "Flops", "kibiB", "Kif", "kilof", "kB ", " kB"]:
                for n in nums:
                    items.append([kind, n + u, ""])
            for i in range(0, len(items), 120):
                cases.append({"items": items[i:i + 120]})
        items = [[k, n + u, "x"] for k in xbt1.KINDS for n in BOUNDARY_NUMS for u in ("", xbt1.DEFAULT_UNIT[k], sorted(xbt1.TABLE[k])[3])]
        for i in range(0, len(items), 120):
            cases.append({"items": items[i:i + 120]})
        return cases

    # -----------------------------------------------------------------------------------------
    def judge_scalar(self, oc, kind, s, v, got, where):
        """v: Verdict, got: dict from the driver ('v' hexfloat | 'e','m')."""
        lab = v.kind + ":" + v.why
        oc.labels.append(lab)
        for t in v.tags:
            if t.startswith("near-"):
                oc.labels.append(v.kind + ":" + t)
        rejected = got.get("e") == "ParseError"
        if "e" in got and not rejected:
            oc.bad("unexpected-exception:" + kind, "%s(%r) %s: exception %s: %s" % (kind, s, where, got["e"], got.get("m")))
            return False
        val = None if rejected else hexval(got["v"])
        if v.kind == "accept":
            if rejected:
                if v.why == "doc-K":
                    oc.bad("documented-unit-rejected:K-decimal-prefix",
                           "%s(%r) %s: rejected with %r, but XML_reference.rst documents the unit %r (1 KBps = 1,000 Bps)"
                           % (kind, s, where, got.get("m"), v.unit))
                else:
                    oc.bad("valid-rejected:%s:%s" % (kind, v.unit or "<none>"),
                           "%s(%r) %s: rejected with %r, expected %s" % (kind, s, where, got.get("m"), float(v.value)))
                return False
            if not xbt1.within(val, v.value):
                oc.bad("wrong-value:%s:%s" % (kind, v.unit or "<none>"),
                       "%s(%r) %s: got %r (%s), documented value %r (exact %s), off by %.3g ulp"
                       % (kind, s, where, val, got["v"], float(v.value), v.value if v.value.denominator < 10**6 else "...",
                          (abs(Fraction(val) - v.value) / Fraction(math.ulp(float(v.value)))) if math.isfinite(val) else float("inf")))
                return False
            if "prefix" in v.tags and ("frac" in v.tags or "exp" in v.tags):
                oc.labels.append("accept:prefix+frac/exp")
                return True
            return False
        if v.kind == "reject":
            if not rejected:
                oc.bad("malformed-accepted:%s:%s" % (kind, v.why),
                       "%s(%r) %s: returned %r, but the string is malformed (%s, unit part %r): a ParseError is required"
                       % (kind, s, where, val, v.why, v.unit))
            return False
        # lenient
        if not rejected:
            oc.labels.append("lenient-accepted:" + v.why)
            if v.value is not None and not xbt1.within(val, v.value):
                oc.bad("wrong-value-lenient:%s:%s" % (kind, v.why),
                       "%s(%r) %s: accepted (allowed) but with value %r instead of %r" % (kind, s, where, val, float(v.value)))
        return False

    def check_fuzz(self, fz):
        """thorough tier only: one libFuzzer campaign (deterministic for a given seed) with the oracle inside the target."""
        oc = core.Outcome()
        exe = ensure_fuzz()
        tmp = core.tmpdir()
        fuzz_dictionary(os.path.join(tmp, "units.dict"))
        os.makedirs(os.path.join(tmp, "corpus"))
        with open(os.path.join(tmp, "corpus", "seed1"), "wb") as f:
            f.write(b"\x002.5e-3ms")
        with open(os.path.join(tmp, "corpus", "seed2"), "wb") as f:
            f.write(b"\x021.5e3MiBps")
        r = core.run([exe, "-runs=%d" % fz["runs"], "-seed=%d" % fz["seed"], "-max_len=48", "-dict=" + os.path.join(tmp, "units.dict"),
                      "-artifact_prefix=" + tmp + "/", "-print_final_stats=1", os.path.join(tmp, "corpus")],
                     cpu=3600, wall=6 * 3600, mem_gb=0)
        subprocess.run(["rm", "-rf", tmp])
        if r.wall_exceeded:
            raise core.Inconclusive()
        oc.evals = fz["runs"]
        oc.labels.append("fuzz-campaign")
        m = re.search(r"VF-ORACLE (\w+) ([0-9a-f]*) (\S+) got=(\S+)", r.err)
        if m:
            s = bytes.fromhex(m.group(2)).decode("utf-8", "replace")
            oc.bad("fuzz:" + m.group(3) + ":" + m.group(1), "libFuzzer found %s(%r): %s (returned %s); re-run as {\"items\": [[%r, %r, \"\"]]}"
                   % (m.group(1), s, m.group(3), m.group(4), m.group(1), s))
        elif r.rc != 0:
            oc.bad("fuzz:sanitizer-or-crash", "units_fuzz rc=%s: %s" % (r.rc, r.err[-1500:]))
        oc.nontrivial = True
        oc.info = {"stats": [l for l in r.err.splitlines() if l.startswith("stat::")][:6]}
        return oc

    def check(self, case):
        if "fuzz" in case:
            return self.check_fuzz(case["fuzz"])
        oc = core.Outcome()
        items = list(case["items"])
        if case.get("cross"):
            items += cross_items(items)
        oc.evals = len(items)
        r = core.serve("units_driver", {"items": items}, cpu=20, wall=120)
        if r.wall_exceeded:
            raise core.Inconclusive()
        res = None
        for o in r.json_lines():
            if isinstance(o, dict) and "res" in o:
                res = o["res"]
        if r.rc != 0 or res is None or len(res) != len(items):
            oc.bad("crash", "units_driver ended with rc=%s cpu_exceeded=%s on a batch of %d strings; stderr tail: %s"
                   % (r.rc, r.cpu_exceeded, len(items), r.err[-800:]))
            return oc
        nt = False
        must_reject = False
        for (kind, s, _ent), got in zip(items, res):
            if kind in ("bandwidths", "all_speeds"):
                vs = xbt1.classify_list(kind, s)
                sk = "bandwidth" if kind == "bandwidths" else "speed"
                oc.labels.append("list:%d" % min(len(vs), 4))
                rejected = got.get("e") == "ParseError"
                if "e" in got and not rejected:
                    oc.bad("unexpected-exception:" + kind, "%s(%r): exception %s: %s" % (kind, s, got["e"], got.get("m")))
                    continue
                if rejected:
                    if all(v.kind == "accept" for v in vs):
                        if any(v.why == "doc-K" for v in vs):
                            oc.bad("documented-unit-rejected:K-decimal-prefix", "%s(%r): rejected with %r" % (kind, s, got.get("m")))
                        else:
                            oc.bad("valid-rejected:%s" % kind, "%s(%r): rejected with %r, every token is valid" % (kind, s, got.get("m")))
                    else:
                        oc.labels.append("list-rejected")
                        must_reject = must_reject or any(v.kind == "reject" for v in vs)
                    continue
                lst = got["l"]
                if len(lst) != len(vs):
                    oc.bad("list-length:" + kind, "%s(%r): %d values returned, %d tokens" % (kind, s, len(lst), len(vs)))
                    continue
                for i, (v, h) in enumerate(zip(vs, lst)):
                    toks = (s.split(",") if kind == "all_speeds" else __import__("re").split("[;,]", s))
                    if self.judge_scalar(oc, sk, toks[i], v, {"v": h}, "(token %d of %s %r)" % (i, kind, s)):
                        nt = True
            else:
                v = xbt1.classify(kind, s)
                if v.kind == "reject":
                    must_reject = True
                if self.judge_scalar(oc, kind, s, v, got, ""):
                    nt = True
        oc.nontrivial = nt and must_reject
        return oc


PROP = C27()
