"""C25 Shortest-path zones compute minimal routes."""
import heapq
import os

from hypothesis import strategies as st

from .. import core, known, route

SIG_OVERFLOW = "dijkstra-unreachable-node-relaxed"     # root cause: ULONG_MAX + cost wraps around in the relaxation
CPU = 3        # seconds of CPU for a request (a case needs 5-100 ms of CPU here, page faults after fork included)
CPU_CONFIRM = 8  # budget of the re-execution that confirms a hang
SIG_ISOLATED = "dijkstra-netpoint-without-route"    # root cause: node_map_search() == nullptr is dereferenced
SIG_REVERSED = "dijkstra-hop-links-reversed"           # root cause: insert_link_latency() inserts each hop reversed


class C25(core.Prop):
    id = "C25"
    drivers = ["route_driver"]
    ready = True
    max_workers = 4
    sizes = {"quick": 650, "thorough": 40000}
    technique = ("property-based testing (Hypothesis): validity predicate (chain of declared one-hop routes + minimal link count "
                 "from a reference Dijkstra) and differential Floyd/Dijkstra/DijkstraCache on the same generated graph")
    rule = ("Hypothesis generates directed graphs of 1..30 netpoints (hosts and routers, random creation order) with declared one-hop "
            "routes of 1-4 links (symmetrical or one-way, split-duplex links with directions, links possibly shared between routes, "
            "optional declared loopback routes of 1-2 links): strongly connected by construction (spanning cycle / symmetric tree / "
            "mixed) or only weakly connected (randomly oriented tree) plus chords.  The same graph is built four times in one "
            "platform (Full, Floyd, Dijkstra, DijkstraCache zones) by route_driver; every generated (src,dst) that has a path is "
            "queried in the generated order (repeats exercise the cache).  Oracle: the returned link list must be the in-order "
            "concatenation of declared one-hop routes src->...->dst (search over (position,node)), its length must equal the "
            "reference minimum over link-count weights, the three algorithms must agree on the count, Full must return exactly the "
            "declared list, a host's route to itself is its declared loopback route (or the global loopback).  Non-trivial: some "
            "queried pair's minimal chain has >= 2 hops and a strictly longer simple alternative exists.  Distinct = distinct canonical JSON.")
    assumptions = ["cost of a declared route = its number of links (what FloydZone/DijkstraZone implement; the statement says 'number of links')",
                   "pairs without a path are not queried (outside the quantified domain)",
                   "declared loopback routes have <= 2 links so that the documented loopback and the minimal chain coincide",
                   "a request that exhausts 3 s of CPU is re-executed with 8 s (a case needs 5-100 ms): only if that is exhausted too is it reported as nontermination, otherwise the case is inconclusive"]

    def strategy(self, tier):
        return route.sp_graphs(max_n=30)

    def fixed_cases(self, tier):
        return []

    # -----------------------------------------------------------------------------------------
    def check(self, g):
        oc = core.Outcome()
        if not route.graph_valid(g):
            oc.invalid = True
            return oc
        n = g["n"]
        dedges = route.directed_edges(g)
        dist = route.all_dists(n, dedges)
        selfs = route.self_routes(g)
        kn = known.Known(self.id)
        exclude_overflow = kn.is_known(SIG_OVERFLOW) and not g.get("noexclude") and not os.environ.get("VF_C25_NOEXCLUDE")
        queries = {}
        excluded = 0
        exclude_isolated = kn.is_known(SIG_ISOLATED) and not g.get("noexclude") and not os.environ.get("VF_C25_NOEXCLUDE")
        for k in route.SP_KINDS:
            q = []
            for s, d in (g["pairs"] if k in g.get("kinds", route.SP_KINDS) else []):
                if s == d:
                    if k != "floyd" and exclude_isolated and not any(s in e for e in dedges):
                        excluded += 1      # a netpoint that appears in no route crashes Dijkstra zones (known)
                        continue
                    if g["types"][s] == "h":
                        q.append((s, d))
                    continue
                if dist[s][d] is None:
                    continue
                if k != "floyd" and exclude_overflow and not route.reach_all(dist[s]):
                    excluded += 1
                    continue
                q.append((s, d))
            queries[k] = q
        queries["full"] = sorted(dedges.keys()) + [(v, v) for v in range(n) if g["types"][v] == "h"]
        if excluded:
            oc.labels.append("excluded-known:dijkstra-from-source-with-unreachable-nodes")

        results = {}     # (kind, idx in queries[kind]) -> result
        pending = {k: list(enumerate(queries[k])) for k in queries}
        oc.evals = 0
        for attempt in range(4):
            qs = {k: [p for _, p in pending[k]] for k in pending}
            if not any(qs.values()):
                break
            kinds = ["full"] + route.SP_KINDS
            plat, meta = route.sp_platform(g, kinds=kinds, queries=qs)
            r, _, res, done, build_err = route.run_platform(plat, cpu=CPU, wall=180)
            oc.evals += 1
            if r.wall_exceeded:
                raise core.Inconclusive()
            if build_err is not None:
                oc.bad("platform-rejected", "route_driver could not build the platform: %s" % build_err)
                return oc
            flat = [(k, i) for k in kinds for (i, _) in pending[k]]
            for j, x in enumerate(res):
                results[flat[j]] = x
            if done:
                break
            # the child died while answering query number len(res)
            if len(res) >= len(flat):
                oc.bad("driver-crash", "route_driver died after the last query rc=%s err=%s" % (r.rc, r.err[-800:]))
                break
            k, i = flat[len(res)]
            s, d = queries[k][i]
            what = "never returned" if r.cpu_exceeded else "died with rc=%s: %s" % (r.rc, r.err[-600:])
            sig = ("nontermination:" if r.cpu_exceeded else "crash:") + k
            if r.cpu_exceeded:
                # confirm: the same platform and the same queries up to the fatal one, with a larger budget
                upto = {kk: [] for kk in pending}
                for (kk, ii) in flat[:len(res) + 1]:
                    upto[kk].append(queries[kk][ii])
                plat1, _ = route.sp_platform(g, kinds=kinds, queries=upto)
                r1, _, res1, done1, _ = route.run_platform(plat1, cpu=CPU_CONFIRM, wall=240)
                oc.evals += 1
                if r1.wall_exceeded or done1:
                    raise core.Inconclusive()      # it was the load of the machine, not the code
                what = "never returned (CPU budgets of %d s, then %d s exhausted)" % (CPU, CPU_CONFIRM)
            if k != "floyd" and not route.reach_all(dist[s]):
                sig = SIG_OVERFLOW
            if k != "floyd" and not any(s in e or d in e for e in dedges):
                sig = SIG_ISOLATED
            oc.bad(sig, "%s zone: route %d -> %d %s" % (k, s, d, what))
            # go on with the queries after the fatal one
            seen = False
            newp = {kk: [] for kk in pending}
            for (kk, ii) in flat:
                if seen:
                    newp[kk].append((ii, queries[kk][ii]))
                if (kk, ii) == (k, i):
                    seen = True
            pending = newp
            if attempt == 3:
                break

        # ---- oracle
        nontrivial = False
        multi_hop = False
        counts = {}
        for k in route.SP_KINDS + ["full"]:
            for i, (s, d) in enumerate(queries[k]):
                x = results.get((k, i))
                if x is None:
                    continue
                where = "%s zone, route %d -> %d" % (k, s, d)
                if "err" in x:
                    sig = "exception:" + k
                    if k in ("dijkstra", "dijkstracache") and not route.reach_all(dist[s]):
                        sig = SIG_OVERFLOW
                    oc.bad(sig, "%s: exception '%s' although a path of %s links exists" % (where, x["err"], dist[s][d]))
                    continue
                got = [l if l == route.LOOPBACK else l[1:] for l in x["links"]]
                if k == "full":
                    exp = selfs.get(s, [route.LOOPBACK]) if s == d else dedges[(s, d)]
                    if got != exp:
                        oc.bad("full-not-declared-route", "%s: got %s, declared %s" % (where, got, exp))
                    continue
                if s == d:
                    exp = selfs.get(s, [route.LOOPBACK])
                    if got != exp:
                        cyc = route.decode_chain(got, s, d, dedges)
                        if k != "floyd" and got == list(reversed(exp)):
                            oc.bad(SIG_REVERSED, "%s: got %s, the declared loopback route is %s" % (where, got, exp))
                        elif not (cyc and len(got) == len(exp)):
                            oc.bad("self-route:" + k, "%s: got %s, expected the loopback %s" % (where, got, exp))
                    continue
                hops = route.decode_chain(got, s, d, dedges)
                if hops is None:
                    rev = route.decode_chain(got, s, d, dedges, reverse_hops=True) if k != "floyd" else None
                    if rev is not None:
                        oc.bad(SIG_REVERSED, "%s: got %s: the links of every hop %s are in reverse order (declared: %s)"
                               % (where, got, rev, [dedges[h] for h in rev]))
                        hops = rev
                    else:
                        sig = "not-a-chain:" + k
                        if k != "floyd" and not route.reach_all(dist[s]):
                            sig = SIG_OVERFLOW
                        oc.bad(sig, "%s: got %s which is not a concatenation of declared one-hop routes from %d to %d" % (where, got, s, d))
                        continue
                counts.setdefault((s, d), {})[k] = len(got)
                if len(got) != dist[s][d]:
                    sig = "not-minimal:" + k
                    if k != "floyd" and not route.reach_all(dist[s]):
                        sig = SIG_OVERFLOW
                    oc.bad(sig, "%s: got %d links %s (hops %s), the minimum is %d" % (where, len(got), got, hops, dist[s][d]))
                if len(hops) >= 2:
                    multi_hop = True
                    if not nontrivial and self.longer_alternative(n, dedges, s, d, dist[s][d]):
                        nontrivial = True
        for (s, d), c in counts.items():
            if len(set(c.values())) > 1 and not oc.violations:
                oc.bad("count-mismatch", "route %d -> %d: link counts differ between algorithms: %s" % (s, d, c))

        # ---- labels
        oc.labels.append("class:" + g.get("cls", "?"))
        oc.labels.append("n:" + ("2-4" if n <= 4 else "5-8" if n <= 8 else "9-14" if n <= 14 else "15-30"))
        strongly = all(route.reach_all(row) for row in dist)
        oc.labels.append("strongly-connected" if strongly else "weakly-connected")
        if multi_hop:
            oc.labels.append("multi-hop-route")
        if "r" in g["types"]:
            oc.labels.append("has-router")
        if any(e[3] for e in g["edges"]):
            oc.labels.append("has-symmetrical")
        if any(g["links"][li][1] == 2 for e in g["edges"] for li, _ in e[2]):
            oc.labels.append("has-splitduplex")
        usedl = [li for e in g["edges"] for li, _ in e[2]]
        if len(usedl) != len(set(usedl)):
            oc.labels.append("links-shared-between-routes")
        if g.get("selfs"):
            oc.labels.append("declared-loopback")
        srcs = [s for s, d in queries["dijkstracache"]]
        if len(srcs) != len(set(srcs)):
            oc.labels.append("cache-hit")
        if any(len(e[2]) >= 3 for e in g["edges"]):
            oc.labels.append("long-direct-route")
        oc.nontrivial = nontrivial
        oc.info = {"n": n, "edges": len(g["edges"]), "queries": {k: len(v) for k, v in queries.items()}}
        return oc

    @staticmethod
    def longer_alternative(n, dedges, s, d, best):
        """Is there a simple path s -> d with strictly more links than `best`?  (some in-edge (u,d) with a path s -> u avoiding d)"""
        out = {}
        for (a, b), ls in dedges.items():
            if a != d and b != d:
                out.setdefault(a, []).append((b, len(ls)))
        # longest is NP-hard; a strictly longer one is enough: shortest path avoiding d to each u, plus the edge (u,d)
        dist = {s: 0}
        pq = [(0, s)]
        while pq:
            c, v = heapq.heappop(pq)
            if c > dist[v]:
                continue
            for (u, w) in out.get(v, []):
                if u not in dist or c + w < dist[u]:
                    dist[u] = c + w
                    heapq.heappush(pq, (c + w, u))
        for (a, b), ls in dedges.items():
            if b == d and a in dist and dist[a] + len(ls) > best:
                return True
        return False


PROP = C25()
