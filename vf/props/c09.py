"""C09 Message queues are exactly-once and FIFO."""
from .. import commgen, commspec, s4u
from .c08 import CommProp, has_op


class C09(CommProp):
    id = "C09"
    sizes = {"quick": 1500, "thorough": 60000}
    ready = True
    nontrivial_labels = ("pending-sends>=2", "pending-recvs>=2")
    technique = ("property-based testing (Hypothesis): generated message-queue programs run on the real kernel; their kernel-ordered log "
                 "is replayed through a sequential FIFO specification (model-based oracle on order and identity)")
    rule = ("Programs of 2-6 actors over 1-3 message queues built from a traffic plan plus unplanned operations: put, put_async, get, "
            "get_async, wait / wait with timeout / test / cancel / wait_any / test_any on handles, repeated waits/tests on finished handles, "
            "sleeps on a 1/4 s grid, kernel-linearised dumps of the queues; labelled minority classes: put/get WITH a timeout "
            "(MessageQueue::put(p, t), get(t)), put_init()->wait() / get_init()->wait() without start (returns at once: only exactly-once "
            "is asserted), detached puts. Oracle: the sequential specification driven by the log in request order (one FIFO of unmatched puts "
            "or gets; a new operation takes the OLDEST queued opposite one; a timed-out wait_for cancels nothing, a timed-out put/get cancels "
            "its message through an unlogged simcall whose order against same-date requests is resolved by angelic choice): every successful "
            "get returns the payload (sender, sequence number) of exactly the put the specification matched, intact, never twice, and a "
            "consumed receive buffer is never filled again; a put completes only if matched; a matched operation returns; queue dumps equal "
            "the specification's queue; sleeps do not return early (a stale wake-up of a timed-out operation must not hit a later blocking "
            "call). Non-trivial: >=2 puts (gets) pending when a get (put) arrives.")
    assumptions = ["sequential runs (contexts/nthreads:1): the order of request records is the order in which the kernel handles them",
                   "message exchanges take no simulated time; dates are not asserted except that a sleep lasts at least its duration"]

    def strategy(self, tier):
        return commgen.mq_programs(max_msgs=12 if tier == "quick" else 20)

    def fixed_cases(self, tier):
        progs = [
            # 4 puts pending, two getters alternate; the sender looks at its handles again afterwards
            [[["mq_put_async", 0, 1], ["mq_put_async", 0, 2], ["mq_put_detach", 0], ["mq_put_async", 0, 3], ["sleep", 1], ["test", 1], ["wait", 1, {}],
              ["wait", 2, {}], ["wait", 3, {}], ["wait", 1, {}], ["mq_dump", 0]],
             [["sleep", 0.5], ["mq_get", 0, {}], ["mq_get_async", 0, 101], ["wait", 101, {}], ["sleep", 1], ["test", 101], ["wait", 101, {}]],
             [["sleep", 0.5], ["mq_get", 0, {}], ["mq_get", 0, {}], ["sleep", 1], ["mq_dump", 0]]],
            # 3 gets pending, puts arrive; a cancelled get and a timed-out wait consume nothing
            [[["mq_get_async", 0, 1], ["mq_get_async", 0, 2], ["cancel", 1], ["mq_get_async", 0, 3], ["wait", 3, {"timeout": 0.25}], ["wait", 2, {}], ["wait", 3, {}]],
             [["mq_get", 0, {}], ["sleep", 2], ["mq_dump", 0]],
             [["sleep", 1], ["mq_put", 0, {}], ["mq_put", 0, {}], ["mq_put", 0, {}], ["mq_put_async", 0, 201], ["wait", 201, {"timeout": 0.5}], ["cancel", 201]]],
            # timeouts of the blocking calls: the timed-out get / put are gone, the next ones match
            [[["mq_get", 0, {"timeout": 0.5}], ["sleep", 1], ["mq_get", 0, {}], ["sleep", 4], ["sleep_until", 1000.0]],
             [["sleep", 2], ["mq_put", 1, {"timeout": 0.25}], ["mq_put", 0, {}], ["sleep", 3], ["mq_dump", 0], ["mq_dump", 1], ["sleep_until", 1016.0]],
             [["sleep", 3], ["mq_get", 1, {"timeout": 1.0}], ["sleep_until", 1032.0]]],
            # put_init()->wait() / get_init()->wait() without start
            [[["mq_put_wait", 0, {"h": 1}], ["mq_put_wait", 0, {"h": 2}], ["sleep", 2], ["test", 1], ["cancel", 1], ["cancel", 2]],
             [["sleep", 1], ["mq_get", 0, {}], ["mq_get_wait", 0, 101, {}], ["mq_get_wait", 0, 102, {}], ["sleep", 1], ["mq_peek", 101], ["mq_peek", 102], ["mq_dump", 0],
              ["cancel", 101], ["cancel", 102]]],
        ]
        return [{"platform": s4u.sync_platform(1, cores=8), "objects": {"mqueue": 2}, "comm_dump": True, "quiet": ["act", "actor", "adv"],
                 "actors": [{"name": "a%d" % i, "host": "h0", "ops": ops} for i, ops in enumerate(bodies)]} for bodies in progs]

    def crash_sig(self, case, log):
        # a get whose timeout expired stays queued with a pointer to a dead stack variable (MessageQueue::get(timeout) does not
        # cancel it): the crash is attributed to that defect when, in the specification, a put met such a get before the crash
        labels = commspec.all_labels(case, log.lines)
        if "mq-completion-after-timed-out-wait" in labels:
            return "stale-simcall:completion-after-timed-out-wait"
        if "put-meets-timed-out-get" in labels:
            return "crash:mq-get-timeout-leaves-stale-receive"
        if "mq-refinish-after-blocking-get" in labels:
            return "double-delivery:finish-rerun-after-blocking-get"
        return "run-crashed"


PROP = C09()
