"""C22 Availability profiles are applied exactly."""
from .. import core, faultgen, profgen


class C22(core.Prop):
    id = "C22"
    drivers = [faultgen.DRIVER]
    sizes = {"quick": 300, "thorough": 8000}
    max_workers = 6
    ready = True
    technique = ("property-based testing (Hypothesis): generated profiles on a host and a link observed by isolated executions, "
                 "communications, samples and getters; reference model = the documented piecewise-constant function and its integral")
    rule = ("A scenario attaches 1-3 profiles (1-20 points at dates that are multiples of 1/8 s, duplicate dates and a point at date 0 allowed; "
            "non periodic, or periodic with a period = last date + 0 / 0.125 / 0.5 / 1 / 2 / 4 s) to host h0 (speed ratio, state) and link l0 "
            "(bandwidth, latency, state), under cpu/optim Lazy / Full / TI (TI: single-core hosts, repeating speed profiles of >= 2 points) and "
            "network/optim Lazy / Full (CM02, no cross-traffic, no TCP window).  Observers: w0 on h0 (isolated executions, sleeps, "
            "Host::get_available_speed), r0 on h1 (remote executions on h0's second core), s1 -> g2 (isolated communications over l0, "
            "Link::get_bandwidth / get_latency / is_on), samples of speed / bandwidth / latency / state at every date the clock stops.  "
            "Oracle = the documented piecewise-constant function (value of the latest point <= t, k-th repetition of (d, v) at k*period + d, "
            "nominal value before the first point; speed values are ratios, the others absolute): (1) the speed_change / bandwidth_change / "
            "onoff signals fire exactly at the dates and with the values of the profile, in order, up to the last date the clock reached; (2) "
            "every sample and every getter equals the function; (3) an execution ends when the integral of speed reaches its flops, a "
            "communication after latency(start) + the date where the integral of the bandwidth reaches its size; a latency event that does not "
            "change the value, or that falls inside the transfer of an isolated flow, changes nothing; (4) a host / link going off kills "
            "the actors of the host at that date (on_exit failed=true), fails remote executions (HostFailure) and communications (NetworkFailure) "
            "at that date; activities started while it is off fail at once; an auto-restart actor reappears at the date the host comes back.  "
            "Two cases in five are RESTART scenarios: h0 (speed profile) or l0 (bandwidth / latency profile) goes off and on again once or twice, by a state "
            "profile or by turn_off / turn_on called from another host, with 1-2 value events (increases and decreases) inside every off interval and "
            "probes (auto-restarted local actor, remote executions, communications, getters) between the restart and the next value event: the value at t "
            "is the last point <= t whatever the state in between.  "
            "NON-TRIVIAL: a probe after a restart that follows a value event, a profile event falls strictly inside an execution or a transfer, a state event kills / fails something, or the period "
            "wraps at least twice.")
    assumptions = ["dates compared with a relative tolerance of 1e-9 (precision/timing); values compared exactly",
                   "at date 0 the first slice of the actors runs before the events of date 0 are applied: observations, the latency of a communication "
                   "created at date 0 and its rate bound may use either value",
                   "the end date of a communication whose latency is really changed while it pays its latency is not specified: not asserted (but "
                   "it must end)",
                   "a completion and a switch-off at the same date: either outcome, at that date",
                   "TI: Host::get_load() / get_available_speed() on a fixed trace segfault (known under C19): host_info is replaced by speed_info "
                   "and single-point TI profiles are not generated; every TI signature starts with cpu-TI:<class of profile>"]

    def strategy(self, tier):
        return profgen.all_scenarios(tier)

    def check(self, case):
        oc = core.Outcome()
        log = faultgen.run(case, cpu=5)       # a run takes a few ms of CPU: 5 s is 1000x the median (a frozen flow under a periodic profile never ends)
        if log.wall_exceeded:
            raise core.Inconclusive()
        labels = set()
        if not log.done:
            sig = faultgen.crash_sig(log)
            l0 = case["platform"]["links"][0]
            if log.cpu_exceeded and l0.get("lat_profile", {}).get("period", -1) > 0:
                # a flow frozen by a latency event (known finding) never ends while the periodic profile keeps the simulation going for ever
                sig = "latency-event-disturbs-comm:run-does-not-terminate"
            oc.bad(sig, "the run did not finish: " + log.crash_text())
            return oc
        profgen.check_c22(case, log, oc, labels)
        seen, uniq = set(), []
        for v in oc.violations:        # one violation per root-cause signature
            if v.sig not in seen:
                seen.add(v.sig)
                uniq.append(v)
        oc.violations = uniq
        oc.labels = sorted(labels)
        return oc


PROP = C22()
