"""C22 Availability profiles are applied exactly."""
from .. import core, faultgen, profgen


class C22(core.Prop):
    id = "C22"
    drivers = [faultgen.DRIVER]
    sizes = {"quick": 240, "thorough": 8000}
    max_workers = 6
    technique = ("property-based testing (Hypothesis): generated profiles on a host and a link observed by isolated executions, "
                 "communications, samples and getters; reference model = the documented piecewise-constant function and its integral")
    rule = ""
    assumptions = []

    def strategy(self, tier):
        return profgen.scenarios(tier)

    def check(self, case):
        oc = core.Outcome()
        log = faultgen.run(case)
        if log.wall_exceeded:
            raise core.Inconclusive()
        labels = set()
        if not log.done:
            oc.bad(faultgen.crash_sig(log), "the run did not finish: " + log.crash_text())
            return oc
        profgen.check_c22(case, log, oc, labels)
        seen, uniq = set(), []
        for v in oc.violations:        # one violation per root-cause signature
            if v.sig not in seen:
                seen.add(v.sig)
                uniq.append(v)
        oc.violations = uniq
        oc.labels = sorted(labels)
        return oc


PROP = C22()
