"""C12 Timed waits are exact."""
from .. import core, s4u, timing


class C12(core.Prop):
    id = "C12"
    drivers = [timing.DRIVER]
    sizes = {"quick": 1500, "thorough": 60000}
    max_workers = 6
    ready = True
    technique = ("property-based testing (Hypothesis): activities whose completion date has a closed form, timed waits whose deadline is placed "
                 "just before / exactly at / just after that date; every outcome and every date compared exactly with the statement")
    rule = ("1-3 activities (exec, exec started by its first wait, disk I/O, mailbox communication between two hosts started eagerly or by the "
            "first wait, message-queue message) on a sharing-free platform with dyadic parameters: the natural completion date c is "
            "t_start + W/S, t_start + B/bw_disk, t_match + latency + B/bw, t_match.  Waiters (the creator, the peer, up to 3 other actors; "
            "several per activity) call wait_for(t) / wait_until(d) / wait_for_or_cancel(t) / ActivitySet::wait_any_for(t) (1-3 activities) with the "
            "deadline at c + {-1, -2^-10, -2^-20, 0, 2^-20, 2^-10, 1}, possibly several times, then an untimed wait.  Oracle (exact equality, all "
            "dates are multiples of 2^-20): deadline < c -> TimeoutException at exactly the deadline, the activity keeps running with the "
            "expected remaining amount (or is cancelled for wait_for_or_cancel: its other waiters fail at that date, it never completes); "
            "deadline >= c -> normal return at exactly c (tie = completed); wait_any_for: returns at the first completion an activity "
            "completed by then if that date is before the deadline, raises at the deadline if every completion is after it, the tie is "
            "open; every activity completes at its closed-form date whatever the waits did.  Non-trivial: |deadline - c| <= 2^-10.")
    assumptions = ["closed forms hold on the sharing-free platform (FATPIPE links, 16 cores, CM02 without cross-traffic / TCP gamma); they are themselves "
                   "asserted (completion-date-differs-from-closed-form)",
                   "a deadline equal to the date at which ANOTHER waiter's wait_for_or_cancel cancels the activity: both outcomes accepted",
                   "1 program in 6 runs with cpu/optim:Full + network/optim:Full (the other update algorithm of the models): same exact dates",
                   "wait_any_for on a set containing a cancelled activity, and waits that outlive the creator of the activity, are not asserted",
                   ]

    def strategy(self, tier):
        return timing.c12_programs()

    def check(self, case):
        oc = core.Outcome()
        log = timing.run(case)
        if log.wall_exceeded:
            raise core.Inconclusive()
        labels = set()
        if not log.done:
            oc.bad(timing.crash_sig(log), "the interpreter did not finish: " + log.crash_text())
            return oc
        try:
            near = timing.check_c12(case, log, oc, labels)
        except timing.Invalid as e:
            oc.invalid = True
            oc.info = {"invalid": str(e)}
            return oc
        if log.of("deadlock"):
            labels.add("deadlock")
        oc.labels = sorted(labels)
        oc.nontrivial = bool(near)
        return oc


PROP = C12()
