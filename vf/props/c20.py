"""C20 Isolated activities follow the documented formulas."""
import math

from hypothesis import strategies as st

from .. import core, model, platgen
from ..platgen import Plat

SMPI_BOUNDS = [257, 732, 1426, 3484, 5776, 9376, 15424, 65472]


def sizes():
    """bytes: 0, 1, the SMPI interval boundaries and their neighbours, powers of two, log-uniform up to 1e12"""
    near = st.sampled_from(SMPI_BOUNDS).flatmap(lambda b: st.sampled_from([b - 1, b, b + 1]))
    logu = st.floats(0, 12).map(lambda e: int(10 ** e))
    return st.one_of(st.sampled_from([0, 1, 1000, 1000000]), near, st.integers(0, 40).map(lambda e: 1 << e), logu, logu)


def flops():
    return st.one_of(st.sampled_from([0.0, 1.0, 1e6, 1e9]), platgen.pow2(-10, 50), platgen.loguniform(1e-3, 1e15))


def starts():
    """date at which the activity starts (the actor sleeps until then): 0, exact small values, arbitrary"""
    return st.one_of(st.just(0.0), st.just(0.0), st.integers(1, 64).map(lambda k: k / 8), st.sampled_from([0.1, 1e-3, 1234.5678, 1e6 + 0.3]),
                     st.floats(0, 1e4, allow_nan=False))


@st.composite
def cases(draw):
    kind = draw(st.sampled_from(["comm", "comm", "comm", "comm", "exec", "sleep", "io", "ptask"]))
    dyadic = draw(st.integers(0, 9)) == 0
    case = {"kind": kind, "t0": draw(starts())}
    if draw(st.integers(0, 7)) == 0 and kind != "ptask":
        case["optim"] = draw(st.sampled_from([["cpu/optim:Full"], ["network/optim:Full"], ["cpu/optim:Full", "network/optim:Full"],
                                              ["cpu/maxmin-selective-update:yes", "network/maxmin-selective-update:yes"]]))
    if kind == "comm":
        plat = draw(platgen.platforms(n_hosts=(2, 3), n_disks=(0, 0), max_pstates=1, cores=(1, 2), dyadic=dyadic))
        names = [h["name"] for h in plat["hosts"]]
        src = draw(st.sampled_from(names))
        dst = draw(st.sampled_from([n for n in names if n != src] * 6 + [src]))
        case.update(platform=plat, src=src, dst=dst, size=draw(sizes()), model=draw(st.sampled_from(["raw", "CM02", "LV08", "LV08", "SMPI"])),
                    t1=draw(starts()))
        ct = draw(st.sampled_from([None, None, True, False]))
        if ct is not None:
            case["crosstraffic"] = ct
        g = draw(st.sampled_from(["default", "default", "zero", "small", "tuned"]))
        if g == "zero":
            case["gamma"] = 0.0
        elif g == "small":
            case["gamma"] = draw(platgen.loguniform(1e2, 1e8))
        elif g == "tuned" and src != dst:
            # window close to the physical bandwidth of the route: both sides of the min() get exercised
            p = Plat(plat)
            lat = p.latency(src, dst)
            bw = min(p.links[l]["bw"] for l in p.route(src, dst))
            if lat > 0:
                case["gamma"] = float("%.6g" % (2 * lat * bw * draw(st.sampled_from([0.5, 0.9, 0.99, 1.01, 1.06, 1.2, 2.0]))))
    elif kind == "exec":
        plat = draw(platgen.platforms(n_hosts=(1, 2), n_disks=(0, 0), dyadic=dyadic, route_len=(1, 2)))
        names = [h["name"] for h in plat["hosts"]]
        case.update(platform=plat, actor_host=draw(st.sampled_from(names)), host=draw(st.sampled_from(names)), flops=draw(flops()))
        ncores = Plat(plat).cores(case["host"])
        nps = Plat(plat).n_pstates(case["host"])
        if nps > 1:
            case["pstate"] = draw(st.integers(0, nps - 1))
        if draw(st.integers(0, 3)) == 0:
            case["threads"] = draw(st.integers(2, ncores)) if ncores >= 2 else 1
        if draw(st.integers(0, 9)) == 0 and case.get("threads", 1) == 1:
            # multi-thread executions are not implemented by the L07 host model (HostL07Model::execute_thread returns nullptr): out of the domain
            case["l07"] = True
    elif kind == "sleep":
        plat = draw(platgen.platforms(n_hosts=(1, 1), n_disks=(0, 0), dyadic=dyadic))
        case.update(platform=plat, duration=draw(st.one_of(st.sampled_from([0.0, 1e-12, 1e-9, 1.5e-9, 1.0, 0.1]), platgen.pow2(-20, 20),
                                                           platgen.loguniform(1e-9, 1e9))))
        if draw(st.integers(0, 9)) == 0:
            case["l07"] = True
    elif kind == "io":
        plat = draw(platgen.platforms(n_hosts=(1, 2), n_disks=(1, 2), dyadic=dyadic, route_len=(1, 2)))
        names = [h["name"] for h in plat["hosts"]]
        disks = sorted(Plat(plat).disks)
        case.update(platform=plat, actor_host=draw(st.sampled_from(names)), disk=draw(st.sampled_from(disks)), size=draw(sizes()),
                    op=draw(st.sampled_from(["read", "write"])))
    else:
        plat = draw(platgen.platforms(n_hosts=(1, 5), n_disks=(0, 0), dyadic=dyadic, route_len=(1, 2)))
        names = [h["name"] for h in plat["hosts"]]
        k = draw(st.integers(1, len(names)))
        hosts = draw(st.permutations(names))[:k]
        fl = [draw(st.one_of(st.just(0.0), flops())) for _ in hosts]
        case.update(platform=plat, actor_host=draw(st.sampled_from(names)), hosts=list(hosts), flops=fl)
    return case


class C20(core.Prop):
    id = "C20"
    drivers = ["s4u_model"]
    sizes = {"quick": 1200, "thorough": 40000}
    max_workers = 6
    technique = ("property-based testing (Hypothesis): one activity alone on a generated platform, its duration compared with the documented "
                 "closed form computed independently from the platform description (reference model oracle)")
    rule = ("One activity alone on a generated flat platform (vf/platgen.py: speeds 1e3..1e12 with pstates, links 1e3..1e11 B/s with latencies "
            "0..10 s, SHARED/FATPIPE/SPLITDUPLEX, routes of 1-8 links, symmetric or with an independent reverse route), started at date 0 or later: "
            "exec (W in 0..1e15, any pstate, remote host, k<=cores threads), sleep, I/O read/write (0..1e12 B), pure-computation parallel task on 1-5 "
            "hosts under host/model:ptask_L07, communication (0..1e12 B incl. every SMPI interval boundary +-1; loopback) x network/model in "
            "{raw, CM02, LV08, SMPI} x crosstraffic {default, on, off} x TCP-gamma {default, 0, small, tuned to the route's bandwidth}; 1 in 8 cases also "
            "switches cpu|network/optim to Full. Oracle: duration (finish - start of the activity) = the closed form of Models.rst / "
            "Configuring_SimGrid.rst evaluated in Python from the platform description, within 1e-9 relative + precision/timing. "
            "Non-trivial: a communication that is window-limited, or whose rate is set by cross-traffic (1.05 on a link shared with the reverse route, "
            "or the 0.05 flow saturating a reverse-only link), or of an SMPI boundary size; a multi-thread / remote / pstate>0 exec; a ptask whose "
            "slowest part is not the first one; an I/O whose read and write rates differ.")
    assumptions = ["tolerance: |observed - documented| <= 1e-9*documented + precision/timing (1e-9 s) + 8 ulp of the dates involved",
                   "where the documentation is ambiguous both readings are accepted and the class is counted: (a) binding TCP window together with a "
                   "bandwidth factor != 1 (statement: min(bw*factor, gamma/2lat); Models.rst defines the window for CM02 only; implementation: "
                   "factor*min(bw, gamma/2lat)); (b) a size that IS a boundary of an interval-based factor (Configuring_SimGrid.rst describes the "
                   "intervals once half-open and once closed)",
                   "a FATPIPE link is not shared, so the 0.05 cross-traffic flow does not slow the data flow down on it",
                   "threads: Exec::set_thread_count(k) with k <= cores: every thread computes W at speed S"]

    def strategy(self, tier):
        return cases()

    # -------------------------------------------------------------------------------------------- scenario
    def scenario(self, case):
        kind = case["kind"]
        cfg = list(case.get("optim", []))
        plat = case["platform"]
        t0 = case["t0"]
        pre = [["sleep", t0]] if t0 > 0 else []
        sc = {"platform": plat, "quiet": ["actor", "onoff"]}
        if case.get("l07") or kind == "ptask":
            cfg.append("host/model:ptask_L07")
        if kind == "comm":
            cfg.append("network/model:" + case["model"])
            if "crosstraffic" in case:
                cfg.append("network/crosstraffic:%d" % (1 if case["crosstraffic"] else 0))
            if "gamma" in case:
                cfg.append("network/TCP-gamma:%r" % case["gamma"])
            t1 = case["t1"]
            sc["objects"] = {"mailbox": 1}
            sc["actors"] = [{"name": "snd", "host": case["src"], "ops": pre + [["put", 0, case["size"]]]},
                            {"name": "rcv", "host": case["dst"], "ops": ([["sleep", t1]] if t1 > 0 else []) + [["get", 0]]}]
        elif kind == "exec":
            opts = {"host": case["host"]}
            if case.get("threads", 1) > 1:
                opts["threads"] = case["threads"]
            if "pstate" in case:
                pre = [["set_pstate", case["host"], case["pstate"]]] + pre
            sc["actors"] = [{"name": "a", "host": case["actor_host"], "ops": pre + [["exec", case["flops"], opts]]}]
        elif kind == "sleep":
            sc["actors"] = [{"name": "a", "host": "h0", "ops": pre + [["sleep", case["duration"]]]}]
        elif kind == "io":
            sc["actors"] = [{"name": "a", "host": case["actor_host"], "ops": pre + [["io", case["disk"], case["size"], case["op"]]]}]
        else:
            k = len(case["hosts"])
            sc["actors"] = [{"name": "a", "host": case["actor_host"],
                             "ops": pre + [["exec", case["hosts"], {"flops": case["flops"], "bytes": [0.0] * (k * k)}]]}]
        sc["cfg"] = cfg
        return sc

    # -------------------------------------------------------------------------------------------- oracle
    def check(self, case):
        oc = core.Outcome()
        kind = case["kind"]
        log = model.run(self.scenario(case), cpu=20, wall=240)
        if log.wall_exceeded:
            raise core.Inconclusive()
        if not log.done:
            oc.bad(model.crash_sig(log) + ":" + kind, "s4u_model did not finish: " + log.crash_text())
            return oc
        plat = Plat(case["platform"])
        labels = [kind]
        nontrivial = False
        T = model.T
        if case.get("optim"):
            labels.append("optim-nondefault")
        if case.get("l07"):
            labels.append("l07")
        if case["t0"] > 0:
            labels.append("start>0")
        expected = None        # list of admissible durations
        what = ""
        if kind == "sleep":
            ops = [o for o in log.ops() if o["op"][0] == "sleep"]
            o = ops[-1]
            if o["t_ret"] is None or "exc" in o:
                oc.bad("sleep-not-returned", "sleep(%r) did not return normally: %r" % (case["duration"], o))
                return oc
            obs, date = o["t_ret"] - o["t_req"], o["t_ret"]
            expected = [case["duration"]]
            what = "sleep of %r s" % case["duration"]
            nontrivial = case["duration"] > 1e-8
        elif kind in ("exec", "ptask"):
            o = [o for o in log.ops() if o["op"][0] == "exec"][-1]
            if o["t_ret"] is None or "exc" in o:
                oc.bad("exec-not-returned", "exec did not return normally: %r" % o)
                return oc
            start, finish = T(o["r"]["start"]), T(o["r"]["finish"])
            obs, date = finish - start, finish
            if abs(finish - o["t_ret"]) > 0 or abs(start - o["t_req"]) > 0:
                oc.bad("exec-dates-inconsistent", "get_start_time/get_finish_time (%r, %r) differ from the dates at which the blocking call was "
                       "issued and returned (%r, %r)" % (start, finish, o["t_req"], o["t_ret"]))
            if kind == "exec":
                s = plat.speed(case["host"], case.get("pstate", 0))
                expected = [case["flops"] / s]
                what = "exec of %r flops on %s (speed %r, %d cores, %d thread(s))" % (case["flops"], case["host"], s, plat.cores(case["host"]),
                                                                                       case.get("threads", 1))
                if case.get("threads", 1) > 1:
                    labels.append("threads")
                if case["host"] != case["actor_host"]:
                    labels.append("remote")
                if case.get("pstate", 0) > 0:
                    labels.append("pstate>0")
                nontrivial = any(l in labels for l in ("threads", "remote", "pstate>0")) and expected[0] > 1e-8
            else:
                ratios = [f / plat.speed(h) for f, h in zip(case["flops"], case["hosts"])]
                expected = [max(ratios)]
                what = "ptask of %r flops on %r (speeds %r)" % (case["flops"], case["hosts"], [plat.speed(h) for h in case["hosts"]])
                labels.append("ptask-%d-hosts" % min(len(ratios), 3))
                if max(ratios) == 0:
                    labels.append("ptask-empty")
                nontrivial = len(ratios) > 1 and ratios.index(max(ratios)) > 0 and max(ratios) > 1e-8
        elif kind == "io":
            ends = [l for l in log.of("act_end") if l["type"] == "io"]
            if len(ends) != 1:
                oc.bad("io-not-completed", "expected one completed I/O, got %r" % ends)
                return oc
            obs, date = T(ends[0]["finish"]) - T(ends[0]["start"]), T(ends[0]["finish"])
            d = plat.disks[case["disk"]]
            rate = d["read_bw"] if case["op"] == "read" else d["write_bw"]
            expected = [case["size"] / rate]
            what = "%s of %d bytes on disk %s (read %r B/s, write %r B/s)" % (case["op"], case["size"], case["disk"], d["read_bw"], d["write_bw"])
            labels.append("io-" + case["op"])
            nontrivial = d["read_bw"] != d["write_bw"] and expected[0] > 1e-8
            o = [o for o in log.ops() if o["op"][0] == "io"][-1]
            if "r" in o and o["r"].get("performed") != case["size"]:
                oc.bad("io-performed-amount", "%s: get_performed_ioops() = %r" % (what, o["r"].get("performed")))
        else:
            ends = [l for l in log.of("act_end") if l["type"] == "comm"]
            if len(ends) < 1:
                oc.bad("comm-not-completed", "no completed communication")
                return oc
            durs = set((T(e["start"]), T(e["finish"])) for e in ends)
            if len(durs) != 1:
                oc.bad("comm-dates-inconsistent", "sender and receiver sides report different dates: %r" % sorted(durs))
            start, finish = sorted(durs)[0]
            obs, date = finish - start, finish
            info = model.comm_time(plat, case["src"], case["dst"], case["size"], model=case["model"], crosstraffic=case.get("crosstraffic"),
                                   gamma=case.get("gamma"))
            expected = info["times"]
            what = ("%d bytes %s->%s, %s, crosstraffic=%r, gamma=%r; route latency %r, bottleneck %r B/s (%s), window %r B/s"
                    % (case["size"], case["src"], case["dst"], case["model"], case.get("crosstraffic"), case.get("gamma"), info["lat"], info["phys"],
                       info["binding"], info["window"]))
            labels.append(case["model"])
            labels.append("binding:" + info["binding"])
            if info["gamma_limited"]:
                labels.append("gamma-limited")
            if info["gamma_ambiguous"]:
                labels.append("ambiguous:gamma-with-bw-factor")
            if info["factor_boundary"]:
                labels.append("ambiguous:factor-boundary-size")
            if case["size"] == 0:
                labels.append("size-0")
            if case["src"] != case["dst"]:
                n = len(plat.route(case["src"], case["dst"]))
                labels.append("route-len-%s" % ("1" if n == 1 else "2-3" if n <= 3 else "4-8"))
                pols = set(plat.links[l]["policy"] for l in plat.route(case["src"], case["dst"]))
                if "FATPIPE" in pols:
                    labels.append("route-has-fatpipe")
                if any(l.endswith("_UP") or l.endswith("_DOWN") for l in plat.route(case["src"], case["dst"])):
                    labels.append("route-has-splitduplex")
                if sorted(plat.route(case["src"], case["dst"])) != sorted(plat.route(case["dst"], case["src"])):
                    labels.append("reverse-route-differs")
            nontrivial = (info["gamma_limited"] or info["crosstraffic_binding"] or info["factor_boundary"]) and min(expected) > 1e-8
            if info["crosstraffic_binding"]:
                labels.append("crosstraffic-binding")
        if min(expected) <= 1e-8:
            labels.append("sub-precision")
        if not any(model.close(obs, e, date=date) for e in expected):
            sig = "duration-differs:" + kind
            if kind == "comm":
                sig += ":" + case["model"]
            oc.bad(sig, "%s: observed duration %r, documented %r (relative difference %.3g)"
                   % (what, obs, expected, min(abs(obs - e) / max(e, 1e-300) for e in expected)))
        oc.labels = sorted(set(labels))
        oc.nontrivial = bool(nontrivial)
        oc.info = {"observed": obs, "expected": expected}
        return oc


PROP = C20()
