"""C20 Isolated activities follow the documented formulas."""
from hypothesis import strategies as st

from .. import core, model, platgen
from ..platgen import Plat

SMPI_BOUNDS = [257, 732, 1426, 3484, 5776, 9376, 15424, 65472]


def sizes():
    """bytes: 0, 1, the SMPI interval boundaries and their neighbours, powers of two, log-uniform up to 1e12"""
    near = st.sampled_from(SMPI_BOUNDS).flatmap(lambda b: st.sampled_from([b - 1, b, b + 1]))
    logu = st.floats(0, 12).map(lambda e: int(10 ** e))
    return st.one_of(st.sampled_from([0, 1, 1000, 1000000]), near, st.integers(0, 40).map(lambda e: 1 << e), logu, logu)


def flops():
    return st.one_of(st.sampled_from([0.0, 1.0, 1e6, 1e9]), platgen.pow2(-10, 50), platgen.loguniform(1e-3, 1e15))


def gaps():
    """idle time before an activity (so that activities start at all kinds of dates)"""
    return st.one_of(st.just(0.0), st.just(0.0), st.integers(1, 64).map(lambda k: k / 8), st.sampled_from([0.1, 1e-3, 1234.5678, 1e6 + 0.3]),
                     st.floats(0, 1e4, allow_nan=False))


def durations():
    return st.one_of(st.sampled_from([0.0, 1e-12, 1e-9, 1.5e-9, 1.0, 0.1]), platgen.pow2(-20, 20), platgen.loguniform(1e-9, 1e9))


@st.composite
def cases(draw):
    """A platform, a configuration, and 1-6 activities executed ONE AFTER THE OTHER (each one is alone on the platform while it runs)."""
    dyadic = draw(st.integers(0, 9)) == 0
    l07 = draw(st.integers(0, 5)) == 0
    plat = draw(platgen.platforms(n_hosts=(2, 5) if l07 else (1, 4), n_disks=(0, 2), dyadic=dyadic, max_pool=10))
    p = Plat(plat)
    names = [h["name"] for h in plat["hosts"]]
    case = {"platform": plat}
    if l07:
        case["l07"] = True
        kinds = ["ptask", "ptask", "ptask", "exec", "sleep", "pstate"]
    else:
        kinds = ["comm", "comm", "comm", "comm", "exec", "exec", "sleep", "pstate"]
        case["model"] = draw(st.sampled_from(["raw", "CM02", "LV08", "SMPI"]))
        ct = draw(st.sampled_from([None, None, True, False]))
        if ct is not None:
            case["crosstraffic"] = ct
        if draw(st.integers(0, 7)) == 0:
            case["optim"] = draw(st.sampled_from([["cpu/optim:Full"], ["network/optim:Full"], ["cpu/optim:Full", "network/optim:Full"],
                                                  ["cpu/maxmin-selective-update:yes", "network/maxmin-selective-update:yes"]]))
    if p.disks:
        kinds += ["io", "io"]
    acts = []
    for _ in range(draw(st.integers(1, 6))):
        kind = draw(st.sampled_from(kinds))
        a = {"kind": kind, "gap": draw(gaps())}
        if kind == "comm":
            a["src"] = draw(st.sampled_from(names))
            others = [n for n in names if n != a["src"]]
            a["dst"] = draw(st.sampled_from(others * 6 + [a["src"]]))
            a["size"] = draw(sizes())
        elif kind == "exec":
            a["host"] = draw(st.sampled_from(names))
            a["flops"] = draw(flops())
            if p.n_pstates(a["host"]) > 1 and draw(st.booleans()):
                a["pstate"] = draw(st.integers(0, p.n_pstates(a["host"]) - 1))       # set just before the execution starts
            if not l07 and p.cores(a["host"]) >= 2 and draw(st.integers(0, 2)) == 0:
                # (multi-thread executions are not implemented by the L07 host model: HostL07Model::execute_thread returns nullptr)
                a["threads"] = draw(st.integers(2, p.cores(a["host"])))
        elif kind == "sleep":
            a["duration"] = draw(durations())
        elif kind == "pstate":
            a["host"] = draw(st.sampled_from(names))
            a["pstate"] = draw(st.integers(0, p.n_pstates(a["host"]) - 1))
        elif kind == "io":
            a["disk"] = draw(st.sampled_from(sorted(p.disks)))
            a["size"] = draw(sizes())
            a["op"] = draw(st.sampled_from(["read", "write"]))
        else:
            k = draw(st.integers(1, len(names)))
            a["hosts"] = list(draw(st.permutations(names))[:k])
            a["flops"] = [draw(st.one_of(st.just(0.0), flops(), flops(), flops())) for _ in range(k)]
        acts.append(a)
    case["acts"] = acts
    if not l07 and any(a["kind"] == "comm" and a["src"] == a["dst"] for a in acts) and draw(st.booleans()):
        case["loopback"] = [draw(platgen.bandwidths(dyadic)), draw(platgen.latencies(dyadic))]
    if not l07:
        g = draw(st.sampled_from(["default", "default", "zero", "small", "tuned"]))
        comms = [a for a in acts if a["kind"] == "comm" and a["src"] != a["dst"]]
        if g == "zero":
            case["gamma"] = 0.0
        elif g == "small":
            case["gamma"] = draw(platgen.loguniform(1e2, 1e8))
        elif g == "tuned" and comms:
            # window close to the physical bandwidth of a route in use: both sides of the min() get exercised
            c = comms[0]
            lat = p.latency(c["src"], c["dst"])
            bw = min(p.links[l]["bw"] for l in p.route(c["src"], c["dst"]))
            if lat > 0:
                case["gamma"] = float("%.6g" % (2 * lat * bw * draw(st.sampled_from([0.5, 0.9, 0.99, 1.01, 1.06, 1.2, 2.0]))))
    return case


class C20(core.Prop):
    id = "C20"
    drivers = ["s4u_model"]
    sizes = {"quick": 1200, "thorough": 40000}
    max_workers = 6
    ready = True
    technique = ("property-based testing (Hypothesis): activities executed one at a time on a generated platform, each duration compared with the "
                 "documented closed form computed independently from the platform description (reference model oracle)")
    rule = ("A generated flat platform (vf/platgen.py: 1-4 hosts, speeds 1e3..1e12 with pstates, links 1e3..1e11 B/s with latencies 0..10 s, "
            "SHARED/FATPIPE/SPLITDUPLEX, routes of 1-8 links, symmetric or with an independent reverse route, disks) and 1-6 activities executed one "
            "after the other, each alone while it runs, after idle gaps: exec (W in 0..1e15, any pstate, any host, k<=cores threads), sleep, I/O "
            "read/write (0..1e12 B), set_pstate, communication (0..1e12 B incl. every SMPI interval boundary +-1; implicit loopback link with default or generated loopback-bw/lat) x network/model in "
            "{raw, CM02, LV08, SMPI} x crosstraffic {default, on, off} x TCP-gamma {default, 0, small, tuned to a route's bandwidth}, 1 in 8 cases with "
            "cpu|network/optim Full; or, under host/model:ptask_L07, pure-computation parallel tasks on 1-4 hosts, execs and sleeps. "
            "Oracle: duration (finish - start) of every activity = the closed form of Models.rst / Configuring_SimGrid.rst evaluated in Python from "
            "the platform description, within 1e-9 relative + precision/timing. "
            "Non-trivial: a communication that is window-limited, or whose rate is set by cross-traffic (1.05 on a link shared with the reverse route, "
            "or the 0.05 flow saturating a reverse-only link), or of an SMPI boundary size; a multi-thread or pstate>0 exec; a ptask whose "
            "slowest part is not the first one; an I/O on a disk whose read and write rates differ.")
    assumptions = ["tolerance: |observed - documented| <= 1e-9*documented + precision/timing (1e-9 s) + 8 ulp of the dates involved",
                   "where the documentation is ambiguous both readings are accepted and the class is counted: (a) binding TCP window together with a "
                   "bandwidth factor != 1 (statement: min(bw*factor, gamma/2lat); Models.rst defines the window for CM02 only; implementation: "
                   "factor*min(bw, gamma/2lat)); (b) a size that IS a boundary of an interval-based factor (Configuring_SimGrid.rst describes the "
                   "intervals once half-open and once closed)",
                   "a FATPIPE link is not shared, so the 0.05 cross-traffic flow does not slow the data flow down on it",
                   "threads: Exec::set_thread_count(k) with k <= cores: every thread computes W at speed S",
                   "multi-thread executions under host/model:ptask_L07 are outside the domain (not implemented by that model: null action)"]

    def strategy(self, tier):
        return cases()

    # -------------------------------------------------------------------------------------------- scenario
    def scenario(self, case):
        """-> (scenario, plan): plan[i] tells where the observations of activity i are found in the log"""
        cfg = list(case.get("optim", []))
        if case.get("l07"):
            cfg.append("host/model:ptask_L07")
        else:
            cfg.append("network/model:" + case["model"])
            if "crosstraffic" in case:
                cfg.append("network/crosstraffic:%d" % (1 if case["crosstraffic"] else 0))
            if "gamma" in case:
                cfg.append("network/TCP-gamma:%r" % case["gamma"])
            if "loopback" in case:
                cfg += ["network/loopback-bw:%r" % case["loopback"][0], "network/loopback-lat:%r" % case["loopback"][1]]
        ops, templates, plan = [], [], []
        nspawn = 0
        nmb = 0
        for a in case["acts"]:
            if a["gap"] > 0:
                ops.append(["sleep", a["gap"]])
            kind = a["kind"]
            if kind == "comm":
                templates.append({"ops": [["put", nmb, a["size"]]]})
                templates.append({"ops": [["get", nmb]]})
                snd, rcv = "m.%d" % nspawn, "m.%d" % (nspawn + 1)
                ops += [["spawn", len(templates) - 2, a["src"]], ["spawn", len(templates) - 1, a["dst"]], ["join", snd], ["join", rcv]]
                plan.append({"comm": [len(ops) - 4, len(ops) - 1]})      # the completion record lies between these two operations in the log
                nspawn += 2
                nmb += 1
            elif kind == "exec":
                opts = {"host": a["host"]}
                if "pstate" in a:
                    ops.append(["set_pstate", a["host"], a["pstate"]])
                if a.get("threads", 1) > 1:
                    opts["threads"] = a["threads"]
                plan.append({"op": len(ops)})
                ops.append(["exec", a["flops"], opts])
            elif kind == "sleep":
                plan.append({"op": len(ops)})
                ops.append(["sleep", a["duration"]])
            elif kind == "pstate":
                plan.append({"op": len(ops)})
                ops.append(["set_pstate", a["host"], a["pstate"]])
            elif kind == "io":
                plan.append({"op": len(ops), "io": "m#%d" % len(ops)})
                ops.append(["io", a["disk"], a["size"], a["op"]])
            else:
                k = len(a["hosts"])
                plan.append({"op": len(ops)})
                ops.append(["exec", a["hosts"], {"flops": a["flops"], "bytes": [0.0] * (k * k)}])
        sc = {"cfg": cfg, "platform": case["platform"], "quiet": ["actor", "onoff", "adv"], "objects": {"mailbox": nmb},
              "actors": [{"name": "m", "host": case["platform"]["hosts"][0]["name"], "ops": ops}], "templates": templates}
        return sc, plan

    # -------------------------------------------------------------------------------------------- oracle
    def check(self, case):
        oc = core.Outcome()
        sc, plan = self.scenario(case)
        log = model.run(sc, cpu=20, wall=240)
        if log.wall_exceeded:
            raise core.Inconclusive()
        if not log.done:
            oc.bad(model.crash_sig(log), "s4u_model did not finish: " + log.crash_text())
            return oc
        plat = Plat(case["platform"])
        T = model.T
        labels = set()
        nontrivial = False
        if case.get("optim"):
            labels.add("optim-nondefault")
        labels.add("l07" if case.get("l07") else case["model"])
        labels.add("acts-%d" % min(len(case["acts"]), 4))
        ops = {o["i"]: o for o in log.ops() if o["a"] == "m"}
        ends = {}
        for l in log.of("act_end"):
            ends.setdefault((l["type"], l["name"]), []).append(l)
        comm_ends = [l for l in log.of("act_end") if l["type"] == "comm"]
        pstate = {h: 0 for h in plat.hosts}
        observed = []
        for idx, (a, pl) in enumerate(zip(case["acts"], plan)):
            kind = a["kind"]
            where = "activity #%d (%s)" % (idx, kind)
            o = ops.get(pl.get("op")) if "op" in pl else None
            if "op" in pl and (o is None or o["t_ret"] is None or "exc" in o):
                oc.bad("activity-not-returned:" + kind, "%s did not return normally: %r" % (where, o))
                break
            expected, obs, date, what = None, None, 0.0, ""
            if kind == "pstate":
                pstate[a["host"]] = a["pstate"]
                continue
            labels.add(kind)
            if kind == "sleep":
                obs, date = o["t_ret"] - o["t_req"], o["t_ret"]
                expected = [a["duration"]]
                what = "sleep of %r s" % a["duration"]
            elif kind in ("exec", "ptask"):
                start, finish = T(o["r"]["start"]), T(o["r"]["finish"])
                obs, date = finish - start, finish
                if kind == "exec":
                    pstate[a["host"]] = a.get("pstate", pstate[a["host"]])
                    s = plat.speed(a["host"], pstate[a["host"]])
                    expected = [a["flops"] / s]
                    what = "exec of %r flops on %s (pstate %d: speed %r, %d cores, %d thread(s))" % (
                        a["flops"], a["host"], pstate[a["host"]], s, plat.cores(a["host"]), a.get("threads", 1))
                    if a.get("threads", 1) > 1:
                        labels.add("threads")
                    if pstate[a["host"]] > 0:
                        labels.add("pstate>0")
                    if expected[0] > 1e-8 and (a.get("threads", 1) > 1 or pstate[a["host"]] > 0):
                        nontrivial = True
                else:
                    sp = [plat.speed(h, pstate[h]) for h in a["hosts"]]
                    ratios = [f / s for f, s in zip(a["flops"], sp)]
                    expected = [max(ratios)]
                    what = "ptask of %r flops on %r (speeds %r)" % (a["flops"], a["hosts"], sp)
                    labels.add("ptask-%d-hosts" % min(len(ratios), 3))
                    if max(ratios) == 0:
                        labels.add("ptask-empty")
                    if len(ratios) > 1 and ratios.index(max(ratios)) > 0 and max(ratios) > 1e-8:
                        nontrivial = True
                        labels.add("ptask-slowest-not-first")
            elif kind == "io":
                e = ends.get(("io", pl["io"]), [])
                if len(e) != 1:
                    oc.bad("io-not-completed", "%s: expected one completion record, got %r" % (where, e))
                    break
                obs, date = T(e[0]["finish"]) - T(e[0]["start"]), T(e[0]["finish"])
                d = plat.disks[a["disk"]]
                rate = d["read_bw"] if a["op"] == "read" else d["write_bw"]
                expected = [a["size"] / rate]
                what = "%s of %d bytes on disk %s (read %r B/s, write %r B/s)" % (a["op"], a["size"], a["disk"], d["read_bw"], d["write_bw"])
                labels.add("io-" + a["op"])
                if d["read_bw"] != d["write_bw"] and expected[0] > 1e-8:
                    nontrivial = True
                if o["r"].get("performed") != a["size"]:
                    oc.bad("io-performed-amount", "%s: get_performed_ioops() = %r" % (what, o["r"].get("performed")))
            else:
                first, last = ops.get(pl["comm"][0]), ops.get(pl["comm"][1])
                if first is None or last is None or last["n_ret"] is None:
                    oc.bad("activity-not-returned:comm", "%s: the sender or the receiver did not terminate: %r" % (where, last))
                    break
                # (the name given to the s4u::Comm is not the name of the completion record: records are attributed by their position in the log)
                e = [l for l in comm_ends if first["n_req"] < l["n"] < last["n_ret"]]
                dates = sorted(set((T(l["start"]), T(l["finish"])) for l in e))
                if len(dates) != 1:
                    oc.bad("comm-not-completed", "%s: expected the completion of one communication, got %r" % (where, e))
                    break
                start, finish = dates[0]
                obs, date = finish - start, finish
                info = model.comm_time(plat, a["src"], a["dst"], a["size"], model=case["model"], crosstraffic=case.get("crosstraffic"),
                                       gamma=case.get("gamma"), loopback=case.get("loopback"))
                expected = info["times"]
                what = ("%d bytes %s->%s, %s, crosstraffic=%r, gamma=%r; route latency %r, bottleneck %r B/s (%s), window %r B/s"
                        % (a["size"], a["src"], a["dst"], case["model"], case.get("crosstraffic"), case.get("gamma"), info["lat"], info["phys"],
                           info["binding"], info["window"]))
                labels.add("binding:" + info["binding"])
                if info["gamma_limited"]:
                    labels.add("gamma-limited")
                if info["gamma_ambiguous"]:
                    labels.add("ambiguous:gamma-with-bw-factor")
                if info["factor_boundary"]:
                    labels.add("ambiguous:factor-boundary-size")
                if a["size"] == 0:
                    labels.add("size-0")
                if a["src"] != a["dst"]:
                    r, rb = plat.route(a["src"], a["dst"]), plat.route(a["dst"], a["src"])
                    labels.add("route-len-%s" % ("1" if len(r) == 1 else "2-3" if len(r) <= 3 else "4-8"))
                    if any(plat.links[l]["policy"] == "FATPIPE" for l in r):
                        labels.add("route-has-fatpipe")
                    if any(l.endswith("_UP") or l.endswith("_DOWN") for l in r):
                        labels.add("route-has-splitduplex")
                    if sorted(r) != sorted(rb):
                        labels.add("reverse-route-differs")
                if info["crosstraffic_binding"]:
                    labels.add("crosstraffic-binding")
                if (info["gamma_limited"] or info["crosstraffic_binding"] or info["factor_boundary"]) and min(expected) > 1e-8:
                    nontrivial = True
            if min(expected) <= 1e-8:
                labels.add("sub-precision")
            if date - obs > 0:
                labels.add("start>0")
            observed.append([kind, obs, expected])
            if not any(model.close(obs, e, date=date) for e in expected):
                sig = "duration-differs:" + kind
                if kind == "comm":
                    sig += ":" + case["model"]
                oc.bad(sig, "%s = %s: observed duration %r, documented %r (relative difference %.3g)"
                       % (where, what, obs, expected, min(abs(obs - e) / max(e, 1e-300) for e in expected)))
                break
        oc.labels = sorted(labels)
        oc.nontrivial = bool(nontrivial)
        oc.info = {"observed": observed[:6]}
        return oc


PROP = C20()
