"""C19 Update algorithms and solver options give the same timings."""
import math

from hypothesis import strategies as st

from .. import core, model, platgen
from ..platgen import Plat

T = model.T

CPU_CFGS = {"Lazy": [], "LazySel": ["cpu/maxmin-selective-update:yes"], "Full": ["cpu/optim:Full"],
            "FullSel": ["cpu/optim:Full", "cpu/maxmin-selective-update:yes"], "FullNoSel": ["cpu/optim:Full", "cpu/maxmin-selective-update:no"],
            "TI": ["cpu/optim:TI"]}
NET_CFGS = {"Lazy": [], "LazySel": ["network/maxmin-selective-update:yes"], "Full": ["network/optim:Full"],
            "FullSel": ["network/optim:Full", "network/maxmin-selective-update:yes"],
            "FullNoSel": ["network/optim:Full", "network/maxmin-selective-update:no"]}
# (Lazy with selective update off is refused by the model constructors: "You cannot disable ... selective update when using the lazy update
#  mechanism"; it is not a legal combination)
import os
# classes of known findings still open in /repo, excluded by construction so that the search goes on behind them (known_findings.json (C19)):
#   ti-profile-start cpu/optim:TI + a speed profile whose first point is not at date 0 (integrated wrongly)
# (fixed meanwhile, exclusions lifted: ti-ctl = TI + suspend / resume / priority change; lazy-same-prio = lazy CPU + update_priority() with
#  the priority the execution already has; the switches stay so that an old tree can still be searched behind them)
# (bw-in-latency, fixed too: a bandwidth change while a communication is still paying its latency activated it early; under the lazy
#  network model it then never completed.  Was excluded by giving every link a null latency when a bandwidth profile exists.)
# (bw-xtraffic: a bandwidth change on a link that carries only the cross-traffic of a communication makes that communication's sharing
#  penalty drift; it used to abort when the penalty became negative.  Since 7e2c4e4049 a non-positive penalty is never pushed to the LMM:
#  no abort any more, and the drift is the same under every update algorithm, so it is not a C19 divergence: exclusion (cross-traffic
#  switched off when a bandwidth profile exists) lifted; the stored input is kept as regress-bw-increase-crosstraffic.json.)
#   ti-pstate        cpu/optim:TI ignores a pstate change for the executions already running.  Excluded: no TI configuration when the
#                    workload changes a pstate.
# (prio-while-suspended, fixed by 81301d92b2 + c9c06178d1, exclusion lifted: Exec::update_priority on a SUSPENDED execution re-enabled its
#  LMM variable (Lazy, Full: it ran although suspended; TI kept it suspended), and the later resume() then froze it for good under Lazy.
#  Was excluded by generating no priority change inside a suspension window.)
OPEN = set(x for x in os.environ.get("VF_C19_OPEN", "ti-profile-start,ti-pstate").split(",") if x)
MARGIN = 1e-6      # a suspend / resume closer than this to the start or the completion of its activity makes the case tie-prone: not decided


def secs():
    return st.one_of(st.integers(1, 64).map(lambda k: k / 8), st.floats(0.05, 8.0, allow_nan=False))


def pauses():
    return st.one_of(st.just(0.0), st.integers(0, 32).map(lambda k: k / 8), st.floats(0, 4.0, allow_nan=False))


@st.composite
def profiles(draw, values, ti_ok):
    """availability profile: 1-5 points, periodic most of the time.  `ti_ok`: keep the preconditions of the TI model (periodic; the last
    value is the value in force at date 0, i.e. 1.0 unless the first point is at date 0)"""
    n = draw(st.integers(1, 5))
    dates = sorted(set(draw(st.lists(st.integers(0, 48), min_size=n, max_size=n))))
    pts = [[d / 4.0, draw(values)] for d in dates]
    # "period" is the length of the whole cycle (ProfileBuilder: the loop delay is period - date of the last point, which must be >= 0)
    extra = draw(st.sampled_from([0.25, 0.5, 1.0, 2.0]))
    period = pts[-1][0] + extra if (ti_ok or draw(st.integers(0, 2))) else -1
    if ti_ok:
        if "ti-profile-start" in OPEN:
            pts[0][0] = 0.0
        pts[-1][1] = pts[0][1] if pts[0][0] == 0 else 1.0
    return {"points": pts, "period": period}


def profile_scale(prof, t):
    """value of an availability profile at date t (right-continuous): the value of the latest point at or before t; points repeat every
    `period` seconds when period > 0; before the very first point the nominal value 1.0"""
    pts, per = prof["points"], prof.get("period", -1)
    if per is not None and per > 0 and t >= per:
        k = math.floor(t / per)
        tt = t - k * per
        v = pts[-1][1]                     # value left by the previous cycle
    else:
        tt, v = t, 1.0
    for d, x in pts:
        if d <= tt:
            v = x
    return v


def profile_events(prof, t0, t1):
    """dates in (t0, t1] at which a point of the profile fires (whether or not the value changes)"""
    pts, per = prof["points"], prof.get("period", -1)
    res = []
    if per is not None and per > 0:
        k = max(0, math.floor(t0 / per) - 1)
        while k * per <= t1 and len(res) < 100000:
            res += [k * per + d for d, _ in pts if t0 < k * per + d <= t1]
            k += 1
    else:
        res = [d for d, _ in pts if t0 < d <= t1]
    return sorted(set(res))


@st.composite
def straddle_workloads(draw):
    """Family aimed at the interplay of suspension and availability: an execution on a host whose speed follows a periodic profile is
    suspended just before one of the profile's events and resumed just after it (or after several of them), possibly with a priority change
    made while it is suspended, and then runs alone for a while.  The case keeps the TI model's preconditions so that TI (which integrates
    the profile itself) is always among the compared configurations."""
    dyadic = draw(st.booleans())
    plat = draw(platgen.platforms(n_hosts=(1, 2), cores=(1, 1), max_pstates=1, n_disks=(0, 0), route_len=(1, 2), max_pool=3, dyadic=dyadic,
                                  speed=platgen.pow2(20, 30) if dyadic else platgen.loguniform(1e6, 1e9),
                                  bw=platgen.pow2(17, 30) if dyadic else platgen.loguniform(1e5, 1e9),
                                  lat=st.sampled_from([0.0, 1e-4, 1e-3])))
    p = Plat(plat)
    names = [h["name"] for h in plat["hosts"]]
    case = {"platform": plat, "model": draw(st.sampled_from(["LV08", "CM02", "raw"])), "ti": True, "family": "straddle"}
    vals = [0.25, 0.5, 0.75, 1.0] if dyadic else [0.25, 0.5, 1.0, 0.3, 0.7, 0.9]
    # profile of h0: first point at date 0, every point changes the value, the last value is the first one (TI's preconditions)
    n = draw(st.integers(1, 4))
    gaps = [draw(st.sampled_from([0.5, 0.75, 1.0, 1.5, 2.0, 3.0])) for _ in range(n)]
    v0 = draw(st.sampled_from(vals))
    pts, d, prev = [[0.0, v0]], 0.0, v0
    for i, g in enumerate(gaps):
        d += g
        v = v0 if i == n - 1 else draw(st.sampled_from([x for x in vals if x != prev]))
        if i == n - 1 and n == 1:
            # a single later point must differ from v0 to be an event at all: use 3 points instead (v0, v, v0)
            v = draw(st.sampled_from([x for x in vals if x != v0]))
            pts.append([d, v])
            d += draw(st.sampled_from([0.5, 1.0, 2.0]))
            v = v0
        pts.append([d, v])
        prev = v
    prof = {"points": pts, "period": d + draw(st.sampled_from([0.5, 1.0, 2.0]))}
    plat["hosts"][0]["speed_profile"] = prof
    h0 = names[0]
    S = p.speed(h0)
    # dates at which the speed of h0 really changes, over the first cycles
    changes = [e for e in profile_events(prof, 0.0, 4 * prof["period"]) if profile_scale(prof, e) != profile_scale(prof, e - 1e-3)]
    nh = [0]

    def handle():
        nh[0] += 1
        return nh[0]
    start = draw(st.sampled_from([0.0, 0.0, 0.125, 0.25, 0.6]))
    now = start
    ctl = []
    small = st.sampled_from([0.125, 0.0625, 0.25, 0.05, 0.1])
    for _ in range(draw(st.sampled_from([1, 1, 2]))):
        cand = [i for i, e in enumerate(changes) if e - 0.25 > now + 0.01]
        if not cand:
            break
        i = cand[draw(st.integers(0, min(3, len(cand) - 1)))]
        span = draw(st.sampled_from([0, 0, 0, 1, 2]))
        j = min(i + span, len(changes) - 1)
        d1, d2 = draw(small), draw(small)
        ts, tr = changes[i] - d1, changes[j] + d2
        c = {"after": ts - now, "do": "suspend", "for": tr - ts}
        if draw(st.integers(0, 2)) == 0 and "prio-while-suspended" not in OPEN:
            c["inside"] = [{"after": (tr - ts) * draw(st.sampled_from([0.25, 0.5, 0.75])), "do": "prio", "value": draw(st.sampled_from([0.5, 2.0, 4.0]))}]
        ctl.append(c)
        now = tr
    tail = draw(secs())
    step = {"op": "exec", "h": handle(), "host": h0, "pause": start, "wait": True, "flops": S * ((now - start) + tail), "ctl": ctl}
    if draw(st.integers(0, 3)) == 0:
        step["prio"] = draw(st.sampled_from([0.5, 2.0]))
    actors = [{"host": h0, "steps": [step]}]
    # company: other actors, on the other host most of the time (so that the execution is alone after its resume), sometimes on h0
    for _ in range(draw(st.integers(0, 2))):
        host = draw(st.sampled_from(names[1:] * 3 + [h0])) if len(names) > 1 else (h0 if draw(st.integers(0, 2)) == 0 else None)
        if host is None:
            continue
        steps = []
        for _ in range(draw(st.integers(1, 3))):
            kind = draw(st.sampled_from(["exec", "exec", "sleep"] + (["comm"] if len(names) > 1 else [])))
            s2 = {"op": kind, "pause": draw(pauses())}
            dd = draw(secs())
            if kind == "exec":
                s2.update(h=handle(), wait=draw(st.booleans()), host=host, flops=dd * p.speed(host), ctl=[])
            elif kind == "comm":
                s2.update(h=handle(), wait=draw(st.booleans()), dst=draw(st.sampled_from([x for x in names if x != host])), rdelay=draw(pauses()))
                s2["size"] = max(1, int(dd * min(p.links[l]["bw"] for l in p.route(host, s2["dst"]))))
            steps.append(s2)
        actors.append({"host": host, "steps": steps})
    case["actors"] = actors
    nets = ["Lazy", "LazySel", "Full", "FullSel", "FullNoSel"]
    case["configs"] = [["TI", draw(st.sampled_from(nets))], [draw(st.sampled_from(["Full", "FullSel", "FullNoSel", "LazySel"])), draw(st.sampled_from(nets))]]
    return case


def workloads():
    return st.one_of(general_workloads(), general_workloads(), straddle_workloads())


@st.composite
def general_workloads(draw):
    dyadic = draw(st.integers(0, 4)) == 0
    ti = draw(st.integers(0, 2)) == 0         # keep the case inside the TI model's preconditions
    plat = draw(platgen.platforms(n_hosts=(1, 3), cores=(1, 1) if ti else (1, 4), max_pstates=2, n_disks=(0, 0), route_len=(1, 3), max_pool=5,
                                  dyadic=dyadic,
                                  speed=platgen.pow2(20, 30) if dyadic else platgen.loguniform(1e6, 1e9),
                                  bw=platgen.pow2(17, 30) if dyadic else platgen.loguniform(1e5, 1e9),
                                  lat=st.one_of(st.just(0.0), platgen.pow2(-13, -3)) if dyadic else
                                  st.one_of(st.sampled_from([0.0, 1e-4, 1e-3, 0.01]), platgen.loguniform(1e-5, 0.1))))
    p = Plat(plat)
    names = [h["name"] for h in plat["hosts"]]
    case = {"platform": plat, "model": draw(st.sampled_from(["LV08", "LV08", "CM02", "raw", "SMPI"])), "ti": ti}
    ct = draw(st.sampled_from([None, None, True, False]))
    if ct is not None:
        case["crosstraffic"] = ct
    # availability profiles
    if draw(st.integers(0, 2)) == 0:
        scale = st.sampled_from([0.25, 0.5, 0.75, 1.0]) if dyadic else st.one_of(st.sampled_from([0.5, 1.0, 0.25]), st.floats(0.1, 1.0))
        for h in plat["hosts"]:
            if draw(st.booleans()):
                h["speed_profile"] = draw(profiles(scale, ti))
        for l in plat.get("links", []):
            if l["policy"] != "SPLITDUPLEX" and draw(st.integers(0, 2)) == 0:
                l["bw_profile"] = draw(profiles(st.sampled_from([l["bw"], l["bw"] / 2, l["bw"] / 4, l["bw"] * 2]), False))
        if "bw-in-latency" in OPEN and any("bw_profile" in l for l in plat.get("links", [])):
            for l in plat["links"]:
                l["lat"] = 0.0
    if "bw-xtraffic" in OPEN and any("bw_profile" in l for l in plat.get("links", [])):
        case["crosstraffic"] = False
    nh = [0]

    def handle():
        nh[0] += 1
        return nh[0]
    actors = []
    for ai in range(draw(st.integers(1, 4))):
        host = draw(st.sampled_from(names))
        steps = []
        kinds = ["exec", "exec", "exec", "sleep"] + (["comm", "comm"] if len(names) > 1 else [])
        if not (ti and "ti-pstate" in OPEN):
            kinds.append("pstate")       # (TI-eligible cases keep away from the known TI + pstate class, or TI would never be compared)
        for _ in range(draw(st.integers(1, 5))):
            kind = draw(st.sampled_from(kinds))
            s = {"op": kind, "pause": draw(pauses())}
            d = draw(secs())
            if kind == "exec":
                s["h"] = handle()
                s["wait"] = draw(st.booleans())
                s["host"] = host if draw(st.integers(0, 3)) else draw(st.sampled_from(names))
                sp = p.speed(s["host"])
                s["flops"] = d * sp
                o = draw(st.integers(0, 5))
                if o == 0 and not ti:
                    s["bound"] = sp * draw(st.sampled_from([0.125, 0.25, 0.5, 0.75, 1.0, 2.0]))
                elif o == 1:
                    s["prio"] = draw(st.sampled_from([0.5, 2.0, 4.0, 3.0]))
                elif o == 2 and not ti and p.cores(s["host"]) > 1:
                    s["threads"] = draw(st.integers(2, 6))
                ctl = []
                cur_prio = s.get("prio", 1.0)
                for _ in range(draw(st.sampled_from([0, 0, 1, 1, 2, 3]))):
                    c = {"after": draw(st.one_of(st.integers(1, 16).map(lambda k: k / 8), st.floats(0.01, 2.0))),
                         "do": draw(st.sampled_from(["suspend", "suspend", "prio"] + ([] if ti else ["bound"])))}
                    if c["do"] == "suspend":
                        c["for"] = draw(st.one_of(st.integers(1, 16).map(lambda k: k / 8), st.floats(0.01, 2.0)))
                        what = ([] if ti or "threads" in s else ["bound"]) + ([] if "prio-while-suspended" in OPEN or "threads" in s else ["prio"])
                        if what and draw(st.integers(0, 3)) == 0:       # a change made while the execution is suspended
                            w = draw(st.sampled_from(what))
                            c["inside"] = [{"after": c["for"] * draw(st.sampled_from([0.25, 0.5, 0.75])), "do": w,
                                            "value": draw(st.sampled_from([0.5, 2.0, 4.0])) if w == "prio" else
                                            sp * draw(st.sampled_from([0.125, 0.25, 0.5, 1.0, 2.0]))}]
                    elif c["do"] == "prio":
                        c["value"] = draw(st.sampled_from([0.5, 1.0, 2.0, 4.0]))
                        if c["value"] == cur_prio and "lazy-same-prio" in OPEN:
                            c["value"] = cur_prio * 2
                        cur_prio = c["value"]
                    else:
                        c["value"] = sp * draw(st.sampled_from([0.125, 0.25, 0.5, 1.0, 2.0]))
                    if "threads" in s and c["do"] != "suspend":
                        continue         # a multi-thread execution ignores bounds and priorities
                    ctl.append(c)
                s["ctl"] = ctl
            elif kind == "comm":
                s["h"] = handle()
                s["wait"] = draw(st.booleans())
                s["dst"] = draw(st.sampled_from([n for n in names if n != host]))
                bw = min(p.links[l]["bw"] for l in p.route(host, s["dst"]))
                s["size"] = max(1, int(d * bw))
                s["rdelay"] = draw(pauses())
            elif kind == "pstate":
                s["host"] = draw(st.sampled_from(names))
                s["pstate"] = draw(st.integers(0, p.n_pstates(s["host"]) - 1))
            steps.append(s)
        actors.append({"host": host, "steps": steps})
    case["actors"] = actors
    # configurations compared with the default one
    has_ctl = any(c["do"] in ("suspend", "prio") for a in actors for st_ in a["steps"] for c in st_.get("ctl", []))
    has_pstate = any(st_["op"] == "pstate" for a in actors for st_ in a["steps"])
    ti_cfg = ti and not (has_ctl and "ti-ctl" in OPEN) and not (has_pstate and "ti-pstate" in OPEN)
    cpus = ["LazySel", "Full", "FullSel", "FullNoSel"] + (["TI", "TI"] if ti_cfg else [])
    nets = ["Lazy", "LazySel", "Full", "FullSel", "FullNoSel"]
    combos = [[c, n] for c in ["Lazy"] + cpus for n in nets if not (c == "Lazy" and n == "Lazy")]
    case["configs"] = draw(st.lists(st.sampled_from(combos), min_size=2, max_size=3, unique_by=lambda x: tuple(x)))
    if ti_cfg and not any(c[0] == "TI" for c in case["configs"]):
        case["configs"][0] = ["TI", draw(st.sampled_from(nets))]      # a TI-eligible case always compares TI
    return case


class C19(core.Prop):
    id = "C19"
    drivers = ["s4u_model"]
    sizes = {"quick": 300, "thorough": 10000}
    max_workers = 6
    technique = ("property-based testing (Hypothesis): differential testing of generated workloads across the update algorithms and the "
                 "selective-update option; the default configuration (Lazy/Lazy) is the reference")
    ready = True
    rule = ("Generated exec/comm workloads on flat platforms with real sharing (vf/platgen.py: 1-3 hosts of 1-4 cores and 1-2 pstates, shared / "
            "fat-pipe / split-duplex links, routes of 1-3 links): 1-4 actors, each a sequence of pauses, asynchronous execs (bounds, priorities, "
            "threads, local or remote) and communications (raw/CM02/LV08/SMPI, cross-traffic on/off) waited at once or at the end, set_pstate; "
            "while an exec runs its owner may suspend and resume it, change its priority (Exec::update_priority) or its bound (Action::set_bound); "
            "1 case in 3 has availability profiles (host speed, link bandwidth; periodic or not). 1 case in 3 comes from the 'straddle' family: an "
            "execution on a single-core host with a periodic speed profile is suspended just before one (or several) of the profile's events "
            "and resumed just after, then runs alone for a while, TI always among the compared configurations; bound (and priority) "
            "changes are also made WHILE an execution is suspended. Each case is run under the default configuration "
            "(cpu/optim:Lazy, network/optim:Lazy) and under 2-3 other LEGAL combinations of cpu/optim in {Lazy, Full, TI} x network/optim in "
            "{Lazy, Full} x cpu|network/maxmin-selective-update in {default, yes, no} (Lazy with selective update off is refused by SimGrid; TI only "
            "when the case keeps TI's preconditions: single-core hosts, no bound, no threads, periodic speed profiles whose first point is at "
            "date 0 and whose last value is the first one). Oracle (differential): every operation of every actor (hence every activity "
            "completion) returns at the same date as under the default configuration, within 2 x precision/timing + 1e-12 x date, with the same "
            "outcome; a configuration that crashes or never completes an activity that the other completes is a violation. "
            "Second clause (absolute, so that a defect common to all update algorithms is visible): an unbounded single-thread execution that "
            "is alone on its host all its life (no pstate change) completes, in the reference run, at the date where the integral of speed x "
            "availability over the time it is not suspended equals its flops (1e-9 relative + the same quanta). "
            "Cases where a suspend or a resume lands within 1e-6 (relative) of the completion of its activity are tie-prone (discontinuous "
            "outcome) and counted invalid. Non-trivial: some activity sees >= 3 changes of its granted rate, or a profile is attached to a "
            "resource whose activities change rate.")
    assumptions = ["tolerance 2 x (1 + number of earlier simulation steps shorter than 2e-9 s) x 1e-9 s + 1e-12 x date: precision/timing is the granularity below which the models legally merge dates",
                   "the default configuration is the reference; a defect common to all update algorithms is not visible to this differential "
                   "(C20/C21 look at absolute values)",
                   "known findings excluded by construction (counted in known_findings.json (C19), replayed from replays/C19): TI with a speed profile "
                   "whose first point is not at date 0; TI with a pstate change",
                   "scenarios run with the interpreter's speed_change record off (\"quiet\":[\"onoff\"]): Host::get_available_speed() segfaults "
                   "under cpu/optim:TI on a host without speed profile (known finding, replayed)",
                   "bound changes of a running execution go through kernel::resource::Action::set_bound (what VirtualMachineImpl does); the S4U "
                   "interface only sets bounds before the start"]

    def strategy(self, tier):
        return workloads()

    # -------------------------------------------------------------------------------------------- scenario
    def scenario(self, case, cpu, net, sample=False):
        plat = case["platform"]
        p = Plat(plat)
        cfg = CPU_CFGS[cpu] + NET_CFGS[net] + ["network/model:" + case["model"]]
        if "crosstraffic" in case:
            cfg.append("network/crosstraffic:%d" % (1 if case["crosstraffic"] else 0))
        actors, meta, ctls = [], {}, []
        nmb = 0
        if case.get("host_info"):     # only in the replay of a known finding: Host::get_available_speed() under TI
            actors.append({"name": "probe", "host": plat["hosts"][0]["name"], "ops": [["host_info", plat["hosts"][0]["name"]]]})
        for ai, a in enumerate(case["actors"]):
            ops, pending = [], []
            name = "a%d" % ai
            for s in a["steps"]:
                if s.get("pause", 0) > 0:
                    ops.append(["sleep", s["pause"]])
                if s["op"] == "sleep":
                    continue
                if s["op"] == "pstate":
                    ops.append(["set_pstate", s["host"], s["pstate"]])
                    continue
                if s["op"] == "raw":          # replay files only: interpreter operations given verbatim
                    ops += s["ops"]
                    continue
                h = s["h"]
                if s["op"] == "exec":
                    opts = {"host": s["host"]}
                    for k in ("bound", "prio", "threads"):
                        if k in s:
                            opts[k] = s[k]
                    meta[h] = {"kind": "exec", "actor": name, "host": s["host"], "flops": s["flops"], "step": s}
                    ops.append(["exec_async", s["flops"], opts, h])
                    for c in s.get("ctl", []):
                        ops.append(["sleep", c["after"]])
                        if c["do"] == "suspend":
                            ctls.append({"h": h, "actor": name, "op": len(ops), "what": "suspend"})
                            ops.append(["suspend_act", h])
                            left = c["for"]
                            for c2 in c.get("inside", []):          # changes made while the execution is suspended
                                ops.append(["sleep", c2["after"]])
                                left -= c2["after"]
                                ctls.append({"h": h, "actor": name, "op": len(ops), "what": c2["do"] + "-while-suspended"})
                                ops.append(["update_prio", h, c2["value"]] if c2["do"] == "prio" else ["act_set_bound", h, c2["value"]])
                            ops.append(["sleep", left])
                            ctls.append({"h": h, "actor": name, "op": len(ops), "what": "resume"})
                            ops.append(["resume_act", h])
                        elif c["do"] == "prio":
                            ctls.append({"h": h, "actor": name, "op": len(ops), "what": "prio"})
                            ops.append(["update_prio", h, c["value"]])
                        else:
                            ctls.append({"h": h, "actor": name, "op": len(ops), "what": "bound"})
                            ops.append(["act_set_bound", h, c["value"]])
                else:
                    meta[h] = {"kind": "comm", "actor": name}
                    ops.append(["put_async", nmb, s["size"], {}, h])
                    actors.append({"name": "r%d" % nmb, "host": s["dst"], "ops": ([["sleep", s["rdelay"]]] if s["rdelay"] > 0 else []) + [["get", nmb]]})
                    nmb += 1
                if s["wait"]:
                    ops.append(["wait", h])
                    meta[h]["info1"] = len(ops)
                    ops.append(["act_info", h])
                else:
                    pending.append(h)
            for h in pending:
                ops.append(["wait", h])
            for h in pending:
                meta[h]["info1"] = len(ops)
                ops.append(["act_info", h])
            actors.append({"name": name, "host": a["host"], "ops": ops})
        actors += case.get("extra_actors", [])          # replay files only
        sc = {"cfg": cfg, "platform": plat, "objects": {"mailbox": nmb}, "quiet": ["actor", "act", "adv", "onoff"], "actors": actors}
        if sample:
            sc["msample"] = {"rate": True, "raw": True}
        return sc, meta, ctls

    # -------------------------------------------------------------------------------------------- oracle
    def check(self, case):
        oc = core.Outcome()
        labels = set()
        sc, meta, ctls = self.scenario(case, "Lazy", "Lazy", sample=True)
        ref = model.run(sc, cpu=30, wall=300)
        oc.evals = 1
        if ref.wall_exceeded:
            raise core.Inconclusive()
        if not ref.done:
            oc.bad(model.crash_sig(ref) + ":Lazy/Lazy", "reference run (default configuration) did not finish: " + ref.crash_text())
            return oc
        rops = {(o["a"], o["i"]): o for o in ref.ops()}
        # tie-prone cases: a suspend / resume landing on the start or the completion of its activity (discontinuous outcome)
        for c in ctls:
            if c["what"] not in ("suspend", "resume"):
                continue
            o = rops[(c["actor"], c["op"])]
            m = meta[c["h"]]
            i1 = rops.get((m["actor"], m["info1"]))
            if i1 is None or "r" not in i1:
                continue
            fin = T(i1["r"]["finish"])
            if abs(o["t_req"] - fin) <= MARGIN * max(1.0, fin):
                oc.invalid = True
                oc.info = {"tie": [o["t_req"], fin]}
                return oc
        # labels from the reference run
        nrates = {}
        last = {}
        for l in ref.of("ms"):
            for h, e in l.get("rate", {}).items():
                r = T(e[0])
                if h in last and abs(r - last[h]) > 1e-9 * max(r, last[h]):
                    nrates[h] = nrates.get(h, 0) + 1
                last[h] = r
        maxchg = max(nrates.values()) if nrates else 0
        labels.add("rate-changes-%s" % ("0" if maxchg == 0 else "1-2" if maxchg < 3 else ">=3"))
        for c in ctls:
            labels.add("ctl-" + c["what"])
        if any("speed_profile" in h for h in case["platform"]["hosts"]):
            labels.add("speed-profile")
        if any("bw_profile" in l for l in case["platform"].get("links", [])):
            labels.add("bw-profile")
        if any(s["op"] == "pstate" for a in case["actors"] for s in a["steps"]):
            labels.add("pstate-change")
        if any(m["kind"] == "comm" for m in meta.values()):
            labels.add("comm")
        # ---- suspension windows versus the speed events of the host; closed form for executions that are alone on their host
        plat_hosts = {h["name"]: h for h in case["platform"]["hosts"]}
        p = Plat(case["platform"])
        execs = {}
        for h, m in meta.items():
            i1 = rops.get((m["actor"], m["info1"])) if "info1" in m else None
            if m["kind"] == "exec" and i1 is not None and "r" in i1 and T(i1["r"]["finish"]) >= 0:
                execs[h] = dict(m, start=T(i1["r"]["start"]), finish=T(i1["r"]["finish"]), windows=[], others=False)
        pend = {}
        for c in ctls:
            o = rops.get((c["actor"], c["op"]))
            if o is None or c["h"] not in execs:
                continue
            e = execs[c["h"]]
            if c["what"] == "suspend":
                pend[c["h"]] = o["t_req"]
            elif c["what"] == "resume" and c["h"] in pend:
                ts = pend.pop(c["h"])
                if ts < e["finish"]:
                    e["windows"].append((ts, o["t_req"]))
            elif c["what"] in ("bound", "bound-while-suspended"):
                e["others"] = True
        has_pstate = any(st_["op"] == "pstate" for a in case["actors"] for st_ in a["steps"])
        tiny_all = sorted(set([0.0] + [o["t_ret"] for o in rops.values() if o["t_ret"] is not None]))
        for h, e in sorted(execs.items()):
            prof = plat_hosts[e["host"]].get("speed_profile")
            alone_life = not any(h2 != h and e2["host"] == e["host"] and e2["start"] < e["finish"] and e2["finish"] > e["start"]
                                 for h2, e2 in execs.items()) and all(m["kind"] != "exec" or m["host"] != e["host"] or hh in execs
                                                                      for hh, m in meta.items())
            for ts, tr in e["windows"]:
                if prof is None or tr >= e["finish"]:
                    continue
                before, after = profile_scale(prof, ts), profile_scale(prof, tr)
                evs = [d for d in profile_events(prof, ts, tr) if profile_scale(prof, d) != profile_scale(prof, d - 1e-6)]
                if evs:
                    labels.add("speed-event-while-suspended")
                    if after > before:
                        labels.add("increase-while-suspended")
                    elif after < before:
                        labels.add("decrease-while-suspended")
                    if not any(h2 != h and e2["host"] == e["host"] and e2["start"] <= tr < e2["finish"] for h2, e2 in execs.items()):
                        labels.add("alone-after-resume")
                        if after > before:
                            labels.add("increase-while-suspended+alone-after-resume")
            # closed form: an execution that is alone on its host all its life progresses at speed x availability while it is not suspended
            st_ = e["step"]
            if os.environ.get("VF_C19_NO_CLOSED_FORM"):
                continue          # (sensitivity runs: the differential alone)
            if alone_life and not has_pstate and not e["others"] and "bound" not in st_ and "threads" not in st_ and e["finish"] > e["start"]:
                S = p.speed(e["host"])
                t, left, guard = e["start"], e["flops"], 0
                wins = sorted(e["windows"])
                horizon = e["finish"] + 1.0
                cuts = sorted(set([x for w in wins for x in w] + (profile_events(prof, e["start"], horizon + 64.0) if prof else [])))
                cuts = [x for x in cuts if x > t] + [math.inf]
                exp = None
                for nxt in cuts:
                    susp = any(a <= t < b for a, b in wins)
                    rate = 0.0 if susp else S * (profile_scale(prof, t) if prof else 1.0)
                    if rate > 0 and left <= rate * (nxt - t) * (1 + 1e-15):
                        exp = t + left / rate
                        break
                    if nxt == math.inf:
                        break
                    left -= rate * (nxt - t)
                    t = nxt
                if exp is not None:
                    labels.add("closed-form-checked")
                    tiny = sum(1 for x, y in zip(tiny_all, tiny_all[1:]) if y <= e["finish"] and y - x < 2 * model.PREC_T)
                    tol = 2 * (1 + tiny) * model.PREC_T + 1e-9 * (exp - e["start"]) + 1e-12 * exp
                    if abs(exp - e["finish"]) > tol:
                        oc.bad("completion-differs-from-profile-integral:Lazy", "execution %d of %r flops alone on %s (speed %r, profile %r), started at %r, "
                               "suspended over %r: completes at %r under the default configuration, the integral of speed x availability over "
                               "the time it is not suspended gives %r (difference %.3g s)"
                               % (h, e["flops"], e["host"], S, prof, e["start"], wins, e["finish"], exp, abs(exp - e["finish"])))
                        oc.labels = sorted(labels)
                        return oc
        if any(c["what"].endswith("-while-suspended") for c in ctls):
            labels.add("ctl-change-while-suspended")
        # signature = kind : update algorithms (selective-update variants folded) : feature of the case that names a known root cause
        feature = ""
        if case.get("host_info"):
            feature = ":host-info"
        elif case.get("extra_actors"):
            feature = ":actor-resume"
        elif any(c2["do"] == "prio" for a in case["actors"] for st_ in a["steps"] for c in st_.get("ctl", []) for c2 in c.get("inside", [])):
            feature = ":prio-while-suspended"
        elif any("bw_profile" in l for l in case["platform"].get("links", [])) and any(l.get("lat", 0) > 0 for l in case["platform"].get("links", [])):
            feature = ":bw-profile+latency"
        pfeat = ":pstate-change" if any(st_["op"] == "pstate" for a in case["actors"] for st_ in a["steps"]) else ""
        algo = lambda x: "TI" if x == "TI" else "Full" if x.startswith("Full") else "Lazy"
        for cpu, net in case["configs"]:
            if oc.violations:
                break
            cfgclass = "TI" if cpu == "TI" else algo(cpu) + "/" + algo(net)     # (the network side is irrelevant to a TI divergence)
            tifeat = ":profile-first-point-not-at-0" if cpu == "TI" and any(
                h.get("speed_profile", {}).get("points", [[0.0]])[0][0] > 0 for h in case["platform"]["hosts"]) else ""
            if cpu == "TI" and not tifeat:
                tifeat = pfeat
            if cpu == "TI" and not tifeat:
                # known TI root cause: a completion (in the reference run) on a boundary of the period of the host's profile
                for e in execs.values():
                    per = (plat_hosts[e["host"]].get("speed_profile") or {}).get("period", -1)
                    if per and per > 0 and e["finish"] > 0 and abs(e["finish"] / per - round(e["finish"] / per)) < 1e-9 and round(e["finish"] / per) >= 1:
                        tifeat = ":completion-at-period-boundary"
            labels.add("cpu:" + cpu)
            labels.add("net:" + net)
            sc2, _, _ = self.scenario(case, cpu, net)
            run = model.run(sc2, cpu=30, wall=300)
            oc.evals += 1
            if run.wall_exceeded:
                raise core.Inconclusive()
            name = "%s/%s" % (cpu, net)
            if not run.done:
                oc.bad(model.crash_sig(run) + ":" + ("TI" if cpu == "TI" else "non-TI") + feature,
                       "configuration %s did not finish (the default one does): %s" % (name, run.crash_text()))
                break
            vops = {(o["a"], o["i"]): o for o in run.ops()}
            rdates = sorted(set([0.0] + [o["t_ret"] for o in rops.values() if o["t_ret"] is not None]))
            worst = None
            for key, o in sorted(rops.items()):
                v = vops.get(key)
                if v is None or (v["t_ret"] is None) != (o["t_ret"] is None) or v.get("exc") != o.get("exc"):
                    oc.bad("outcome-differs:" + cfgclass + feature + tifeat, "operation %r of %s: default configuration %r, %s %r"
                           % (o["op"], key[0], o, name, v))
                    break
                if o["t_ret"] is None:
                    continue
                # every simulation step shorter than precision/timing (a sleep of 1e-255 s lasts one precision quantum) may be
                # rounded by each update algorithm in its own direction (TI credits no progress for it, Lazy ends 1e-9 early where Full ends
                # 2e-9 late): each run is uncertain by (1 + number of such steps) quanta, the difference of two runs by twice that
                tiny = sum(1 for x, y in zip(rdates, rdates[1:]) if y <= o["t_ret"] and y - x < 2 * model.PREC_T)
                tol = 2 * (1 + tiny) * model.PREC_T + 1e-12 * abs(o["t_ret"])
                d = abs(v["t_ret"] - o["t_ret"])
                if d > tol and (worst is None or d > worst[0]):
                    worst = (d, key, o, v)
                    break
            if worst:
                d, key, o, v = worst
                kinds = sorted(set(c["what"] for c in ctls))
                cls = cfgclass + feature + tifeat
                oc.bad("dates-differ:" + cls, "operation #%d %r of actor %s returns at %r under the default configuration (Lazy/Lazy) and at %r under %s "
                       "(difference %.3g s); first operation in program order of that actor that differs; controls used: %r"
                       % (key[1], o["op"], key[0], o["t_ret"], v["t_ret"], name, d, kinds))
                break
        oc.labels = sorted(labels)
        oc.nontrivial = maxchg >= 3 or (("speed-profile" in labels or "bw-profile" in labels) and maxchg >= 1)
        return oc


PROP = C19()
