"""C49 Parallel map (simgrid::xbt::Parmap) processes each element exactly once per apply."""
from hypothesis import strategies as st

from .. import core

DRIVER = "parmap_driver"
MODES = ["futex", "posix", "busy_wait", "default"]


@st.composite
def parmap_case(draw, tier):
    threads = draw(st.sampled_from([1, 2, 2, 3, 3, 4, 4, 5, 6, 7, 8, 8, 12, 15, 16, 16]))
    mode = draw(st.sampled_from(["futex", "futex", "posix", "posix", "busy_wait", "busy_wait", "default"]))
    factory = draw(st.sampled_from(["raw", "raw", "raw", "thread", "thread", "boost"]))
    napplies = draw(st.integers(1, 20))
    inject = threads >= 2 and draw(st.sampled_from([True, False]))
    if inject:      # a few small applies: some workers stay idle (asleep) while one element is slow
        napplies = draw(st.integers(1, 8))
    applies = []
    budget = 60_000_000 if tier == "quick" else 120_000_000      # total busy iterations of one pass over the applies
    for _ in range(napplies):
        n = draw(st.one_of(st.sampled_from([0, 1, 2, max(0, threads - 1), threads, threads + 1, 2 * threads, 100, 499, 500]),
                           st.integers(0, 500)))
        if inject and draw(st.sampled_from([True, True, False])):
            n = draw(st.integers(1, threads + 1))
        steal = draw(st.sampled_from([0, 0, 1, 2, -1, -1]))
        spin = draw(st.sampled_from([0, 0, 50, 2000, 20000, 200000]))
        while n * spin > budget // napplies and spin > 0:
            spin //= 10
        ap = [n, steal, spin]
        # injected-fault class: slow elements whose processing thread sends non-round wake-ups (EINTR) to the other workers
        if inject and n > 0 and draw(st.sampled_from([True, True, False])):
            slow = []
            poss = sorted(set(draw(st.lists(st.integers(0, min(n, threads + 1) - 1), min_size=1, max_size=3))))
            for pos in poss:
                slow.append([pos, draw(st.sampled_from([200000, 1000000, 3000000, 6000000])), draw(st.integers(0, 8))])
            ap.append(slow)
        applies.append(ap)
    reps = draw(st.integers(1, 3)) if tier == "quick" else draw(st.sampled_from([5, 10, 20, 50]))
    return {"mode": mode, "threads": threads, "factory": factory, "reps": reps, "applies": applies}


class C49(core.Prop):
    id = "C49"
    drivers = [DRIVER]
    sizes = {"quick": 160, "thorough": 1500}
    max_workers = 4
    flaky_ok = True
    ready = True
    technique = ("property-based testing (Hypothesis) of configurations and apply sequences on a real Parmap with OS threads; "
                 "per-element atomic counters as the exactly-once oracle; repetition, since the schedule belongs to the OS")
    rule = ("A case creates ONE Parmap<int> (threads in 1..16, synchronisation futex/posix/busy_wait/default, context factory "
            "raw/thread/boost for the workers' contexts) and runs 1-20 apply() calls on vectors of 0..500 elements "
            "(sizes drawn around 0, 1, #threads-1, #threads, #threads+1, 500), the whole sequence repeated 1-3 times (thorough: "
            "5-50 times) on the same object.  The applied function counts its element and then calls Parmap::next() 0, 1, 2 times or "
            "until exhaustion (the work-stealing pattern of SwappedContext::suspend), with 0..200000 busy iterations per element "
            "to vary the interleaving.  Injected-fault class (half of the cases with >= 2 threads): 1-3 'slow elements' (0.2-6 M extra iterations) "
            "whose processing thread sends 0-8 signals (no-op handler WITHOUT SA_RESTART, tgkill) to every other worker thread at "
            "regular moments of its work: a worker sleeping in futex_wait() returns with EINTR although no round started, which "
            "futex(2) allows at any time (posix: pthread_cond_wait restarts; busy_wait: nothing to interrupt).  Oracle: when apply() returns every counter is exactly 1 and no value outside the vector was "
            "delivered; after the Parmap is destroyed (workers joined) no counter has changed since its apply() returned; the "
            "run ends (a watchdog inside the driver reports a deadlock only when nothing progresses while every thread of the "
            "process sleeps).  NON-TRIVIAL: >= 2 applies with more elements than threads and >= 2 threads; label "
            "'parallel' = at least one apply in which >= 2 OS threads each processed an element.  Distinct = distinct canonical JSON.")
    assumptions = ["the interleaving of the worker threads is chosen by the OS: a schedule-dependent defect may survive; failures "
                   "found are reported even when they do not reproduce (flaky_ok)",
                   "no timing is ever used as a verdict; a CPU-budget overrun counts only when it repeats on an immediate re-run "
                   "(busy_wait spinning forever), a wall-clock overrun is inconclusive",
                   "TSan cannot be used (SimGrid's user-level contexts are not TSan-aware in this build)"]

    def strategy(self, tier):
        return parmap_case(tier)

    def fixed_cases(self, tier):
        res = []
        for mode in ("futex", "posix", "busy_wait"):
            for threads in (1, 2, 16):
                res.append({"mode": mode, "threads": threads, "factory": "raw", "reps": 2,
                            "applies": [[0, 0, 0], [1, 0, 0], [threads, -1, 2000], [500, 0, 2000], [500, -1, 20000],
                                        [threads + 1, 1, 200000], [0, -1, 0], [37, 2, 50]]})
        # injected non-round wake-ups: all three modes (harmless for posix / busy_wait), 2..8 threads, with and without slow elements
        for mode in ("futex", "futex", "posix", "busy_wait", "default"):
            for threads in (2, 3, 4, 8):
                res.append({"mode": mode, "threads": threads, "factory": "raw", "reps": 3,
                            "applies": [[min(3, threads), 0, 0, [[0, 300000, 0], [1, 4000000, 6]]],
                                        [2, 0, 0, [[0, 200000, 0], [1, 3000000, 4]]],
                                        [500, -1, 100],
                                        [threads, 1, 0, [[threads - 1, 3000000, 5]]],
                                        [threads + 1, 0, 2000]]})
        return res

    def check(self, case):
        oc = core.Outcome()
        r = core.serve(DRIVER, case, cpu=240, wall=600)
        oc.evals = 1
        if r.wall_exceeded:
            raise core.Inconclusive()
        if r.cpu_exceeded:
            r2 = core.serve(DRIVER, case, cpu=240, wall=600)
            oc.evals = 2
            if r2.wall_exceeded:
                raise core.Inconclusive()
            if not r2.cpu_exceeded:
                raise core.Inconclusive()
            oc.bad("nontermination:" + case["mode"], "the run exceeded 240 s of CPU twice (typical: < 3 s): some thread spins forever; "
                   "last output: %s" % r2.out[-300:])
            return oc
        outs = r.json_lines()
        mode = case["mode"]
        threads = case["threads"]
        labels = {"mode:" + mode, "factory:" + case["factory"],
                  "threads:" + ("1" if threads == 1 else "2-4" if threads <= 4 else "5-8" if threads <= 8 else "9-16")}
        if any(o.get("livelock") for o in outs):
            # 120 s of CPU burnt without any progress; confirmed by one immediate re-run (extreme starvation is conceivable)
            r2 = core.serve(DRIVER, case, cpu=240, wall=600)
            oc.evals = 2
            if r2.wall_exceeded or not (r2.cpu_exceeded or any(o.get("livelock") for o in r2.json_lines())):
                raise core.Inconclusive()
            oc.bad("nontermination:" + mode, "twice, the process burnt 120 s of CPU without completing a single element or apply() "
                   "(threads=%d, after %d apply() calls): threads spin on a condition that never becomes true; output tail: %s"
                   % (threads, sum(1 for o in outs if "a" in o), r.out[-300:]))
            oc.labels = sorted(labels)
            return oc
        if any(o.get("deadlock") for o in outs):
            oc.bad("deadlock:" + mode, "no progress while every thread of the process sleeps (threads=%d, after %d apply() calls): a "
                   "wake-up was lost; output tail: %s" % (threads, sum(1 for o in outs if "a" in o), r.out[-300:]))
            oc.labels = sorted(labels)
            return oc
        total = len(case["applies"]) * case.get("reps", 1)
        done = bool(outs) and outs[-1].get("done") is True
        if r.rc != 0 or not done or len(outs) != total + 2:
            oc.bad("driver-crash:" + mode, "parmap_driver rc=%s after %d of %d applies; stderr tail: %s"
                   % (r.rc, sum(1 for o in outs if "a" in o), total, r.err[-1500:]))
            oc.labels = sorted(labels)
            return oc
        parallel = 0
        big = 0
        for o in outs[:total]:
            spec = case["applies"][o["a"] % len(case["applies"])]
            n, steal, spin = spec[:3]
            slow = spec[3] if len(spec) > 3 else None
            where = "apply #%d (n=%d, next()-calls=%d, spin=%d%s) on a Parmap of %d threads, mode %s" % (
                o["a"], n, steal, spin, (", slow elements [index, iterations, wake-ups sent to the other workers] %s" % slow) if slow else "",
                threads, mode)
            if slow:
                labels.add("slow-element")
                if any(k > 0 for _, _, k in slow):
                    labels.add("wakeup-injection")
                    labels.add("wakeup-injection:" + mode)
                    if o.get("kicks", 0) > 0:
                        labels.add("wakeup-delivered")
                        labels.add("wakeup-delivered:" + mode)
                        if n <= threads:
                            labels.add("wakeup-delivered:some-worker-idle:" + mode)
            if o["nlost"]:
                oc.bad("lost-element:" + mode, "%s: %d elements were not processed when apply() returned, e.g. indices %s"
                       % (where, o["nlost"], o["lost"]))
            if o["ndup"]:
                oc.bad("duplicated-element:" + mode, "%s: %d elements were processed more than once, e.g. %s" % (where, o["ndup"], o["dup"]))
            if o["bad"]:
                oc.bad("out-of-range-element:" + mode, "%s: %d values that are not in the vector were delivered" % (where, o["bad"]))
            if o["used"] >= 2:
                parallel += 1
            if n > threads:
                big += 1
            labels.add("n:" + ("0" if n == 0 else "1" if n == 1 else "<=threads" if n <= threads else "threads+1" if n == threads + 1
                               else ">threads"))
            labels.add("next:" + ("none" if steal == 0 else "until-exhausted" if steal < 0 else "bounded"))
        late = outs[total].get("late", [])
        if late:
            oc.bad("processed-after-apply-returned:" + mode, "counters changed after their apply() had returned "
                   "([apply, element, count at return, count at the end]): %s" % late)
        if parallel:
            labels.add("parallel")
        if parallel >= 3:
            labels.add("parallel>=3-applies")
        labels.add("applies:" + ("1" if total == 1 else "2-10" if total <= 10 else "11-60" if total <= 60 else ">60"))
        oc.nontrivial = threads >= 2 and big >= 2
        oc.labels = sorted(labels)
        oc.info = {"applies": total, "parallel_applies": parallel}
        return oc


PROP = C49()
