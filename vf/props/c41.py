"""C41 Reported counter-examples are real and replayable."""
import json

from hypothesis import strategies as st

from .. import core, mcrun, refsem, syncgen

REDUCTIONS = ["dpor", "sdpor", "odpor"]


class C41(core.Prop):
    id = "C41"
    drivers = ["s4u_interp"]
    ready = True
    sizes = {"quick": 24, "thorough": 300}
    max_workers = 6
    technique = ("property-based testing (Hypothesis): every counter-example path reported by simgrid-mc on generated programs is "
                 "replayed out of the checker (round trip) and its failing state compared with the reference explorer")
    rule = ("Synchronisation programs as in C38 (2-3 actors x <=6 operations; mutexes with try_lock, semaphores, condition variables, "
            "barriers, mailboxes, MC_random) plus MC_assert operations on try_lock results, biased so that a failure (deadlock or failed "
            "assertion) is reachable; each is explored by simgrid-mc with one drawn reduction of {dpor, sdpor, odpor, none} and max-errors:-1. "
            "Oracle, for every reported counter-example (at most 6 per program): the application run OUT of the checker with "
            "--cfg=model-check/replay:<path> accepts the whole path and ends in the same kind of failure (DEADLOCK detected / MC assertion "
            "failed), twice with identical output; for a deadlock the set of blocked actors is the blocked set of a deadlock that the "
            "reference explorer reaches, for an assertion the reference reaches a failed assertion. A program for which the reference has no "
            "reachable failure must not get any counter-example. "
            "Non-trivial: a counter-example of >=6 transitions involving >=2 actors was replayed.")
    assumptions = ["udpor not exercised (see C38)", "the reference explorer is validated against reduction none by C38"]

    def strategy(self, tier):
        big = tier == "thorough"
        prog = syncgen.programs(kinds=("mutex", "sem", "cond", "barrier", "mailbox", "random", "assert", "tick"), max_actors=3,
                                max_ops=8 if big else 6, mc=True, max_mutex=2, max_sem=1, max_cond=1, max_bar=1, profile="contention")
        # programs centred on multi-valued transitions (MC_random) and assertions on their values: counter-example paths that mix
        # default and non-default choices ("2/1;2;1"), which the path printer / parser must carry faithfully
        rnd = syncgen.programs(kinds=("random", "random", "assert", "mutex", "tick"), max_actors=2, max_ops=5, mc=True, max_mutex=1,
                               profile="contention")
        return st.tuples(st.one_of(prog, prog, rnd), st.sampled_from(REDUCTIONS + ["none"])).map(
            lambda t: {"program": t[0], "reduction": t[1]})

    def check(self, case):
        oc = core.Outcome()
        sc = case["program"]
        red = case["reduction"]
        try:
            ex = refsem.explore(sc, "mc", max_states=100000)
        except refsem.TooBig:
            oc.invalid = True
            return oc
        if red == "none" and ex.npaths > 500:
            red = "dpor"
        random_below_root = any(op[0] == "mc_random" and i > 0 for a in sc["actors"] for i, op in enumerate(a["ops"]))
        if red == "odpor" and random_below_root:
            red = "sdpor"       # known finding of C38: odpor does not terminate there
        res = mcrun.run(sc, red, cpu=40, wall=1200)
        oc.evals = 1
        if res.r.wall_exceeded or res.load_failure:
            raise core.Inconclusive()
        if res.no_transition:
            return oc
        if res.crashed:
            oc.labels.append("checker-crash")      # C38's business; nothing to replay
            return oc
        ref_dl = {tuple(sorted(json.loads(t)["blocked"])) for t in ex.deadlocks}
        oc.labels.append(red)
        if not ref_dl and not ex.assert_fail:
            oc.labels.append("no-reachable-failure")
            if res.counter_examples:
                oc.bad("spurious-counter-example:" + red, "the reference explorer reaches no failure but reduction %s reports %d "
                       "counter-example(s), e.g. %s" % (red, len(res.counter_examples), res.counter_examples[0]))
            return oc
        seen = set()
        longest = 0
        for kind, path in res.counter_examples:
            if path in seen or len(seen) >= 6:
                continue
            seen.add(path)
            r1, v1, b1 = mcrun.replay(sc, path)
            r2, v2, b2 = mcrun.replay(sc, path)
            oc.evals += 2
            if r1.wall_exceeded or r2.wall_exceeded:
                raise core.Inconclusive()
            where = "reduction %s reported a %s with replay path '%s'" % (red, kind, path)
            if (r1.out, r1.err, r1.rc) != (r2.out, r2.err, r2.rc):
                oc.bad("replay-nondeterministic", "%s: two replays differ" % where)
            if v1 != kind:
                oc.bad("replay-does-not-fail-the-same-way:" + str(kind), "%s: out of the checker the path ends as '%s' (blocked: %s); tail:\n%s"
                       % (where, v1, b1, (r1.err + r1.out)[-700:]))
                continue
            if kind == "deadlock" and tuple(b1) not in ref_dl:
                oc.bad("counter-example-not-reachable", "%s: the replay deadlocks with blocked actors %s, the reference reaches deadlocks "
                       "with blocked sets %s only" % (where, b1, sorted(ref_dl)))
            if kind == "assertion" and not ex.assert_fail:
                oc.bad("counter-example-not-reachable", "%s: the reference reaches no failed assertion" % where)
            steps = path.split(";")
            if len(steps) >= 6 and len({x.split("/")[0] for x in steps}) >= 2:
                longest = max(longest, len(steps))
        if seen:
            oc.labels.append("replayed")
        if ref_dl:
            oc.labels.append("ref-deadlock")
        if ex.assert_fail:
            oc.labels.append("ref-assertion")
        oc.nontrivial = longest >= 6
        return oc


PROP = C41()
