"""C39 Declared-independent transitions commute."""
import json
import os

from hypothesis import strategies as st

from .. import core, mcprog, peek, syncgen

KINDS = [("mutex",), ("sem",), ("mutex", "sem"), ("cond",), ("mutex", "cond"), ("barrier",), ("mailbox",), ("mutex", "mailbox"),
         ("sem", "barrier"), ("mutex", "sem", "cond", "barrier", "mailbox", "random"), ("random", "mutex"), ("sem", "mailbox")]


class C39(core.Prop):
    id = "C39"
    drivers = ["mc_peek"]
    ready = True
    max_workers = 6
    sizes = {"quick": 300, "thorough": 20000}
    technique = ("property-based testing (Hypothesis): metamorphic relation on real kernel states - a pair of co-enabled transitions "
                 "that the checker declares independent must commute (both orders executable, same state fingerprint)")
    rule = ("Hypothesis-generated synchronisation programs (vf/syncgen.py, model-checker subset: mutexes incl. recursive and try_lock, "
            "semaphores, condition variables incl. timed waits, barriers, blocking mailbox put/get, MC_random; 2-5 actors, <=10 "
            "operations each; 4 cases in 10 from mcprog.condvar_programs: 2-3 condition variables on 1-2 mutexes, waiters on different condvars, timed "
            "waits, signal/broadcast, lockers of the shared mutex; 2 in 10 from mcprog.shared_object_programs: every actor on the same mutex / "
            "semaphore / barrier / mailbox; 2 in 10 asynchronous comms with wait/test and iprobe) run by mc_peek the way an application runs under the checker; a generated schedule prefix p (each step "
            "picks one of the currently enabled actors) leads to a state s; for EVERY ordered pair (a, b) of actors enabled in s (and "
            "every alternative of multi-valued transitions) a forked copy executes a then b.  The checker-side transitions are rebuilt "
            "from the serialized observers exactly as AppSide/RemoteApp do.  Dependency is evaluated on executed transitions, in the "
            "(the pairs are taken in EVERY state along the prefix, pairs of one family (mutex+condvar, semaphore, barrier, comm) in every state, the other pairs in the last state, each pair of pending simcalls once, at most 30 branches per case) three ways the explorers use it: t_a[p.a] vs t_b[p.a.b] (execution order), t_b[p.b] vs t_a[p.b.a], and t_a[p.a] vs "
            "t_b[p.b] (b executed alone from s: what a sleep set compares).  Whenever one of them is 'independent': b is still "
            "enabled after a and a after b, and the fingerprints of the kernel state after p.a.b and p.b.a are equal (mutex "
            "owner/depth/queue, semaphore value/queue, condvar and barrier queues, mailbox queues, every actor's program counter "
            "and observations; no allocation-order dependent ids).  depends() must be symmetric on every pair evaluated.  "
            "Non-trivial: a pair declared independent although both transitions touch the same object, or an ASYNC request next "
            "to a WAIT.  Distinct = distinct canonical JSON.")
    assumptions = ["the state fingerprint covers the synchronisation objects of the scenario, the asynchronous handles and the actors' "
                   "observations; simulated time (per-actor MC clocks) is not part of it",
                   "transitions are compared as the checker holds them after execution (refreshed content), not as pending ones"]

    def strategy(self, tier):
        @st.composite
        def cases(draw):
            which = draw(st.sampled_from(["cv", "cv", "cv", "cv", "shared", "shared", "comm", "comm", "sync", "sync"]))
            if which == "cv":          # several condvars on one mutex, waiters on different condvars, timed waits, notifiers, lockers
                sc = draw(mcprog.condvar_programs())
            elif which == "shared":    # everybody on the same mutex / semaphore / barrier / mailbox
                sc = draw(mcprog.shared_object_programs())
            elif which == "comm":      # asynchronous comms (wait/test), iprobe
                # (not the "actors" programs: the interpreter's join-by-name looks the target up in the actor table outside any
                # visible simcall, so its answer depends on the schedule in a way the checker cannot know: outside the domain)
                _, sc = draw(mcprog.programs(kind=draw(st.sampled_from(["comm-async", "comm-async", "iprobe"]))))
            else:
                kinds = draw(st.sampled_from(KINDS))
                sc = draw(syncgen.programs(kinds=kinds, max_actors=4 if tier == "quick" else 5, max_ops=8 if tier == "quick" else 10, mc=True,
                                           max_mutex=draw(st.sampled_from([1, 2, 3])), max_sem=draw(st.sampled_from([1, 2])), max_cond=3))
            n = draw(st.sampled_from([6, 8, 10, 12, 16, 20] if which == "cv" else [1, 2, 3, 4, 6, 8, 10, 14, 20]))
            picks = draw(st.lists(st.tuples(st.integers(0, 5), st.integers(0, 2)), min_size=n, max_size=n))
            # lazy prefix: completions (WAIT, test) are postponed as long as another actor can move, so that several of them are
            # enabled together (two CONDVAR_WAIT, two MUTEX_WAIT, COMM_WAIT next to COMM_TEST...)
            lazy = draw(st.sampled_from([0, 1, 1, 1] if which == "cv" else [0, 0, 1]))
            return {"scenario": sc, "picks": [list(p) for p in picks], "lazy": lazy}
        return cases()

    def fixed_cases(self, tier):
        if os.environ.get("VF_NO_FIXED"):
            return []
        return FIXED

    def check(self, case):
        oc = core.Outcome()
        lazy = bool(case.get("lazy"))
        req = {"scenario": case["scenario"], "schedule": [{"pick": k, "tc": j, "lazy": lazy} for k, j in case["picks"]], "branches": "pairs",
               "solo": True, "dump": "none", "every": True, "related_only_before_end": True, "maxbranches": 30, "fields": True}
        p = peek.run(req)
        if p.r.wall_exceeded:
            raise core.Inconclusive()
        if not p.done:
            oc.bad("driver-crash", "mc_peek did not finish: " + p.crash_text())
            return oc
        npre = len(p.of("exec"))
        stuck = bool(p.of("stuck"))
        oc.labels.append("prefix=%d" % npre if npre < 4 else "prefix<=8" if npre <= 8 else "prefix>8")
        if stuck:
            oc.labels.append("prefix-ends-program")
        crashed = p.of("branch_crash")
        if crashed:
            oc.bad("branch-crash", "a branch of mc_peek crashed: %s; stderr tail: %s" % (crashed, p.r.err[-1500:]))
            return oc
        # symmetry on the pending transitions of the last state
        for st0 in p.of("state")[-1:]:
            dep0 = st0["dep"]
            for i in range(len(dep0)):
                for j in range(len(dep0)):
                    if i != j and dep0[i][j] != dep0[j][i]:
                        oc.bad("depends-asymmetric", "pending transitions %s and %s: depends = %s one way, %s the other"
                               % (st0["actors"][i]["pending"][0]["chk"], st0["actors"][j]["pending"][0]["chk"], dep0[i][j], dep0[j][i]))
        # branches, by state of the prefix and ordered pair
        nontrivial = False
        npairs = 0
        for at, first, blist in p.branch_groups:
            runs = {}
            for k, br in enumerate(blist):
                runs[(tuple(br[0]), tuple(br[1]))] = self.read_branch(p.branches.get(first + k, []), npre, oc)
            seen = set()
            for (a, b), rab in runs.items():
                if (b, a) in seen or (b, a) not in runs:
                    continue
                seen.add((a, b))
                rba = runs[(b, a)]
                if rab is None or rba is None:
                    continue
                npairs += 1
                nontrivial = self.judge(oc, a, b, rab, rba, at) or nontrivial
                if len(oc.violations) > 8:
                    break
        oc.labels.append("pairs=0" if npairs == 0 else "pairs<=5" if npairs <= 5 else "pairs<=15" if npairs <= 15 else "pairs>15")
        oc.nontrivial = nontrivial
        return oc

    @staticmethod
    def read_branch(lines, npre, oc):
        solo = next((l for l in lines if l.get("k") == "solo"), None)
        execs = [l for l in lines if l.get("k") == "exec"]
        errs = [l for l in lines if l.get("k") == "error"]
        states = [l for l in lines if l.get("k") == "state"]
        final = next((l for l in lines if l.get("k") == "final"), None)
        if solo is None or final is None or not any(l.get("k") == "branch_done" for l in lines):
            oc.bad("driver-branch", "incomplete branch output: %s" % [l.get("k") for l in lines])
            return None
        if not solo["a_done"] or not execs:
            oc.bad("driver-branch", "the first transition of a branch, enabled in the state dump, could not be executed: %s" % errs)
            return None
        fp = states[-1].get("fp") if len(execs) > 1 and states else None
        if fp is not None:
            # the arrival order inside a barrier is not part of the state: the whole group is released at once and, under the model
            # checker, Barrier::wait() answers false to everybody (BarrierImpl::acquire_async, s4u_Barrier.cpp)
            for b in fp["barrier"]:
                b["q"] = sorted(b["q"])
        res = {"solo": solo, "ta": execs[0], "tb": execs[1] if len(execs) > 1 else None, "err": errs[0] if errs else None,
               "final": final, "fp": fp}
        n = final["n"]
        dep = final["dep"]
        for i in range(n):
            for j in range(n):
                if dep[i][j] != dep[j][i]:
                    oc.bad("depends-asymmetric", "executed transitions #%d and #%d of a branch (actors %s): depends = %s one way, %s the other"
                           % (i, j, final["aid"], dep[i][j], dep[j][i]))
        if "dep_ab" in solo and solo["dep_ab"] != solo["dep_ba"]:
            oc.bad("depends-asymmetric", "%s / %s: depends = %s one way, %s the other" % (solo["chk_a"], solo["chk_b"], solo["dep_ab"], solo["dep_ba"]))
        res["d_exec"] = (dep[n - 2][n - 1] == "1") if res["tb"] is not None and n >= 2 else None
        res["d_solo"] = solo.get("dep_ab")
        return res

    def judge(self, oc, a, b, rab, rba, at=None):
        """a, b = (aid, times_considered).  Returns whether the pair is a non-trivial one."""
        ta, tb = rab["ta"], rba["ta"]          # each executed first from s
        desc = "after %s steps, actor %d: %s  /  actor %d: %s" % (at, a[0], ta["chk"], b[0], tb["chk"])
        evals = []      # (how, value)
        if rab["d_exec"] is not None:
            evals.append(("depends(t_a[p.a], t_b[p.a.b])", rab["d_exec"]))
        if rba["d_exec"] is not None:
            evals.append(("depends(t_b[p.b], t_a[p.b.a])", rba["d_exec"]))
        if rab["d_solo"] is not None:
            evals.append(("depends(t_a[p.a], t_b[p.b])", rab["d_solo"]))
        if rba["d_solo"] is not None:
            evals.append(("depends(t_b[p.b], t_a[p.a])", rba["d_solo"]))
        indep = [how for how, v in evals if v is False]
        fam = sorted({x[0] for x in peek.objects_of(ta["chk"])} | {x[0] for x in peek.objects_of(tb["chk"])}) or ["other"]
        oc.labels.append("pair-" + "+".join(fam))
        oc.labels.append(self.pair_class(ta, tb) + (":indep" if indep else ":dep"))
        if not indep:
            oc.labels.append("pair-dependent")
            return False
        oc.labels.append("pair-independent")
        b_after_a = rab["tb"] is not None
        a_after_b = rba["tb"] is not None
        if not b_after_a or not a_after_b:
            who = ("actor %d is no longer executable after actor %d (%s)" % (b[0], a[0], rab["err"])) if not b_after_a else \
                  ("actor %d is no longer executable after actor %d (%s)" % (a[0], b[0], rba["err"]))
            oc.bad("independent-but-disables:" + self.kind_sig(ta, tb),
                   "%s are declared independent [%s = false] but %s" % (desc, indep[0], who))
        elif rab["fp"] != rba["fp"]:
            oc.bad("independent-but-different-state:" + self.kind_sig(ta, tb),
                   "%s are declared independent [%s = false] but the two orders lead to different states: %s"
                   % (desc, indep[0], self.fp_diff(rab["fp"], rba["fp"])))
        else:
            oc.labels.append("commute-verified")
        if rab["d_exec"] is not None and rba["d_exec"] is not None and rab["d_exec"] != rba["d_exec"]:
            oc.labels.append("order-sensitive-depends")
        same_obj = bool(peek.objects_of(ta["chk"]) & peek.objects_of(tb["chk"]))
        async_wait = ("ASYNC" in ta["tname"] and "WAIT" in tb["tname"]) or ("WAIT" in ta["tname"] and "ASYNC" in tb["tname"])
        if same_obj:
            oc.labels.append("independent-same-object")
        return same_obj or async_wait

    @staticmethod
    def pair_class(ta, tb):
        """pair:<type>/<type>:<which object ids the two decoded transitions share> - the dependency rules key on exactly one id"""
        (na, fa), (nb, fb) = sorted([(ta["tname"], ta.get("chkf") or {}), (tb["tname"], tb.get("chkf") or {})], key=lambda x: x[0])
        rel = []
        for k in ("mutex", "cond", "sem", "barrier", "mbox", "comm"):
            if k == "comm" and not (na in ("COMM_WAIT", "COMM_TEST") and nb in ("COMM_WAIT", "COMM_TEST")):
                continue      # the comm id of a send/receive executed first in its own fork is the same number in both forks
            if k in fa and k in fb:
                rel.append(("same-" if fa[k] == fb[k] else "diff-") + k)
        return "pair:%s/%s:%s" % (na, nb, "-".join(rel) or "no-common-kind")

    @staticmethod
    def kind_sig(ta, tb):
        return "+".join(sorted([ta["tname"], tb["tname"]]))

    @staticmethod
    def fp_diff(f1, f2):
        out = []
        for k in sorted(set(f1) | set(f2)):
            if f1.get(k) != f2.get(k):
                out.append("%s: %s  vs  %s" % (k, json.dumps(f1.get(k), sort_keys=True)[:400], json.dumps(f2.get(k), sort_keys=True)[:400]))
        return "; ".join(out)


def _sc(objects, actors):
    return {"platform": {"hosts": [{"name": "h0", "speed": 1024.0, "cores": 8}]}, "objects": objects,
            "actors": [{"name": "a%d" % i, "host": "h0", "ops": ops} for i, ops in enumerate(actors)], "quiet": ["adv", "act"]}


FIXED = [
    # two timed waits on two condition variables protected by ONE mutex, lazy prefix: both CONDVAR_WAIT end up enabled together
    {"scenario": _sc({"mutex": [{"recursive": False}], "cond": [0, 0]},
                     [[["lock", 0], ["cv_wait_for", 0, 1.0], ["unlock", 0]], [["lock", 0], ["cv_wait_for", 1, 1.0], ["unlock", 0]],
                      [["lock", 0], ["notify_one", 0], ["unlock", 0]]]),
     "picks": [[0, 0]] * 10, "lazy": 1},
    {"scenario": _sc({"mutex": [{"recursive": False}], "sem": [1]},
                     [[["lock", 0], ["sleep", 0.5], ["unlock", 0]], [["lock", 0], ["acquire", 0], ["unlock", 0]], [["acquire", 0], ["release", 0]]]),
     "picks": [[0, 0], [1, 0]]},
    {"scenario": _sc({"mailbox": 1}, [[["put", 0, 0, {}]], [["put", 0, 0, {}]], [["get", 0, {}], ["get", 0, {}]]]), "picks": [[0, 0]]},
    {"scenario": _sc({"sem": [0]}, [[["acquire", 0]], [["release", 0]], [["release", 0], ["acquire", 0]]]), "picks": []},
]

PROP = C39()
