"""C06 Condition variable semantics."""
from .c04 import SyncProp


class C06(SyncProp):
    id = "C06"
    kinds = ("cond",)
    sizes = {"quick": 1500, "thorough": 20000}
    ready = True
    nontrivial_labels = ("notify_one-with>=2-waiters", "notify_all-with>=2-waiters", "notify-at-deadline", "cv-relock-queues",
                         "cv-timeout")
    technique = ("property-based testing (Hypothesis): generated wait/wait_for/notify programs run on the real kernel, their "
                 "kernel-ordered log replayed through a sequential condition-variable + mutex specification (exact dates)")
    rule = ("Programs of 2-5 actors x <=10 operations over 1-2 condition variables, each with its own plain mutex: lock; wait | wait_for(t); "
            "get_owner; unlock blocks, notify_one / notify_all with and without the mutex held, dyadic sleeps (multiples of 1/4 s). "
            "Oracle: sequential specification: wait releases the mutex and queues; notify_one moves the LONGEST waiter (or is lost), "
            "notify_all moves exactly the waiters queued at that moment; a notified or timed-out waiter then re-locks the mutex through the "
            "mutex specification, so it returns only at the date it owns the mutex again (get_owner right after return must name it); wait_for "
            "reports a timeout iff it was not notified before t_call+t. A notify at the very date of the deadline is a tie left open by the "
            "statement (the waiter's observation selects the branch). wait_for(0) is an undocumented special case: labelled, only safety asserted. "
            "Non-trivial: a notify with >=2 waiters, a timeout, a notify at the deadline, or a woken waiter that has to queue for the mutex.")
    assumptions = ["sequential runs (contexts/nthreads:1)", "condition variables are only used with plain (non-recursive) mutexes"]


PROP = C06()
