"""C34 RMA windows behave like shared memory under their locks."""
import os

from hypothesis import strategies as st

from .. import core, mpi2, rma

accop = st.fixed_dictionaries({"f": st.sampled_from(["acc", "getacc", "fop", "cas"])},
                              optional={"op": st.sampled_from(rma.OPS), "v": st.integers(0, 40), "noop": st.booleans(), "j": st.integers(0, 2),
                                        "hit": st.integers(0, 2)})

raceop = st.fixed_dictionaries({}, optional={"f": st.integers(0, 3), "cmp": st.integers(0, 3), "noop": st.booleans(), "ga": st.booleans()})

plan = st.fixed_dictionaries({"t": st.sampled_from([0, 0, 0, 1, 1, 2, 3]), "i": st.sampled_from([0, 0, 0, 1, 1, 2, 3, 5, 7]),
                              "kind": st.sampled_from(["put", "get", "accseq", "accseq", "accmulti", "putget", "rmw", "bulkput", "bulkget", "race", "race", "race"])},
                             optional={"c": st.integers(1, 3), "o": st.lists(st.integers(0, 3), min_size=1, max_size=4), "v": st.integers(0, 40),
                                       "ops": st.lists(accop, min_size=1, max_size=4), "op": st.sampled_from(rma.COMMUTATIVE),
                                       "order": st.integers(0, 1), "fl": st.integers(0, 1), "req": st.booleans(),
                                       "fam": st.sampled_from(["cas", "cas", "op"]), "delays": st.lists(st.integers(0, 3), min_size=1, max_size=4),
                                       "rops": st.lists(st.lists(raceop, min_size=1, max_size=2), min_size=1, max_size=4)})

round_ = st.fixed_dictionaries({"mode": st.sampled_from(["fence", "lock", "lock", "lock", "lockall", "lockall", "lockshared", "lockshared"]),
                                "plans": st.one_of(st.lists(plan, min_size=1, max_size=2), st.lists(plan, min_size=1, max_size=6))},
                               optional={"picks": st.lists(st.integers(0, 5), min_size=1, max_size=6), "chain": st.booleans(), "a0": st.booleans(),
                                         "a1": st.booleans(), "fa": st.booleans(), "req": st.booleans()})


@st.composite
def cases(draw, maxrounds):
    return {"np": draw(st.sampled_from([2, 2, 3, 3, 4])), "W": draw(st.sampled_from([2, 3, 4, 6, 8])),
            "ty": draw(st.sampled_from(["UNSIGNED", "UNSIGNED", "UNSIGNED_LONG", "INT"])),
            "unit": draw(st.sampled_from(["elem", "byte"])), "bulk": draw(st.sampled_from([0, 0, 4096, 16384])), "alloc": draw(st.booleans()), "init": draw(st.integers(0, 20)),
            "rounds": draw(st.lists(round_, min_size=1, max_size=maxrounds))}


class C34(core.Prop):
    id = "C34"
    ready = True
    drivers = ["mpi2_interp"]
    sizes = {"quick": 400, "thorough": 12000}
    max_workers = 6
    technique = ("property-based testing (Hypothesis): generated RMA programs whose outcome MPI defines uniquely, compared with a "
                 "window-memory interpreter (window contents and fetched values after every epoch)")
    rule = ("A case = 2..4 ranks, one window of 2..8 integers per rank (MPI_UNSIGNED, MPI_UNSIGNED_LONG or MPI_INT; disp_unit = element "
            "size or 1; MPI_Win_create or MPI_Win_allocate) and <= 5 rounds.  A round has one synchronisation mode (fence..fence with "
            "optional NOPRECEDE/NOSUCCEED asserts and chained fences, exclusive lock/unlock per target, shared lock/unlock, lock_all/"
            "unlock_all) and <= 6 plans over pairwise disjoint element ranges: put (one origin), get (any origins), accseq (ONE origin: a "
            "sequence of Accumulate / Get_accumulate / Fetch_and_op / Compare_and_swap with any predefined op incl. REPLACE and NO_OP, "
            "ordered by MPI's same-origin accumulate ordering), accmulti (several origins, Accumulate with one commutative op), putget "
            "(passive modes: Put, Win_flush, Get or Get, flush, Put by one origin), rmw (exclusive-lock rounds: several origins each do Get, "
            "flush, Put(fetched + addend) inside their own exclusive epoch on one element: final value = sum, fetched values = partial sums "
            "of SOME serial order), race (>= 2 origins, preferably remote, issue 1-2 ATOMIC calls each on ONE element in the same epoch, with drawn "
            "simulated delays: Compare_and_swap with matching / chained / non-matching compare values + atomic reads, or ONE operation X "
            "through Accumulate / Get_accumulate / Fetch_and_op + NO_OP reads, i.e. what accumulate_ops=same_op_no_op allows; judged by "
            "LINEARIZABILITY: some sequential order respecting each origin's order must explain every fetched value and the final content; "
            "the element is left alone afterwards and must keep that content); request-based variants (Rput...) + Wait in passive "
            "rounds.  The calls of an origin towards one target are interleaved in a drawn order that keeps every plan's own order.  "
            "With a bulk area (4096 / 16384 extra elements after the small ones, described by the seed of a pattern): bulkput / bulkget of the "
            "whole area, long transfers that are still in flight when a broken synchronisation call returns.  After a fence round every "
            "rank reads its window AT ONCE; after a passive round: barrier, then the read inside an exclusive lock on itself; the fetched "
            "values are collected; barrier.  Oracle: interpreter over lists of integers (wrapping unsigned arithmetic; signed "
            "type restricted to small values, no PROD).  Non-trivial: two different origins update the same target element in "
            "successive (or concurrent, serialised by the lock) EXCLUSIVE lock epochs, or >= 2 origins race atomic calls on one element in a "
            "shared epoch (lock_all, shared locks, fence).  Distinct = distinct canonical JSON.")
    assumptions = ["conflicting accesses that MPI leaves undefined (Put/Get overlapping another access of the same epoch without a flush, "
                   "different ops or fetches from several origins on one element) are not generated",
                   "a local load of the window right after the closing fence / inside an exclusive self-lock after a barrier is a valid way "
                   "to observe it (unified memory model)",
                   "smpi/errors-are-fatal:no"]

    def strategy(self, tier):
        return cases(5 if tier == "quick" else 8)

    def fixed_cases(self, tier):
        if os.environ.get("VF_C34_NOFIXED"):       # sensitivity measurements of the generated part alone
            return []
        # a lonely long transfer per synchronisation mode: the target (resp. origin) has nothing else to wait for, so a
        # synchronisation call that returns before the transfer is complete shows at once
        res = []
        for np_ in (2, 3):
            for mode in ("fence", "lock", "lockshared", "lockall"):
                for kind in ("bulkput", "bulkget"):
                    for chain in (False, True):
                        if chain and mode != "fence":
                            continue
                        rounds = [{"mode": mode, "plans": [{"t": 0, "i": 0, "kind": kind, "o": [np_ - 1]}], "chain": chain}]
                        if chain:
                            rounds.append({"mode": "fence", "plans": [{"t": 1, "i": 0, "kind": "get", "o": [0]}]})
                        res.append({"np": np_, "W": 2, "ty": "UNSIGNED", "unit": "elem", "alloc": False, "init": 0, "bulk": 16384, "rounds": rounds})
        # atomic races: every remote origin does Compare_and_swap(compare = old value, new = its own value) on ONE element in a shared
        # epoch: exactly one may win; then the same with Fetch_and_op(SUM) and mixed fetch / read calls
        for np_ in (3, 4):
            for mode in ("lockall", "lockshared", "fence"):
                for fam, rops in (("cas", [[{}]]), ("cas", [[{}, {"f": 3}], [{"cmp": 2}, {}]]), ("op", [[{"f": 0}], [{"f": 1}], [{"f": 2}]])):
                    res.append({"np": np_, "W": 2, "ty": "UNSIGNED", "unit": "elem", "alloc": False, "init": 0, "bulk": 0,
                                "rounds": [{"mode": mode, "plans": [{"t": 0, "i": 1, "kind": "race", "o": list(range(1, np_)), "fam": fam,
                                                                      "rops": rops}]}]})
        return res

    def check(self, case):
        oc = core.Outcome()
        K, E = mpi2.consts()
        b = rma.Build(case)
        res = mpi2.run(b.driver_case(), cpu=60)
        oc.labels = sorted(b.labels | {"np=%d" % b.np, "ty:" + b.num.tname, "unit:" + case.get("unit", "elem"),
                                        "alloc" if case.get("alloc") else "create"})
        oc.nontrivial = b.nontrivial
        fail = res.failure()
        if fail:
            sig, msg = fail
            if sig == "bad-case":
                raise RuntimeError(msg)
            if res.crash is not None:
                sig = "crash:" + str(res.crash.get("op"))
            oc.bad(sig, msg + rma.describe(b, len(b.rma_index) - 1))
            return oc
        rma.judge(b, res, oc, E)
        return oc


PROP = C34()
