"""C08 Mailbox communications are exactly-once, FIFO and intact."""
import json

from .. import commgen, commspec, core, s4u


class CommProp(core.Prop):
    """shared by C08 and C09: run a generated communication program on the S4U interpreter, replay its kernel-ordered log
    through the sequential specification of vf/commspec.py"""
    drivers = ["s4u_interp"]
    max_workers = 6
    nontrivial_labels = ()

    def crash_sig(self, case, log):
        return "run-crashed"

    def check(self, case):
        oc = core.Outcome()
        log = s4u.run(case, cpu=20, wall=240)
        if log.wall_exceeded:
            raise core.Inconclusive()
        done = any(l.get("k") == "done" for l in log.lines)     # detached comms are cleaned (and logged) after it
        labels = set()
        if not done:
            sig = self.crash_sig(case, log)
            oc.bad(sig, "s4u_interp did not finish: " + log.crash_text())
            oc.labels = ["crash:" + sig]
            return oc
        viol, labels, tried = commspec.replay(case, log.lines)
        labels = set(labels)
        if viol is None:
            oc.invalid = True
            oc.info = {"ambiguous": "too many resolutions of timeout/cancel races (%d tried)" % tried}
            return oc
        if tried > 1:
            labels.add("resolutions>1")
        nops = sum(len(a["ops"]) for a in case["actors"])
        nreq = sum(1 for l in log.lines if l.get("k") == "req")
        labels.add("ops-executed:%s" % ("all" if nreq == nops else ">=50%" if 2 * nreq >= nops else "<50%"))
        seen = set()
        for sig, msg in viol:
            if (sig, msg) not in seen:
                seen.add((sig, msg))
                oc.bad(sig, msg)
        oc.labels = sorted(labels)
        oc.nontrivial = any(l in labels for l in self.nontrivial_labels)
        return oc


def has_op(case, names, pred=None):
    for a in case.get("actors", []):
        for op in a["ops"]:
            if op[0] in names and (pred is None or pred(op)):
                return True
    return False


class C08(CommProp):
    id = "C08"
    sizes = {"quick": 1500, "thorough": 60000}
    ready = True
    nontrivial_labels = ("pending-sends>=2", "pending-recvs>=2", "filter-skips-head", "perm-recv-from-done", "perm-done-filter-skips-head")
    technique = ("property-based testing (Hypothesis): generated mailbox programs run on the real kernel; their kernel-ordered log is "
                 "replayed through a sequential mailbox specification (model-based oracle on order and identity)")
    rule = ("Programs of 2-6 actors over 1-3 mailboxes on generated flat platforms (1-4 hosts; sharing-free, or 1-4 SHARED/FATPIPE/"
            "SPLITDUPLEX links combined into 1-3-link routes; CM02 or the default LV08 model; sizes 0..1e9, optional rates), built from a traffic "
            "plan plus unplanned operations: put, put with timeout, put_async, put_init(+start/wait/test), put_detach, get, get with timeout, "
            "get_async, filtered sends/receives (match functions on tag, wanted sender, wanted receiver; blocking through Comm::send/recv, "
            "asynchronous and detached through the raw isend/irecv simcalls like SMPI), wait / wait with timeout / wait_for_or_cancel / test / "
            "cancel / wait_any / test_any on handles, set_receiver (at once or late), sleeps on a 1/4 s grid, kernel-linearised dumps of the "
            "mailbox queues, Mailbox::iprobe with the same filters; every handle is finalised by an explicit wait or cancel. Oracle: the sequential specification driven by the log "
            "in request order (queue of unmatched comms in arrival order, a new comm takes the OLDEST queued opposite comm that both filters "
            "accept, permanent receivers store eager sends until a receive takes the oldest acceptable one): every successful receive must "
            "return the payload (sender, sequence number) of exactly the put the specification matched, intact, with the sent size and tag, "
            "never twice, never after its detached comm called the clean-up function; buffer-mode mailboxes (real bytes moved by a copy function, "
            "as SMPI does): received length = min(sent, capacity), bytes intact, nothing written beyond, one copy per message; per (sender, mailbox) "
            "the unfiltered messages are taken in send order (computed from the observations alone); iprobe answers the comm a matching operation "
            "would take; a send completes only if matched (or eager); a matched, "
            "never cancelled comm completes on both sides and does not fail; queue dumps equal the specification's queues; match functions "
            "are called with (own data, other side's data). Whether a timeout expires / a cancelled transfer had finished is taken from the "
            "log (dates are not decided here); the unlogged cancel that follows a timeout is resolved by angelic choice when requests "
            "coincide with it. Non-trivial: >=2 acceptable comms pending when the opposite one arrives, or a filter skips the head of the "
            "queue, or a permanent receiver takes a stored message.")
    assumptions = ["sequential runs (contexts/nthreads:1): the order of request records is the order in which the kernel handles them",
                   "completion dates are observations (platform model: C19-C23), only order and identity are decided",
                   "model-checker interleavings of the same programs are covered by C14/C38, not here",
                   "Mailbox::clear, kills, host/link failures and suspended actors are outside the domain"]

    def strategy(self, tier):
        return commgen.mailbox_programs(max_msgs=10 if tier == "quick" else 18)

    def fixed_cases(self, tier):
        """hand-written corners, each on a sharing-free and on a shared platform"""
        shared = {"hosts": [{"name": "h%d" % i, "speed": 1e9, "cores": 8} for i in range(3)],
                  "links": [{"name": "l0", "bw": 2048.0, "lat": 0.125, "policy": "SHARED"}, {"name": "l1", "bw": 1024.0, "lat": 0.0, "policy": "SHARED"}],
                  "routes": [{"src": "h0", "dst": "h1", "links": ["l0"]}, {"src": "h0", "dst": "h2", "links": ["l0", "l1"]},
                             {"src": "h1", "dst": "h2", "links": ["l1"]}]}
        plats = [(s4u.sharing_free_platform(3), list(s4u.SHARING_FREE_CFG)), (shared, [])]
        progs = []
        # three tagged sends pending, the receives pick them by tag in another order, then a wildcard
        progs.append((1, [
            [["fsend", 0, 1024, {"id": 0, "tag": 0, "h": 1}], ["fsend", 0, 512, {"id": 0, "tag": 1, "h": 2}], ["fsend", 0, 0, {"id": 0, "tag": 2, "h": 3}],
             ["fsend", 0, 2048, {"id": 0, "tag": 1, "h": 4}], ["fwait", 1, {}], ["fwait", 2, {}], ["fwait", 3, {}], ["fwait", 4, {}]],
            [["sleep", 0.5], ["mb_dump", 0], ["frecv", 0, {"id": 1, "tag": 1}], ["frecv", 0, {"id": 1, "tag": 2}], ["frecv", 0, {"id": 1, "tag": -1}],
             ["frecv", 0, {"id": 1, "tag": -1}], ["mb_dump", 0]]]))
        # three receives pending (different wanted senders), sends arrive later; sender-side filter on the receiver
        progs.append((1, [
            [["frecv", 0, {"id": 0, "tag": -1, "src": 2, "h": 1}], ["frecv", 0, {"id": 0, "tag": 1, "h": 2}], ["frecv", 0, {"id": 0, "tag": -1, "h": 3}],
             ["fwait", 3, {}], ["fwait", 2, {}], ["fwait", 1, {}]],
            [["sleep", 0.25], ["fsend", 0, 1024, {"id": 1, "tag": 0, "dst": -1}], ["fsend", 0, 1024, {"id": 1, "tag": 1, "dst": 0}]],
            [["sleep", 0.25], ["fsend", 0, 512, {"id": 2, "tag": 1, "dst": 5, "h": 8}], ["fsend", 0, 512, {"id": 2, "tag": 1, "dst": -1, "h": 9}], ["fwait", 9, {}],
             ["mb_dump", 0], ["fcancel", 8]]]))
        # plain FIFO with 4 pending puts of one sender and two receivers alternating
        progs.append((1, [
            [["put_async", 0, 1024, {}, 1], ["put_async", 0, 0, {}, 2], ["put_detach", 0, 512, {}], ["put_init", 0, 1, {}, 3], ["start", 3],
             ["wait", 3, {}], ["wait", 2, {}], ["wait", 1, {}], ["wait", 1, {}]],
            [["sleep", 0.5], ["get", 0, {}], ["get_async", 0, 11, {}], ["wait", 11, {}], ["wait", 11, {}], ["test", 11]],
            [["sleep", 0.5], ["get", 0, {}], ["get", 0, {}]]]))
        # permanent receiver: three eager sends stored, taken by filter out of order, then in order
        progs.append((1, [
            [["set_receiver", 0], ["sleep", 4], ["mb_dump", 0], ["frecv", 0, {"id": 0, "tag": 2}], ["frecv", 0, {"id": 0, "tag": -1}], ["get", 0, {}], ["mb_dump", 0]],
            [["sleep", 0.25], ["fsend", 0, 1024, {"id": 1, "tag": 1}], ["fsend", 0, 1024, {"id": 1, "tag": 2}], ["put", 0, 512, {}]]]))
        # timeouts and cancels: a timed-out get, a cancelled get and a cancelled put consume nothing
        progs.append((2, [
            [["get", 0, {"timeout": 0.5}], ["get_async", 0, 1, {}], ["cancel", 1], ["get_async", 1, 2, {}], ["wait", 2, {"timeout": 0.25, "or_cancel": True}],
             ["sleep", 1], ["get", 0, {}], ["get", 1, {}]],
            [["put_async", 1, 1024, {}, 5], ["sleep", 0.125], ["cancel", 5], ["sleep", 1], ["put_t", 0, 512, 4.0], ["put", 1, 0, {}]]]))
        res = []
        for plat, cfg in plats:
            for nmb, bodies in progs:
                sc = {"platform": plat, "objects": {"mailbox": nmb}, "comm_dump": True, "quiet": ["act", "actor", "adv"],
                      "actors": [{"name": "a%d" % i, "host": "h%d" % (i % 3), "ops": ops} for i, ops in enumerate(bodies)]}
                if cfg:
                    sc["cfg"] = cfg
                res.append(sc)
        return res

    def crash_sig(self, case, log):
        err = log.err or ""
        if "observer != nullptr" in err and has_op(case, ("put_wait", "get_wait"), lambda op: isinstance(op[-1], dict) and "timeout" in op[-1]):
            return "crash:wait_for-timeout-on-unstarted-comm"
        reqs = [l for l in log.lines if l.get("k") == "req"]
        if reqs and reqs[-1]["op"][0] in ("wait_any", "test_any") and "waitany-after-failed-wait" in commspec.all_labels(case, log.lines):
            return "crash:dangling-observer-after-failed-wait"
        if has_op(case, ("iprobe",)) and log.rc in (-11, 139):
            return "crash:cancel-after-iprobe"
        return "run-crashed"


PROP = C08()
