"""C30 Derived datatypes have MPI layout and transfer exactly their bytes."""
from hypothesis import strategies as st

from .. import core, mpi
from ..mpitypes import BASIC, TypeMap, build_ops, depth, kinds, typemap

LEAVES = ["CHAR", "SHORT", "INT", "INT", "DOUBLE", "DOUBLE", "FLOAT", "LONG_DOUBLE", "BYTE"]
SENT = 0xFF          # sentinel byte of destination buffers; source patterns never contain it
SLACK = 96           # extra sentinel bytes after the reference span of every buffer
MAXSPAN = 6000


def pattern(n, seed):
    return bytes(((seed * 7 + 13 * k + k // 251) % 251) + 1 for k in range(n))


# ---------------------------------------------------------------------------------------------
# Generation: random constructor trees, depth <= 3, non-negative displacements, counts/block lengths 0..5.
# Byte displacements are multiples of the alignment of the old type (what a portable program does), so that the alignment
# padding "epsilon" of MPI's upper bound can only be non-zero for MPI_Type_create_struct mixing types.
small = st.sampled_from([0, 1, 1, 1, 2, 2, 2, 3, 3, 4, 5])
cnt = st.sampled_from([0, 1, 1, 1, 2, 2, 2, 2, 3, 3, 3, 4, 5])


def marker_free(t):
    ks = kinds(t)
    return "resized" not in ks and "subarray" not in ks


# "Degenerate-contiguous" shapes (stride == blocklength, adjacent blocks, a single block, adjacent struct members, with a zero or a
# non-zero first displacement) are where implementations have fast paths: about 40% of the nodes are drawn from them, and the child
# of such an indexed-like node is itself a gap-free vector/hvector/contiguous most of the time.
CONTIG_KINDS = ["vector", "vector", "hvector", "contiguous"]
ALL_KINDS = ["contiguous", "vector", "vector", "vector", "hvector", "hvector", "indexed", "indexed", "indexed", "hindexed", "indexed_block",
             "indexed_block", "hindexed_block", "struct", "struct", "resized", "subarray", "dup"]
pos_small = st.sampled_from([1, 1, 1, 2, 2, 3, 4])
first_disp = st.sampled_from([0, 0, 1, 1, 2, 3, 5])


@st.composite
def trees(draw, d, contig=False):
    if d <= 0:
        return ["b", draw(st.sampled_from(LEAVES))]
    kind = draw(st.sampled_from(CONTIG_KINDS if contig else ALL_KINDS))
    deg = contig or draw(st.integers(0, 9)) < 4
    sub_d = d - 1 if draw(st.integers(0, 5)) else 0
    if contig:
        sub_d = 0 if draw(st.integers(0, 2)) else sub_d
    if kind == "struct":
        n = draw(st.integers(1, 3)) if deg else draw(st.integers(0, 4))
        olds = [draw(trees(sub_d if draw(st.booleans()) else 0, contig=deg and draw(st.booleans()))) for _ in range(n)]
        bls = [draw(pos_small if deg else small) for _ in range(n)]
        disps = []
        pos = draw(first_disp) * typemap(olds[0]).align if deg and olds else 0
        for o, bl in zip(olds, bls):
            tm = typemap(o)
            a = tm.align
            mode = 3 if deg else draw(st.integers(0, 3))
            if mode == 0:
                dsp = draw(st.integers(0, 12)) * a                     # anywhere (may overlap, may go backwards)
            else:
                dsp = (pos + a - 1) // a * a + (draw(st.integers(0, 2)) * a if mode == 1 else 0)     # after the previous member
            disps.append(dsp)
            pos = max(pos, dsp + max(tm.span(max(bl, 1)), 0)) if not deg else dsp + bl * tm.extent
        return ["struct", bls, disps, olds]
    indexed_like = kind in ("indexed", "hindexed", "indexed_block", "hindexed_block")
    old = draw(trees(sub_d, contig=deg and indexed_like and sub_d > 0 and draw(st.integers(0, 3)) > 0))
    tm = typemap(old)
    a = tm.align
    if kind == "contiguous":
        return ["contiguous", draw(pos_small if deg else cnt), old]
    if kind == "vector":
        if deg:
            bl = draw(pos_small)
            return ["vector", draw(pos_small), bl, bl, old]
        return ["vector", draw(cnt), draw(small), draw(st.integers(0, 7)), old]
    if kind == "hvector":
        if deg and tm.defined:
            bl = draw(pos_small)
            return ["hvector", draw(pos_small), bl, bl * tm.extent, old]
        return ["hvector", draw(cnt), draw(small), draw(st.integers(0, 12)) * a, old]
    if kind in ("indexed", "hindexed"):
        unit = 1 if kind == "indexed" else a
        if deg and tm.defined:
            # adjacent blocks (or a single one) starting at a zero or non-zero displacement
            n = draw(st.sampled_from([1, 1, 2, 2, 3]))
            bls = [draw(pos_small) for _ in range(n)]
            step = 1 if kind == "indexed" else tm.extent
            pos = draw(first_disp) * (1 if kind == "indexed" else max(tm.extent, a))
            disps = []
            for bl in bls:
                disps.append(pos)
                pos += bl * step
            return [kind, bls, disps, old]
        n = draw(st.integers(0, 4))
        bls = [draw(small) for _ in range(n)]
        mode = draw(st.integers(0, 2))
        if mode == 0:
            disps = [draw(st.integers(0, 12)) * unit for _ in range(n)]
        else:        # increasing, non overlapping (in units of the old extent for indexed, of bytes for hindexed)
            disps, pos = [], 0
            step = 1 if kind == "indexed" else max(tm.extent, a)
            for bl in bls:
                pos += draw(st.integers(0, 2)) * (1 if kind == "indexed" else a)
                disps.append(pos)
                pos += bl * step
                if kind == "hindexed":
                    pos = (pos + a - 1) // a * a
        return [kind, bls, disps, old]
    if kind in ("indexed_block", "hindexed_block"):
        unit = 1 if kind == "indexed_block" else a
        if deg and tm.defined:
            n = draw(st.sampled_from([1, 1, 2, 3]))
            bl = draw(pos_small)
            step = bl if kind == "indexed_block" else bl * tm.extent
            first = draw(first_disp) * (1 if kind == "indexed_block" else max(tm.extent, a))
            return [kind, bl, [first + i * step for i in range(n)], old]
        n = draw(st.integers(0, 4))
        return [kind, draw(small), [draw(st.integers(0, 12)) * unit for _ in range(n)], old]
    if kind == "resized":
        return ["resized", draw(st.integers(0, 3)) * a, draw(st.integers(0, 10)) * a if draw(st.integers(0, 3)) else tm.extent + a * draw(st.integers(0, 2)), old]
    if kind == "dup":
        return ["dup", old]
    if kind == "subarray":
        if not marker_free(old):
            old = ["b", draw(st.sampled_from(LEAVES))]
        nd = draw(st.integers(1, 3))
        sizes = [draw(st.integers(1, 4)) for _ in range(nd)]
        subsizes = [draw(st.integers(0, s)) if draw(st.integers(0, 4)) == 0 else draw(st.integers(1, s)) for s in sizes]
        starts = [draw(st.integers(0, s - ss)) for s, ss in zip(sizes, subsizes)]
        return ["subarray", sizes, subsizes, starts, draw(st.sampled_from(["C", "C", "F"])), old]
    raise ValueError(kind)


def gap_free_derived(t):
    """a derived type built by vector / hvector / contiguous whose data is one gap-free run starting at 0 (extent == size): the shapes
    for which constructors take a 'this is contiguous' shortcut"""
    if t[0] not in ("vector", "hvector", "contiguous"):
        return False
    tm = typemap(t)
    if not tm.entries or tm.lbm or tm.lb != 0 or tm.extent != tm.size:
        return False
    offs = tm.byte_offsets(1)
    return offs == list(range(len(offs)))


def shape_labels(t):
    """labels of the degenerate-contiguous shapes present in tree t"""
    res = set()
    for n in walk(t):
        k = n[0]
        if k == "vector" and n[1] >= 1 and n[2] >= 1 and n[3] == n[2]:
            res.add("stride==blocklen")
        if k == "hvector" and n[1] >= 1 and n[2] >= 1 and typemap(n[4]).defined and n[3] == n[2] * typemap(n[4]).extent:
            res.add("stride==blocklen")
        if k in ("indexed", "hindexed", "indexed_block", "hindexed_block"):
            if k.endswith("_block"):
                bls, disps, old = [n[1]] * len(n[2]), n[2], n[3]
            else:
                bls, disps, old = n[1], n[2], n[3]
            o = typemap(old)
            if not bls or min(bls) < 1 or not o.defined:
                continue
            step = 1 if k.startswith("indexed") else o.extent
            if all(disps[i] + bls[i] * step == disps[i + 1] for i in range(len(bls) - 1)):
                res.add("single-block" if len(bls) == 1 else "adjacent-blocks")
                if disps[0] != 0:
                    res.add("nonzero-first-disp")
                if gap_free_derived(old):
                    res.add("adjacent-blocks-over-contig-derived")
                    if disps[0] != 0:
                        res.add("adjacent-over-contig-derived+nonzero-first-disp")
        if k == "struct" and len(n[1]) >= 2 and min(n[1]) >= 1:
            oms = [typemap(o) for o in n[3]]
            if all(o.defined for o in oms) and all(n[2][i] + n[1][i] * oms[i].extent == n[2][i + 1] for i in range(len(n[1]) - 1)):
                res.add("struct-adjacent-members")
    return res


HOWS = ["send", "send", "sendrecv", "pack", "pack", "bcast", "flat_recv", "flat_send"]


@st.composite
def cases(draw):
    ts = draw(st.lists(trees(draw(st.sampled_from([1, 2, 2, 2, 3, 3]))), min_size=1, max_size=3))
    tests = draw(st.lists(st.tuples(st.integers(0, 2), st.sampled_from(HOWS), st.sampled_from([0, 1, 1, 2, 2, 3, 5]), st.integers(0, 9)).map(list),
                          min_size=1, max_size=6))
    return {"types": ts, "tests": tests}


# ---------------------------------------------------------------------------------------------
def node_qualifier(tree, tm, got):
    """narrows the signature of a layout mismatch to a root-cause class"""
    k = tree[0]
    q = []
    if got.get("size") == tm.size and got.get("lb") == tm.lb and tm.epsilon and got.get("extent") == tm.extent - tm.epsilon:
        return "no-alignment-padding"
    olds = tree[3] if k == "struct" else [tree[-1]]
    oms = [typemap(o) for o in olds]
    if any(o.lbm or o.ubm for o in oms):
        q.append("old-has-bound-markers")
    elif any(o.entries and (o.lb != 0 or o.epsilon) for o in oms):
        q.append("old-lb-nonzero")
    zero = False
    if k in ("indexed", "hindexed", "struct"):
        zero = 0 in tree[1]
    elif k in ("vector", "hvector"):
        zero = tree[1] > 0 and tree[2] == 0
    elif k in ("indexed_block", "hindexed_block"):
        zero = tree[1] == 0 and len(tree[2]) > 0
    elif k == "subarray":
        zero = 0 in tree[2]
    if any(not o.entries for o in oms):
        zero = True           # blocks of an old type that has no data are empty too
    if zero:
        q.append("empty-blocks")
    if not tm.entries:
        q.append("no-data")
    return "+".join(q)


def nonbasic(t):
    return t[0] != "b"


class Obs:
    """size/lb/ub/extent of a child type as the implementation reports them"""

    def __init__(self, size, lb, ub):
        self.size, self.lb, self.ub, self.extent = size, lb, ub, ub - lb


def smpi_formula(t, kids):
    """(size, lb, ub) that the formulas of src/smpi/mpi/smpi_datatype.cpp (create_*) give for node t from the values `kids` that the
    implementation reported for its children.  Only used to NAME the signature of a layout mismatch (known root causes), never as
    an oracle."""
    k = t[0]
    o = kids[0] if kids else None
    if k == "dup":
        return o.size, o.lb, o.ub
    if k == "resized":
        return o.size, t[1], t[1] + t[2]
    if k == "contiguous":
        if nonbasic(t[2]):
            return smpi_formula(["hvector", t[1], 1, o.extent, t[2]], kids)
        return t[1] * o.size, 0, t[1] * o.size
    if k in ("vector", "hvector"):
        count, bl, stride, old = t[1:5]
        lb = ub = 0
        if count > 0:
            lb = o.lb
            ub = ((count - 1) * stride + bl - 1) * o.extent + o.ub if k == "vector" else (count - 1) * stride + (bl - 1) * o.extent + o.ub
        contiguous = not nonbasic(old) and (stride == bl if k == "vector" else stride == bl * o.extent)
        if contiguous:
            return o.size * bl * count, 0, (o.size * ((count - 1) * stride + bl) if k == "vector" else o.size * bl * count)
        return o.size * bl * count, lb, ub
    if k in ("indexed", "hindexed", "indexed_block", "hindexed_block"):
        if k.endswith("_block"):
            bls, idx, old = [t[1]] * len(t[2]), t[2], t[3]
        else:
            bls, idx, old = t[1], t[2], t[3]
        elem = k.startswith("indexed")
        f = o.extent if elem else 1
        n = len(bls)
        lb = ub = 0
        if n > 0:
            lb = idx[0] * f + (0 if elem else o.lb)
            ub = idx[0] * f + bls[0] * o.ub
        contiguous = True
        for i in range(n):
            lb = min(lb, idx[i] * f + o.lb)
            ub = max(ub, idx[i] * f + bls[i] * o.ub)
            if i < n - 1 and (idx[i] + bls[i] != idx[i + 1] if elem else idx[i] + o.size * bls[i] != idx[i + 1]):
                contiguous = False
        if nonbasic(old) or (not elem and lb != 0):
            contiguous = False
        size = sum(bls)
        if contiguous:
            return size * o.size, lb, lb + size * o.size
        return size * o.size, lb, ub
    if k == "struct":
        bls, idx, olds = t[1], t[2], t[3]
        oms = kids
        n = len(bls)
        lb = ub = 0
        if n > 0:
            lb = idx[0] + oms[0].lb
            ub = idx[0] + bls[0] * oms[0].ub
        contiguous = True
        size = 0
        for i in range(n):
            if nonbasic(olds[i]):
                contiguous = False
            size += bls[i] * oms[i].size
            if idx[i] + oms[i].lb < lb:
                lb = idx[i]
            ub = max(ub, idx[i] + bls[i] * oms[i].ub)
            if i < n - 1 and idx[i] + oms[i].size * bls[i] != idx[i + 1]:
                contiguous = False
        if contiguous:
            return size, lb, lb + size
        return size, lb, ub
    return None


def expand_subarray(t):
    """the tree that MPI_Type_create_subarray builds in SMPI (for the classification of transfer failures only)"""
    sizes, subsizes, starts, order, old = t[1:6]
    nd = len(sizes)
    o = typemap(old)
    if nd == 1:
        return ["contiguous", subsizes[0], old]
    dims = list(range(nd - 1, -1, -1)) if order == "C" else list(range(nd))
    i0, i1 = dims[0], dims[1]
    cur = ["vector", subsizes[i1], subsizes[i0], sizes[i0], old]
    size = sizes[i0] * sizes[i1]
    lb = starts[i0] + starts[i1] * sizes[i0]
    for d in dims[2:]:
        cur = ["hvector", subsizes[d], 1, size * o.extent, cur]
        lb += size * starts[d]
        size *= sizes[d]
    return ["resized", 0, o.extent, ["hindexed", [1], [lb * o.extent], cur]]


def legacy_stride_affected(t, reps):
    """True when `reps` consecutive elements of type t (or of a derived type nested in it) are laid out by a traversal that finds the
    next element 'right after the last block' (and the first block of the next element without its displacement) instead of at
    base + extent: the known root cause of Type_Hvector/Hindexed/Struct::serialize/unserialize in SMPI.  Only used to NAME the
    signature of a transfer that already failed."""
    k = t[0]
    if k == "b" or reps == 0:
        return False
    if k == "subarray":
        return legacy_stride_affected(expand_subarray(t), reps)
    tm = typemap(t)
    if k == "dup":
        return legacy_stride_affected(t[1], reps)
    if k == "resized":
        return (reps > 1 and t[1] != 0) or legacy_stride_affected(t[3], 1)
    if k == "contiguous":
        if not nonbasic(t[2]):
            return False
        o = typemap(t[2])
        t = ["hvector", t[1], 1, o.extent, t[2]]
        k = "hvector"
    if k in ("vector", "hvector"):
        count, bl, stride, old = t[1:5]
        o = typemap(old)
        if count == 0 or bl == 0:
            return False
        step = stride * o.extent if k == "vector" else stride
        nxt = (count - 1) * step + bl * o.size
        return (reps > 1 and nxt != tm.extent) or (count > 1 and nonbasic(old) and False) or legacy_stride_affected(old, bl)
    if k in ("indexed", "hindexed", "indexed_block", "hindexed_block", "struct"):
        if k == "struct":
            bls, disps, olds = t[1], t[2], t[3]
        elif k.endswith("_block"):
            bls, disps, olds = [t[1]] * len(t[2]), t[2], [t[3]] * len(t[2])
        else:
            bls, disps, olds = t[1], t[2], [t[3]] * len(t[1])
        if not bls:
            return False
        oms = [typemap(o) for o in olds]
        if k.startswith("indexed"):
            disps = [d * oms[0].extent for d in disps]
        if any(legacy_stride_affected(o, bl) for o, bl in zip(olds, bls)):
            return True
        nxt = disps[-1] + bls[-1] * oms[-1].extent
        return reps > 1 and (disps[0] != 0 or nxt != tm.extent)
    return False


def data_class(t, count):
    if any(x[0] == "dup" and nonbasic(x[1]) for x in walk(t)):
        return "dup-of-derived"
    if legacy_stride_affected(t, count):
        return "next-element-after-last-block"
    return "other"


def walk(t):
    yield t
    if t[0] == "struct":
        for o in t[3]:
            yield from walk(o)
    elif t[0] != "b":
        yield from walk(t[-1])


class C30(core.Prop):
    id = "C30"
    ready = True
    drivers = ["mpi_interp"]
    sizes = {"quick": 600, "thorough": 30000}
    max_workers = 4
    technique = ("property-based testing (Hypothesis): a type-map calculator (MPI-3.1 4.1) gives size/lb/ub/extent of every node of a random "
                 "constructor tree and the exact set and order of the bytes that a transfer moves; compared with MPI_Type_size/get_extent "
                 "and with destination buffers surrounded by sentinels")
    rule = ("A case = 1..3 random datatype trees (contiguous, vector, hvector, indexed, hindexed, indexed_block, hindexed_block, struct, resized, "
            "subarray (C and Fortran order), dup; depth <= 3; counts and block lengths 0..5; non-negative displacements, byte displacements "
            "multiples of the alignment of the old type; overlapping and backward-going layouts allowed) over CHAR/SHORT/INT/FLOAT/DOUBLE/"
            "LONG_DOUBLE/BYTE, built in a 2-rank SMPI run, and 1..6 transfers of 0..5 elements: Send->Recv with the same type, Sendrecv, "
            "Pack at a non-zero position followed by Unpack, Bcast, derived->contiguous and contiguous->derived. EVERY node of every tree is "
            "checked for MPI_Type_size, lower bound and extent (ub = lb + extent); transfers are checked byte by byte: selected bytes arrive "
            "in type-map order, every other byte of the destination (and 96 bytes after it, and guard zones) keeps its sentinel, Pack advances "
            "position by count*size. Types whose layout already differs are not used for transfers (one root cause, one report). "
            "About 40% of the nodes are 'degenerate-contiguous' shapes (stride == blocklength, adjacent blocks or a single block with a zero "
            "or non-zero first displacement, adjacent struct members, preferably over a gap-free vector/hvector/contiguous child): the "
            "shapes for which constructors have fast paths (labels adjacent-blocks-over-contig-derived, nonzero-first-disp, ...). "
            "Non-trivial: a type of nesting depth >= 2 with holes (extent > size), a non-zero lower bound, or adjacent/single blocks over a "
            "gap-free derived child is built and checked. Distinct = distinct canonical JSON.")
    assumptions = ["lb/ub/extent of a type without any data and without resize markers are not asserted (MPI leaves them open)",
                   "receive-side types never overlap (erroneous in MPI); overlapping types are only used on the sending side",
                   "sender and receiver use the same type signature (same tree, or the contiguous sequence of the same basic elements)",
                   "MPI_Type_get_true_extent is not part of the statement and is not asserted",
                   "smpi/errors-are-fatal:no so that error codes are returned instead of aborting"]

    def strategy(self, tier):
        return cases()

    def fixed_cases(self, tier):
        I, D, C = ["b", "INT"], ["b", "DOUBLE"], ["b", "CHAR"]
        ts = [
            ["vector", 3, 2, 4, I], ["hvector", 2, 1, 16, D], ["indexed", [1, 2], [3, 0], I], ["hindexed", [2, 1], [8, 32], I],
            ["indexed_block", 2, [0, 5], I], ["struct", [1, 1], [0, 8], [I, D]], ["struct", [1, 1], [0, 4], [I, C]],
            ["resized", 0, 16, I], ["contiguous", 3, ["resized", 0, 16, I]], ["subarray", [4, 4], [2, 2], [1, 1], "C", I],
            ["subarray", [4, 3], [2, 2], [1, 0], "F", D], ["contiguous", 2, ["vector", 2, 1, 2, I]], ["dup", ["vector", 2, 1, 3, D]],
            ["vector", 2, 1, 2, ["struct", [1, 1], [0, 8], [I, D]]], ["subarray", [5], [2], [2], "C", I],
        ]
        # degenerate-contiguous shapes over a gap-free derived child, first displacement zero and non-zero (fast paths of the constructors)
        V, H, K = ["vector", 2, 2, 2, I], ["hvector", 2, 1, 8, D], ["contiguous", 3, I]
        for inner in (V, H, K):
            ex = typemap(inner).extent
            ts += [["indexed", [2], [3], inner], ["indexed", [1, 2], [1, 2], inner], ["indexed", [1, 1], [0, 1], inner],
                   ["indexed_block", 1, [2, 3], inner], ["indexed_block", 2, [1], inner],
                   ["hindexed", [2], [2 * ex], inner], ["hindexed", [1, 1], [ex, 2 * ex], inner], ["hindexed_block", 1, [ex, 2 * ex], inner],
                   ["struct", [1, 2], [ex, 2 * ex], [inner, inner]], ["contiguous", 2, ["indexed", [1], [1], inner]]]
        res = []
        for t in ts:
            res.append({"types": [t], "tests": [[0, "send", 1, 1], [0, "send", 2, 2], [0, "pack", 2, 3], [0, "bcast", 1, 0], [0, "sendrecv", 3, 0],
                                               [0, "flat_recv", 2, 0], [0, "flat_send", 2, 0]]})
        return res

    # -------------------------------------------------------------------------------------------
    def check(self, case):
        oc = core.Outcome()
        trees_ = case["types"]
        prog = []
        nodes = []          # (index in prog, tree, name)
        roots = []
        for ti, t in enumerate(trees_):
            tm = typemap(t)
            if tm.span(5) > MAXSPAN or len(tm.entries) > 3000:
                oc.invalid = True
                return oc
            name = "T%d" % ti
            if t[0] == "b":
                roots.append((t[1], t))
                continue
            for op, sub in build_ops(t, name):
                nodes.append((len(prog), sub, op["out"]))
                prog.append(op)
            roots.append((name, t))
        # ---- transfers (planned on the reference; dropped later for types whose layout differs)
        plans = []
        for k, (tsel, how, count, seed) in enumerate(case["tests"]):
            tname, t = roots[tsel % len(roots)]
            tm = typemap(t)
            plans.append(self.plan(prog, k, tname, t, tm, how, count, seed))
        res = mpi.run({"np": 2, "prog": prog}, cpu=30)
        ks = sorted(set(x for t in trees_ for x in kinds(t)))
        oc.labels += ks
        oc.labels.append("depth=%d" % max(depth(t) for t in trees_))
        oc.labels += sorted(set(x for t in trees_ for x in shape_labels(t)))
        # non-trivial: nesting depth >= 2 and the layout is not "everything contiguous at 0": holes (extent > size, DESIGN's rule), a
        # non-zero lower bound, or adjacent/single blocks over a gap-free derived child (the fast-path class)
        for t in trees_:
            tm = typemap(t)
            if depth(t) >= 2 and tm.defined and (tm.extent > tm.size or tm.lb != 0 or "adjacent-blocks-over-contig-derived" in shape_labels(t)):
                oc.nontrivial = True
        fail = res.failure()
        if fail:
            sig, msg = fail
            if sig == "bad-case":
                raise RuntimeError(msg)
            if res.crash is not None:
                op = prog[res.crash["i"]] if res.crash["i"] >= 0 else {"op": "finalize"}
                sig = "crash:%s:%s" % (op["op"], op.get("kind", ""))
                ci = res.crash["i"] if res.crash["i"] >= 0 else len(prog)          # < 0: in MPI_Finalize
                tn = op.get("type") or op.get("stype") if res.crash["i"] >= 0 else None
                tt = dict(roots).get(tn)
                if tt is not None and typemap(tt).size == 0 and res.crash["sig"] == 8:
                    sig = "crash:zero-size-type"
                elif tt is not None and data_class(tt, op.get("count", op.get("scount", 1))) != "other":
                    sig = "crash:%s:%s" % (data_class(tt, op.get("count", op.get("scount", 1))), op["op"])
                else:
                    # the heap was corrupted earlier: blame a transfer, already executed, of a type with a known wild-write root cause
                    classes = set()
                    for j in range(min(ci, len(prog))):
                        n2 = prog[j].get("type") or prog[j].get("stype")
                        if prog[j]["op"] != "type_create" and n2 in dict(roots):
                            classes.add(data_class(dict(roots)[n2], prog[j].get("count", prog[j].get("scount", 1))))
                    for c in ("dup-of-derived", "next-element-after-last-block"):
                        if c in classes:
                            sig = "crash:%s:later" % c
                            break
                    else:
                        sig = "crash:other:%s" % res.crash["op"]
                msg += " [op %s]" % {k: v for k, v in op.items() if k != "hex"}
            oc.bad(sig, msg + "  types=%s" % trees_)
            return oc
        # ---- layout of every node
        bad_names = set()
        obs = {n: Obs(sz, 0, sz) for n, sz in BASIC.items()}
        for i, sub, name in nodes:
            tm = typemap(sub)
            olds = [o for o in (prog[i].get("olds") or [prog[i].get("old")]) if o]
            olds_all = olds
            rec0 = res.get(0, i)
            if rec0 is not None and rec0.get("rc") == 0 and not rec0.get("null") and "size" in rec0:
                obs[name] = Obs(rec0["size"], rec0["lb"], rec0["lb"] + rec0["extent"])
            if any(o in bad_names for o in olds):
                bad_names.add(name)         # built on a type that is already wrong: not a new root cause
                continue
            for r in (0, 1):
                rec = res.get(r, i)
                if rec is None:
                    continue
                got = {f: rec.get(f) for f in ("size", "lb", "extent")}
                call = "MPI_Type_%s%s" % (sub[0], tuple(x for x in sub[1:-1]) + (self.short(sub[-1]),))
                if rec["rc"] != 0 or rec.get("null"):
                    if sub[0] == "subarray" and len(sub[1]) == 0:
                        continue
                    oc.bad("create-error:%s" % sub[0], "%s returned %d (null=%s)" % (call, rec["rc"], rec.get("null")))
                    bad_names.add(name)
                    break
                exp = {"size": tm.size}
                kids = sub[3] if sub[0] == "struct" else [sub[-1]]
                # a child without data and without markers adds nothing to the type map, whatever bounds the implementation gives it;
                # only MPI_Type_create_subarray derives markers from the (unspecified) extent of such a child
                if tm.defined and (sub[0] != "subarray" or all(typemap(o).defined for o in kids)):
                    exp.update(lb=tm.lb, extent=tm.extent)
                else:
                    oc.labels.append("bounds-undefined")
                wrong = [f for f in exp if got[f] != exp[f]]
                if wrong:
                    q = node_qualifier(sub, tm, got)
                    kid_obs = [obs.get(o) for o in olds_all]
                    leg = smpi_formula(sub, kid_obs) if all(kid_obs) else None
                    if sub[0] == "subarray" and got["size"] == tm.size:
                        sig = "layout:subarray-bounds"          # MPI_Type_create_subarray never gives the extent of the full array
                    elif leg is not None and q and (got["size"], got["lb"], got["lb"] + got["extent"]) == leg:
                        sig = "layout:smpi-formula:" + q         # explained by the formulas of smpi_datatype.cpp + a known trigger
                    else:
                        sig = "layout:%s:unexplained:%s" % (sub[0], "+".join(wrong))
                    oc.bad(sig,
                           "%s: size/lb/extent = %s/%s/%s (ub %s), expected %s/%s/%s (ub %s)  [old type: size/lb/extent %s]"
                           % (call, got["size"], got["lb"], got["extent"], (got["lb"] or 0) + (got["extent"] or 0), tm.size,
                              tm.lb if tm.defined else "any", tm.extent if tm.defined else "any", tm.ub if tm.defined else "any",
                              [(typemap(o).size, typemap(o).lb, typemap(o).extent) for o in (sub[3] if sub[0] == "struct" else [sub[-1]])]))
                    bad_names.add(name)
                    break
        # ---- transfers
        for p in plans:
            if p is None:
                continue
            if p["tname"] in bad_names:
                oc.labels.append("transfer-skipped-layout-differs")
                continue
            self.judge(oc, res, p)
            oc.labels.append("how=" + p["how"])
            if p["count"] > 1:
                oc.labels.append("count>1")
            if p["holes"] and p["depth"] >= 2 and p["count"] >= 1:
                oc.labels.append("holes+nested-transferred")
        return oc

    @staticmethod
    def short(t):
        if not t:
            return []
        if isinstance(t[0], list):
            return [C30.short(x) for x in t]
        if t[0] == "b":
            return "MPI_" + t[1]
        return "<%s...>" % t[0]

    # -------------------------------------------------------------------------------------------
    def plan(self, prog, k, tname, t, tm, how, count, seed):
        """appends the operations of one transfer test to prog; returns what to verify"""
        offs = tm.byte_offsets(count)
        span = tm.span(count)
        size = span + SLACK
        nbytes = len(offs)
        overlap = len(set(offs)) != len(offs)
        homog = len(set(e[1] for e in tm.entries)) <= 1 and len(set(self.leaves(t))) == 1
        leaf = self.leaves(t)[0] if self.leaves(t) else "BYTE"
        nleaf = nbytes // BASIC[leaf] if homog else 0
        src = pattern(size, seed + 3 * k)
        P = {"how": how, "tname": tname, "tree": t, "count": count, "offs": offs, "span": span, "src": src, "checks": [],
             "holes": tm.defined and tm.extent > tm.size, "depth": depth(t), "nbytes": nbytes}
        s, d, pk = "s%d" % k, "d%d" % k, "p%d" % k

        def add(op, only=None):
            if only is not None:
                op["only"] = only
            prog.append(op)
            return len(prog) - 1

        def dest_check(rank, idx, derived=True):
            P["checks"].append(("dest", rank, idx, derived))

        if how in ("flat_recv",) and (overlap or not homog):
            how = P["how"] = "send"
        if how == "flat_send" and not homog:
            how = P["how"] = "send"
        if how in ("send", "sendrecv", "bcast") and overlap:
            how = P["how"] = "flat_send" if homog else "pack_only"
        if how == "pack" and overlap:
            how = P["how"] = "pack_only"

        if how == "send":
            add({"op": "buf", "name": s, "size": size, "hex": src.hex()}, [0])
            add({"op": "buf", "name": d, "size": size, "fill": SENT}, [1])
            P["rc"] = [(0, add({"op": "send", "buf": s, "count": count, "type": tname, "dest": 1, "tag": k}, [0])),
                       (1, add({"op": "recv", "buf": d, "count": count, "type": tname, "src": 0, "tag": k}, [1]))]
            P["status"] = (1, P["rc"][1][1], count)
            dest_check(1, add({"op": "dump", "buf": d}, [1]))
            P["checks"].append(("unchanged", 0, add({"op": "dump", "buf": s}, [0])))
        elif how == "sendrecv":
            # both ranks exchange: rank r sends its pattern and receives the other's
            src1 = pattern(size, seed + 3 * k + 101)
            P["src1"] = src1
            add({"op": "buf", "name": s, "size": size, "hex": {"@": [src.hex(), src1.hex()]}})
            add({"op": "buf", "name": d, "size": size, "fill": SENT})
            i = add({"op": "sendrecv", "sbuf": s, "scount": count, "stype": tname, "dest": {"@": [1, 0]}, "stag": k, "rbuf": d, "rcount": count,
                     "rtype": tname, "src": {"@": [1, 0]}, "rtag": k})
            P["rc"] = [(0, i), (1, i)]
            j = add({"op": "dump", "buf": d})
            P["checks"].append(("dest-from", 0, j, src1))
            P["checks"].append(("dest-from", 1, j, src))
        elif how == "bcast":
            add({"op": "buf", "name": s, "size": size, "hex": src.hex()}, [0])
            add({"op": "buf", "name": s, "size": size, "fill": SENT}, [1])
            i = add({"op": "bcast", "buf": s, "count": count, "type": tname, "root": 0})
            P["rc"] = [(0, i), (1, i)]
            j = add({"op": "dump", "buf": s})
            dest_check(1, j)
            P["checks"].append(("unchanged", 0, j))
        elif how == "flat_send":
            # derived on the sending side, contiguous basic elements on the receiving side
            add({"op": "buf", "name": s, "size": size, "hex": src.hex()}, [0])
            add({"op": "buf", "name": d, "size": nbytes + SLACK, "fill": SENT}, [1])
            P["rc"] = [(0, add({"op": "send", "buf": s, "count": count, "type": tname, "dest": 1, "tag": k}, [0])),
                       (1, add({"op": "recv", "buf": d, "count": nleaf, "type": leaf, "src": 0, "tag": k}, [1]))]
            P["checks"].append(("stream", 1, add({"op": "dump", "buf": d}, [1])))
        elif how == "flat_recv":
            stream = pattern(nbytes, seed + 5 * k + 7)
            P["stream"] = stream
            add({"op": "buf", "name": s, "size": nbytes + SLACK, "hex": stream.hex()}, [0])
            add({"op": "buf", "name": d, "size": size, "fill": SENT}, [1])
            P["rc"] = [(0, add({"op": "send", "buf": s, "count": nleaf, "type": leaf, "dest": 1, "tag": k}, [0])),
                       (1, add({"op": "recv", "buf": d, "count": count, "type": tname, "src": 0, "tag": k}, [1]))]
            P["checks"].append(("scatter", 1, add({"op": "dump", "buf": d}, [1])))
        elif how in ("pack", "pack_only"):
            pos0 = 1 + seed % 7
            P["pos0"] = pos0
            psize = pos0 + nbytes + SLACK
            add({"op": "buf", "name": s, "size": size, "hex": src.hex()}, [0])
            add({"op": "buf", "name": pk, "size": psize, "fill": SENT}, [0])
            i = add({"op": "pack", "in": s, "count": count, "type": tname, "out": pk, "position": pos0}, [0])
            P["rc"] = [(0, i)]
            P["checks"].append(("position", 0, i, pos0 + nbytes))
            P["checks"].append(("packed", 0, add({"op": "dump", "buf": pk}, [0])))
            if how == "pack":
                add({"op": "buf", "name": d, "size": size, "fill": SENT}, [0])
                j = add({"op": "unpack", "in": pk, "insize": pos0 + nbytes, "position": pos0, "out": d, "count": count, "type": tname}, [0])
                P["rc"].append((0, j))
                P["checks"].append(("position", 0, j, pos0 + nbytes))
                dest_check(0, add({"op": "dump", "buf": d}, [0]))
        else:
            return None
        return P

    @staticmethod
    def leaves(t):
        if t[0] == "b":
            return [t[1]]
        if t[0] == "struct":
            return [x for o, bl in zip(t[3], t[1]) for x in C30.leaves(o) if bl > 0]
        return C30.leaves(t[-1])

    # -------------------------------------------------------------------------------------------
    def judge(self, oc, res, P):
        how, t, count = P["how"], P["tree"], P["count"]
        root = t[0] if t[0] != "b" else "basic"
        qual = ":count>1" if count > 1 else ""
        what = "%s of %d x %s" % (how, count, t)
        for r, i in P.get("rc", []):
            rec = res.get(r, i)
            if rec is None:
                oc.bad("not-executed", "rank %d did not report op #%d of %s" % (r, i, what))
                return
            if rec["rc"] != 0:
                oc.bad("transfer-error:%s:%s" % (how, root), "%s: %s returned %d on rank %d" % (what, rec["op"], rec["rc"], r))
                return
        src, offs = P["src"], P["offs"]
        sel = set(offs)
        for c in P["checks"]:
            kind, r, i = c[0], c[1], c[2]
            rec = res.get(r, i)
            if rec is None:
                oc.bad("not-executed", "rank %d did not report op #%d of %s" % (r, i, what))
                return
            if kind == "position":
                if rec["position"] != c[3]:
                    oc.bad("pack-position:%s:%s" % (rec["op"], root), "%s: position after MPI_%s is %d, expected %d" % (what, rec["op"], rec["position"], c[3]))
                continue
            data = bytes.fromhex(rec["hex"])
            if not rec.get("guards", True):
                oc.bad("guard-zone:%s" % data_class(t, count), "%s wrote outside the buffer (guard zone changed) on rank %d" % (what, r))
                return
            if kind == "unchanged":
                if data != src:
                    oc.bad("source-modified:%s:%s" % (how, root), "%s changed the send buffer on rank %d" % (what, r))
                continue
            if kind in ("dest", "dest-from"):
                origin = c[3] if kind == "dest-from" else src
                exp = bytearray([SENT]) * len(data)
                for o in offs:
                    exp[o] = origin[o]
            elif kind == "stream":
                exp = bytearray([SENT]) * len(data)
                for n, o in enumerate(offs):
                    exp[n] = src[o]
            elif kind == "scatter":
                exp = bytearray([SENT]) * len(data)
                for n, o in enumerate(offs):
                    exp[o] = P["stream"][n]
            elif kind == "packed":
                exp = bytearray([SENT]) * len(data)
                for n, o in enumerate(offs):
                    exp[P["pos0"] + n] = src[o]
            else:
                raise ValueError(kind)
            if bytes(exp) != data:
                diff = [x for x in range(len(data)) if data[x] != exp[x]]
                missing = [x for x in diff if exp[x] != SENT]
                extra = [x for x in diff if exp[x] == SENT]
                cls = "wrong-bytes" if missing and not extra else ("outside-layout" if extra and not missing else "misplaced")
                dc = data_class(t, count)
                oc.bad("data:%s" % dc if dc != "other" else "data:%s:%s%s:%s" % (how if how != "pack_only" else "pack", root, qual, cls),
                       "%s (rank %d, %s): %d bytes differ; selected offsets that did not get their byte: %s; bytes outside the layout that "
                       "changed: %s; type: size %d extent %d" % (what, r, kind, len(diff), missing[:12], extra[:12],
                                                                 typemap(t).size, typemap(t).extent if typemap(t).defined else -1))
                return
        st_ = P.get("status")
        if st_:
            r, i, cnt = st_
            rec = res.get(r, i)
            if rec is not None and rec.get("count_rc") == 0 and rec.get("count") != cnt and P["nbytes"] > 0:
                oc.bad("get-count:%s" % root, "%s: MPI_Get_count gives %s, expected %d" % (what, rec.get("count"), cnt))


PROP = C30()
