"""C23 Energy accounting integrates the power model."""
from .. import core, energygen, faultgen


class C23(core.Prop):
    id = "C23"
    drivers = [faultgen.DRIVER]
    sizes = {"quick": 300, "thorough": 10000}
    max_workers = 6
    technique = ("property-based testing (Hypothesis): generated workloads with pstate changes and on/off switches on hosts / links with random "
                 "power models; reference model = the integral of the documented power function over the events of the log")
    rule = ""
    assumptions = []

    def strategy(self, tier):
        return energygen.scenarios(tier)

    def check(self, case):
        oc = core.Outcome()
        sc = {k: v for k, v in case.items() if k != "kind"}
        log = faultgen.run(sc)
        if log.wall_exceeded:
            raise core.Inconclusive()
        labels = set()
        if not log.done:
            oc.bad(faultgen.crash_sig(log), "the run did not finish: " + log.crash_text())
            return oc
        energygen.check_c23(case, log, oc, labels)
        oc.labels = sorted(labels)
        return oc


PROP = C23()
