"""C23 Energy accounting integrates the power model."""
from .. import core, energygen, faultgen


class C23(core.Prop):
    id = "C23"
    drivers = [faultgen.DRIVER]
    sizes = {"quick": 400, "thorough": 10000}
    max_workers = 6
    ready = True
    technique = ("property-based testing (Hypothesis): generated workloads with pstate changes and on/off switches on hosts / links with random "
                 "power models; reference model = the integral of the documented power function over the events of the log")
    rule = ("Host scenarios (2 of 3): host h0 with 1-4 cores, 1-3 pstates, a random wattage_per_state (2- and 3-value forms mixed, Epsilon >= Idle, "
            "AllCores >= Epsilon, values that make Idle, Epsilon and AllCores differ or coincide) and optionally wattage_off; 1-5 workers, local "
            "(killed when h0 is switched off) or remote (they get HostFailure), doing single-core executions (so that the load is min(k, cores) / "
            "cores), sleeps and energy reads; a controller changing the pstate, switching h0 off and on, reading the energy.  Link scenarios: link "
            "l0 (SHARED or FATPIPE, latency 0-1 s) with wattage_range (and sometimes wattage_off), 1-3 sender/receiver pairs, flows optionally "
            "rate-limited (fractional usage), a controller switching the link and reading the energy.  Half of the scenarios also read the "
            "energy at every time step (scenario key sample), the others only through the actors.  Oracle: every value read equals, to 1e-9 "
            "relative, the integral over the log's events of P = wattage_off | Idle | Epsilon + load * (AllCores - Epsilon) of the pstate in "
            "force (hosts), idle + (busy - idle) * usage / bandwidth with usage = 0 outside the transfer phases, min(bandwidth, sum of the rate "
            "limits) inside (links); successive reads never decrease.  NON-TRIVIAL: a pstate change or a switch-off while something runs "
            "(hosts); concurrent flows, a rate-limited flow or a switch (links).")
    assumptions = ["the spans of the executions / transfers are taken from the log (their dates are other properties' business)",
                   "Lazy and Full CPU / network models only (Host::get_load() has no meaning under TI)",
                   "a FATPIPE link is not shared: its usage is the largest flow"]

    def strategy(self, tier):
        return energygen.scenarios(tier)

    def check(self, case):
        oc = core.Outcome()
        sc = {k: v for k, v in case.items() if k != "kind"}
        log = faultgen.run(sc)
        if log.wall_exceeded:
            raise core.Inconclusive()
        labels = set()
        if not log.done:
            oc.bad(faultgen.crash_sig(log), "the run did not finish: " + log.crash_text())
            return oc
        energygen.check_c23(case, log, oc, labels)
        oc.labels = sorted(labels)
        return oc


PROP = C23()
