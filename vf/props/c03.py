"""C03 Simulated time is monotone and events happen exactly at their date."""
from .. import core, s4u, timing


class C03(core.Prop):
    id = "C03"
    drivers = [timing.DRIVER]
    sizes = {"quick": 1500, "thorough": 60000}
    max_workers = 6
    ready = True
    technique = ("property-based testing (Hypothesis): generated timed programs run on the real kernel; every date of the log is compared "
                 "with the date arithmetic of the statement (closed forms, exact equality on dyadic dates)")
    rule = ("Programs of 1-5 actors x <=8 operations on a sharing-free platform: sleep_for / sleep_until, execs (with and without time-out), "
            "kernel timers, timed semaphore / condition-variable / message-queue / mailbox waits, matched put/get pairs, disk I/O, join with "
            "time-out, kill times (actor property and/or set_kill_time, the last one wins), 0-2 on_exit callbacks, daemons.  Durations: 0, "
            "sub-precision (1e-12..2e-9), quarters (coinciding dates), multiples of 2^-10, arbitrary doubles; half of the programs are "
            "all-dyadic (then every assertion is an exact equality).  Oracle: (a) every time advance is >= 0, the clock is the running sum of the advances and "
            "every record bears the current clock; (b) creation <= start <= finish <= now for every activity; (c) sleep_for(d) returns at "
            "fl(t0 + d), d clamped to precision/timing when 0 < d < 1e-9 (documented clamp), immediately for d = 0; (d) an actor with an armed "
            "kill time t terminates at exactly t, its on_exit callbacks run at t with failed=true, it logs nothing later; (e) no operation "
            "returns before its call; (f) every timer / activity time-out fires at its date, never before, exactly once.  Non-trivial: the "
            "program contains a zero or sub-precision duration, or two actors observe an event at the same positive date.")
    assumptions = ["tolerance 0 while every clock value is a multiple of 2^-30 (exact arithmetic); 1 ulp afterwards (the clock advances by now += (date - now))",
                   "events carried by model actions (sleeps, semaphore/condvar/join time-outs) may complete up to precision/timing (1e-9 s) early when "
                   "ANOTHER actor's event occurs in that window (documented: 'epsilon used to update and compare timings'); accepted only in that case",
                   "several kill times: the last one set in the future wins (semantics of the fix 6bf89374c4)",
                   "sequential contexts; lazy model updates (default) and, for 1 program in 6, cpu/optim:Full + network/optim:Full, where the slack for "
                   "dates off the grid is 1 ulp per time advance (remaining durations are decremented at every step)"]

    def strategy(self, tier):
        return timing.c03_programs()

    def check(self, case):
        oc = core.Outcome()
        log = timing.run(case)
        if log.wall_exceeded:
            raise core.Inconclusive()
        if not log.done:
            oc.bad(timing.crash_sig(log), "the interpreter did not finish: " + log.crash_text())
            return oc
        labels = set()
        nadv = timing.check_c03(case, log, oc, labels)
        if log.of("deadlock"):
            labels.add("deadlock")
        oc.labels = sorted(labels)
        oc.nontrivial = any(l in labels for l in ("sleep-zero", "sleep-sub-precision", "coinciding-dates", "sync-timeout-sub-precision",
                                                   "activity-timeout-zero", "activity-timeout-sub-precision"))
        oc.info = {"advances": nadv}
        return oc


PROP = C03()
