"""C18 Concurrency limits are enforced without starvation."""
from .. import core, lmm


class C18(core.Prop):
    id = "C18"
    drivers = ["lmm_driver"]
    ready = True
    technique = "stateful property-based testing: concurrency invariants checked on internal state after every operation, plus SimGrid own check_concurrency()"
    sizes = {"quick": 15000, "thorough": 400000}
    rule = ("C15 histories with concurrency limits 1..4 on most constraints and many enable/suspend/free operations. After EVERY operation: the "
            "constraint's counter equals the number of enabled elements counting towards the limit (weight>=1) and is <= the limit; a variable that "
            "wants to run is either enabled or staged, never both, a suspended one is neither; every staged variable has a resource with no free slot. "
            "One run in four is repeated with --log=ker_lmm.thres:debug so SimGrid's own check_concurrency() assertions run too. "
            "Non-trivial: some operation happens while >=1 variable is staged.")
    assumptions = ["state read from the live objects with -fno-access-control; 'enabled' means sharing_penalty_>0"]

    def strategy(self, tier):
        from hypothesis import strategies as st
        general = lmm.histories(solvers=("maxmin", "maxmin", "fairbottleneck"), selective=None, limits="many", nonlinear=False)
        tight = lmm.histories(solvers=("maxmin", "maxmin", "fairbottleneck"), selective=None, limits="tight", nonlinear=False,
                              policies="shared")
        return st.one_of(general, tight)

    def check(self, case):
        oc = core.Outcome()
        r = lmm.run_history(case)
        steps, done = lmm.parse(r)
        if not done:
            if r.wall_exceeded:
                raise core.Inconclusive()
            oc.bad("driver-crash", "lmm_driver ended with rc=%s; stderr tail: %s" % (r.rc, r.err[-1500:]))
        staged_seen = 0
        for s in steps:
            n = lmm.check_concurrency(s["st"], oc, "after op #%d %s" % (s["i"], s["op"]))
            if n:
                staged_seen += 1
            if oc.violations:
                break
        if staged_seen:
            oc.labels.append("staged")
        # in-product oracle: SimGrid's own assertions (check_concurrency) under debug logging, on a quarter of the cases
        if not oc.violations and core.case_hash(case)[0] in "0123":
            oc.evals += 1
            r2 = lmm.run_history(case, debug=True)
            _, done2 = lmm.parse(r2)
            oc.labels.append("debug-rerun")
            tail = r2.err[-3000:]
            marks = ("should not have staged variable", "concurrency check failed", "concurrency_current is out-of-date",
                     "Variable inconsistency", "Concurrency limit overflow", "Concurrency overflow")
            hit = [m for m in marks if m in tail]
            if done and not done2 and not r2.wall_exceeded and hit:
                oc.bad("simgrid-self-check-failed:" + hit[0], "with --log=ker_lmm.thres:debug the run aborts (rc=%s): SimGrid's own check_concurrency() assertion fired: %s"
                       % (r2.rc, tail[-600:]))
        oc.nontrivial = staged_seen > 0
        return oc


PROP = C18()
