"""C48 Configuration flags parse and validate values."""
import math

from hypothesis import strategies as st

from .. import core, xbt1
from .c27 import BOUNDARY_NUMS, numbers

SEPARATORS = " \t\n,"
SAFE_KINDS = ("ok", "exc", "reject-exc", "poke")        # outcomes that cannot end the process
BOUND_ITEMS = ("precision/timing", "precision/work-amount", "maxmin/concurrency-limit", "contexts/stack-size", "contexts/guard-size")
UNKNOWN = object()
_REG = None


def registry():
    """(items, aliases) of the tree under test, read from its own help output (one driver call per process)."""
    global _REG
    if _REG is None:
        r = core.serve("config_driver", {"list": True}, cpu=20, wall=120)
        items, aliases = xbt1.parse_help(r.out)
        if len(items) < 20:
            raise core.Inconclusive("cannot read the configuration registry: rc=%s %s" % (r.rc, r.err[-300:]))
        _REG = (items, aliases)
    return _REG


# ---------------------------------------------------------------------------------------------
# generators

INT_STRINGS = ["0", "1", "-1", "7", "42", "2147483647", "-2147483648", "2147483648", "-2147483649", "4294967296", "4294967295",
               "9223372036854775807", "9223372036854775808", "-9223372036854775808", "-9223372036854775809", "99999999999999999999999",
               "+5", "0x1F", "0X10", "017", "08", "0x", "0xg", "-0x10", "0x7fffffff", "0x80000000", "-0x80000000", "-0x80000001",
               "017777777777", "020000000000", "00", "-0", "0b1", " 7", "\t7", "7 ", "7.0", "7.", "1e3", "", "abc", "--1", "- 1", "1,000",
               "12abc", "٣", "1_0", "0x1.8", "1 2", "-", "+", "0-1", "1L", "1u"]
BOOL_STRINGS = ["yes", "no", "on", "off", "true", "false", "1", "0", "YES", "No", "oN", "OFF", "True", "FALSE", "tRuE", "2", "", "y", "n",
                "tru", "yess", " on", "on ", "00", "01", "-1", "enable", "t", "f", "nope", "1.0", "0x1", "true\t", "ı", "OŃ"]
STRING_VALUES = ["", "x", "a:b", "0:0:0:0:0", "1.0", "/tmp/some/path", "./", "65536:0.5;0:1", "Lazy", "none", "help", "on", "=", "a=b",
                 "deadbeef", "-1", "é", "漢字", "a/b c", "tab\tsep", "x,y", "1;2;3", "%s%n", "'quoted'", "\"dq\"", "\\", "long" * 50]


VALIDATED = (set(xbt1.ENUMS) | set(xbt1.INT_RANGES) | xbt1.MC_GATED | set(xbt1.MODULE_FLAGS)
             | {"model-check/setenv", "model-check/watch", "smpi/host-speed", "smpi/comp-adjustment-file"})


def int_strings(name):
    extra = []
    if name in xbt1.INT_RANGES:
        lo, hi = xbt1.INT_RANGES[name]
        extra = [str(v) for v in (lo - 1, lo, lo + 1, hi - 1, hi, hi + 1) if xbt1.INT_MIN <= v <= xbt1.INT_MAX]
    return st.one_of(st.sampled_from(INT_STRINGS + extra), st.sampled_from(INT_STRINGS + extra),
                     st.integers(xbt1.INT_MIN - 3, xbt1.INT_MAX + 3).map(str),
                     st.integers(-10, 110).map(str),
                     st.integers(-2 ** 70, 2 ** 70).map(str),
                     st.integers(0, 2 ** 33).map(hex), st.integers(0, 2 ** 33).map(lambda v: "0" + oct(v)[2:]),
                     st.text(st.characters(blacklist_characters="\0", blacklist_categories=("Cs",)), max_size=6))


def double_strings():
    return st.one_of(numbers(), numbers(),
                     st.sampled_from(BOUNDARY_NUMS + ["", "abc", "1.5x", "1.5 ", " 1.5", "1,5", "1e", "e5", ".", "--1", "inf", "-inf", "nan",
                                                      "0x10", "0x1p-3", "1.5f", "1d", "1e5e5", "infinity", "1..5", "+.5e-3"]),
                     st.floats(allow_nan=False, allow_infinity=False).map(repr),
                     st.text(st.characters(blacklist_characters="\0", blacklist_categories=("Cs",)), max_size=6))


def bool_strings():
    return st.one_of(st.sampled_from(BOOL_STRINGS),
                     st.sampled_from(xbt1.TRUE_SPELLINGS + xbt1.FALSE_SPELLINGS).flatmap(
                         lambda w: st.lists(st.booleans(), min_size=len(w), max_size=len(w)).map(
                             lambda bs: "".join(c.upper() if b else c for c, b in zip(w, bs)))),
                     st.text(st.characters(blacklist_characters="\0", blacklist_categories=("Cs",)), max_size=5))


def string_values(name, item):
    cands = list(STRING_VALUES)
    special = []
    if name in xbt1.ENUMS:
        must, may = xbt1.ENUMS[name]
        special = list(must) + [m.swapcase() for m in must] + [m + "x" for m in must] + [m[:-1] for m in must] + ["help", "", " " + must[0]]
    elif name in xbt1.MODULE_FLAGS:
        vals = xbt1.module_values(item["desc"]) or []
        # 'help' makes the process exit; plugins run their init function: both are exercised but rarely
        special = list(vals) + [v.lower() for v in vals] + [v + "_" for v in vals] + ["bogus", "", item["shown"]]
    elif name == "model-check/setenv":
        special = ["A=b", "A=b;C=d", "AZE", "=", "", "A", "a b"]
    elif name == "model-check/watch":
        special = ["", "dead", "1,2,3", "10,zz", "xyz", "g", "0x10", "1,,2", "ffffffff", " 1"]
    elif name == "smpi/host-speed":
        special = ["1f", "20000f", "1Gf", "2.5Mf", "1e9", "0f", "-1f", "0", "1s", "1Bps", "fast", "", "1kflops", "1kiloflops", "5e-1kf"]
    elif name == "smpi/comp-adjustment-file":
        special = ["", "/nonexistent/file.csv", "/nonexistent/x"]
    if special:
        return st.one_of(st.sampled_from(special), st.sampled_from(special), st.sampled_from(cands))
    return st.one_of(st.sampled_from(cands), st.text(st.characters(blacklist_characters="\0", blacklist_categories=("Cs",)), max_size=12))


def mutate_name(draw, name):
    how = draw(st.integers(0, 6))
    i = draw(st.integers(0, max(0, len(name) - 1)))
    if how == 0:
        return name[:i] + name[i + 1:]
    if how == 1:
        return name[:i] + name[i:i + 1].swapcase() + name[i + 1:]
    if how == 2:
        return name.replace("-", "_") if "-" in name else name + "_"
    if how == 3:
        return name + draw(st.sampled_from(["/", "x", " ", "-"]))
    if how == 4:
        return name.replace("/", "-", 1) if "/" in name else "x" + name
    if how == 5:
        return draw(st.text("abcdefghijklmnopqrstuvwxyz/-_", min_size=1, max_size=12))
    return name[:i]


@st.composite
def one_op(draw, items, aliases, pure=False):
    names = sorted(n for n in items if not pure or n in xbt1.PURE)
    alias_names = sorted(a for a in aliases if not pure or aliases[a] in xbt1.PURE)
    c = draw(st.integers(0, 19))
    if c == 0:                                   # unknown name
        base = draw(st.sampled_from(names + alias_names))
        nm = mutate_name(draw, base)
        if nm in items or nm in aliases or not nm or any(ch in nm for ch in SEPARATORS + ":\0"):
            nm = base + "-unknown"
        typ = draw(st.sampled_from(["int", "double", "boolean", "string"]))
        real = None
    else:
        validated = [n for n in names if n in VALIDATED]
        if c <= 3 and alias_names:               # through an alias
            nm = draw(st.sampled_from(alias_names))
            real = aliases[nm]
        elif c <= 11 and validated:              # items with a validating callback are a minority of the registry: favour them
            nm = real = draw(st.sampled_from(validated))
        else:
            nm = real = draw(st.sampled_from(names))
        typ = items[real]["type"]
    how = draw(st.sampled_from(["parse", "parse", "string", "string", "typed", "c", "parse" if pure else "argv"]))
    op = {"how": how, "name": nm, "type": typ}
    tname = real or ""
    if how in ("typed", "c"):
        if typ == "int":
            lo, hi = xbt1.INT_RANGES.get(tname, (0, 0))
            op["value"] = draw(st.one_of(st.sampled_from([0, 1, -1, xbt1.INT_MIN, xbt1.INT_MAX, lo - 1 if lo > xbt1.INT_MIN else lo, lo, hi,
                                                          min(hi + 1, xbt1.INT_MAX)]),
                                         st.integers(xbt1.INT_MIN, xbt1.INT_MAX)))
        elif typ == "double":
            op["value"] = draw(st.one_of(st.sampled_from([0.0, -0.0, 1.0, -1.0, 1e-300, 1.7976931348623157e308, 5e-324, 0.1]),
                                         st.floats(allow_nan=False, allow_infinity=False)))
        elif typ == "boolean":
            op["value"] = draw(bool_strings()) if how == "c" else draw(st.booleans())
        else:
            op["value"] = draw(string_values(tname, items.get(tname, {"desc": "", "shown": ""})))
    else:
        if typ == "int":
            v = draw(int_strings(tname))
        elif typ == "double":
            v = draw(double_strings())
        elif typ == "boolean":
            v = draw(bool_strings())
        else:
            v = draw(string_values(tname, items.get(tname, {"desc": "", "shown": ""})))
        if how in ("parse", "argv") and any(ch in v for ch in SEPARATORS):
            op["how"] = "string"                 # --cfg strings are split on blanks and commas: such values need the API
        op["value"] = v
    return op


def spellings(typ, v):
    """strings that the documented grammar reads as the value v (first the canonical ones, C spellings last)"""
    if typ == "boolean":
        return list(xbt1.TRUE_SPELLINGS if v else xbt1.FALSE_SPELLINGS) + (["YES", "On", "TRUE"] if v else ["NO", "Off", "False"])
    if typ == "int":
        return [str(v), str(v), "%s0x%x" % ("-" if v < 0 else "", abs(v)), "+%d" % v if v >= 0 else str(v),
                ("-" if v < 0 else "") + "0" + oct(abs(v))[2:]]
    if typ == "double":
        r = repr(float(v))
        out = [r, r, "%.17e" % v, "%s0" % r if "e" not in r and "." in r else r, "+" + r if v >= 0 else r]
        return [o for o in out if float(o) == v]
    return [v]


VF_VALUES = {   # (accepted values, refused values) of the driver's test flags
    "vf/int-even": (st.one_of(st.sampled_from([0, 2, -2, 4, 100, xbt1.INT_MAX - 1, xbt1.INT_MIN]), st.integers(-50, 50).map(lambda x: 2 * x)),
                    st.one_of(st.sampled_from([1, -1, 3, 7, xbt1.INT_MAX]), st.integers(-50, 50).map(lambda x: 2 * x + 1))),
    "vf/int-range": (st.one_of(st.sampled_from([0, 1, 3, -100, 100, 42]), st.integers(-100, 100)),
                     st.one_of(st.sampled_from([101, -101, 1000, xbt1.INT_MAX, xbt1.INT_MIN]), st.integers(101, 10 ** 6))),
    "vf/double-pos": (st.sampled_from([0.0, 0.5, 1.0, 2.5, 1e-3, 1e10, 0.1, 3.0]), st.sampled_from([-1.0, -0.5, -1e-300, -2.5e10])),
    "vf/bool": (st.booleans(), None),
    "vf/string-abc": (st.sampled_from(["a", "b", "c"]), st.sampled_from(["d", "", "A", "ab", "help"])),
}
PLAIN_VALUES = {"int": st.sampled_from([0, 1, 3, 8, 64, -1, 1000]), "double": st.sampled_from([0.0, 0.5, 1.0, 2.5, 1e-3, 1e10]),
                "boolean": st.booleans(), "string": st.sampled_from(["x", "1.0", "a:b", ""])}


@st.composite
def repeat_seq(draw, items, aliases, pure):
    """2-5 consecutive settings of ONE item through the string routes: the same value again under another spelling / through the
    alias / through another route, a refused value given twice, a change and back, the bound variable poked in between."""
    vf = [n for n in xbt1.VF_FLAGS if n in items]
    c = draw(st.integers(0, 9))
    if vf and c < 6:
        real = draw(st.sampled_from(vf))
    elif not pure and c < 8:
        real = draw(st.sampled_from([n for n in ("smpi/host-speed", "model-check/watch") if n in items] or sorted(items)))
    else:
        pool = sorted(n for n in items if (n in xbt1.PURE if pure else n in xbt1.PLAIN) and n not in xbt1.VF_FLAGS)
        real = draw(st.sampled_from([n for n in pool if n in BOUND_ITEMS] or pool)) if draw(st.booleans()) else draw(st.sampled_from(pool))
    typ = items[real]["type"]
    names = [real, real] + [a for a in aliases if aliases[a] == real]
    if real in VF_VALUES:
        good, bad = VF_VALUES[real]
    elif real == "smpi/host-speed":
        good, bad = st.sampled_from(["1f", "20000f", "2.5Mf", "1Gf"]), st.sampled_from(["fast", "1s", "1Bps", ""])
    elif real == "model-check/watch":
        good, bad = st.sampled_from(["", "dead", "1,2,3"]), st.sampled_from(["xyz", "g", "1,,2"])
    else:
        good, bad = PLAIN_VALUES[typ], None

    def setting(v, canonical=False):
        sp = spellings(typ, v)
        val = sp[0] if canonical else draw(st.sampled_from(sp))
        how = draw(st.sampled_from(["parse", "string", "string"]))
        if any(ch in val for ch in SEPARATORS):
            how = "string"
        return {"how": how, "name": draw(st.sampled_from(names)), "type": typ, "value": val}

    pat = draw(st.sampled_from(["same", "same", "same3", "back", "refused-twice", "refused-twice", "good-bad-bad-good", "poke", "typed-then-string"]))
    if bad is None and pat in ("refused-twice", "good-bad-bad-good"):
        pat = "same3"
    if real not in xbt1.VF_FLAGS and pat == "poke":
        pat = "same"
    v = draw(good)
    ops = []
    if pat in ("same", "same3"):
        ops = [setting(v), setting(v)] + ([setting(v)] if pat == "same3" else [])
    elif pat == "back":
        ops = [setting(v), setting(draw(good)), setting(v)]
    elif pat == "refused-twice":
        b = draw(bad)
        ops = [setting(b), setting(b)] + ([setting(v)] if draw(st.booleans()) else [])
    elif pat == "good-bad-bad-good":
        b = draw(bad)
        ops = [setting(v), setting(b), setting(b), setting(v)]
    elif pat == "poke":
        w = draw(good)
        ops = [setting(v), {"how": "poke", "name": real, "type": typ, "value": w}, setting(v)]
    else:
        ops = [{"how": "typed", "name": real, "type": typ, "value": v}, setting(v), setting(v)]
    for o in ops:
        o["seq"] = pat
    return ops


@st.composite
def cases(draw, items, aliases):
    pure = draw(st.integers(0, 9)) < 7
    if pure:
        # store-only items (and unknown names): no setting can end the process, the case runs without a fork
        n = draw(st.integers(1, 30))
        ops = draw(st.lists(one_op(items, aliases, True), min_size=n, max_size=n))
        for _ in range(draw(st.sampled_from([0, 1, 1, 2, 3]))):
            pos = draw(st.integers(0, len(ops)))
            ops[pos:pos] = draw(repeat_seq(items, aliases, True))
        return {"ops": glue(draw, ops, items, aliases)}
    n = draw(st.integers(1, 14))
    ops = draw(st.lists(one_op(items, aliases), min_size=n, max_size=n))
    replay_first = draw(st.integers(0, 3)) == 0
    if replay_first:
        ops.insert(0, {"how": draw(st.sampled_from(["parse", "string", "typed", "argv"])), "name": "model-check/replay", "type": "string",
                       "value": draw(st.sampled_from(["1;2;3", "0", "x"]))})
    for _ in range(draw(st.sampled_from([0, 1, 1, 2]))):
        pos = draw(st.integers(1 if replay_first else 0, len(ops)))
        ops[pos:pos] = draw(repeat_seq(items, aliases, False))
    # only the first op can go through the command line of the Engine constructor
    if draw(st.integers(0, 3)) == 0 and not any(ch in str(ops[0]["value"]) for ch in SEPARATORS) and ops[0]["how"] in ("parse", "string") \
            and isinstance(ops[0]["value"], str):
        ops[0]["how"] = "argv"
    for i, op in enumerate(ops):
        if op["how"] == "argv" and i > 0:
            op["how"] = "parse"
    # ops that can end the process (validation aborts, open verdicts, 'help') go last, one per case
    pred = predict(ops, items, aliases)
    safe = [op for op, p in zip(ops, pred) if p[0] in SAFE_KINDS]
    risky = [op for op, p in zip(ops, pred) if p[0] not in SAFE_KINDS]
    if ops and ops[0]["how"] == "argv" and ops[0] not in safe:
        ops = [ops[0]]
    else:
        ops = safe + risky[:1]
    return {"ops": glue(draw, ops, items, aliases)}


def glue(draw, ops, items, aliases):
    """now and then glue consecutive --cfg settings into one string, as "--cfg=a:1,b:2" does (only settings whose outcome is
    certain: stored, or refused by an exception)"""
    if draw(st.integers(0, 3)) == 0:
        glued = []
        pred = predict(ops, items, aliases)
        for op, pr in zip(ops, pred):
            if (op["how"] == "parse" and pr[0] in ("ok", "exc") and glued and glued[-1].get("gluable") and glued[-1]["how"] in ("parse", "multi") and len(glued[-1].get("subs", [0])) < 4
                    and op["name"] and not any(ch in op["name"] for ch in SEPARATORS + ":")):
                last = glued[-1]
                if last["how"] == "parse":
                    last.pop("gluable", None)
                    last = glued[-1] = {"how": "multi", "subs": [last], "seps": [], "gluable": True}
                last["subs"].append(op)
                last["seps"].append(draw(st.sampled_from([",", " ", "\t", "\n", ", ", ",,", " , "])))
            else:
                glued.append(dict(op, gluable=True) if op["how"] == "parse" and pr[0] in ("ok", "exc") else op)
        for g in glued:
            g.pop("gluable", None)
        ops = glued
    return ops


# ---------------------------------------------------------------------------------------------
# reference semantics

def resolve(name, items, aliases):
    if name in items:
        return name
    if name in aliases and aliases[name] in items:
        return aliases[name]
    return None


def expect_op(op, items, aliases, replay_active, defaults=None):
    """-> (kind, real, value, why): kind in ok | exc (C++ exception required, nothing changes) | reject (exception or abort, the item
    is in an unknown state afterwards) | open | exit0."""
    real = resolve(op["name"], items, aliases)
    if op["how"] == "poke":
        return ("poke", real, op["value"], "poke") if real in xbt1.VF_FLAGS else ("invalid", real, None, "poke")
    if real is None:
        return ("exc", None, None, "unknown-name")
    typ = items[real]["type"]
    how = op["how"]
    if how in ("typed", "c") and not (how == "c" and typ == "boolean"):
        if op["type"] != typ:
            return ("invalid", real, None, "type-changed")
        val = op["value"]
        pk = "accept"
    else:
        pk, val = xbt1.ref_parse(typ, op["value"])
    if pk == "reject":
        return ("exc", real, None, "unparsable:" + val)
    default = (defaults or {}).get(real, items[real]["shown"] if typ == "string" else None)
    if pk == "lenient":
        if val is None:
            return ("open", real, None, "lenient-spelling")
        v = xbt1.validate(real, val, replay_active, items[real], default)
        return ("open", real, val, "lenient-spelling") if v in ("ok", "open") else ("open-reject", real, None, "lenient-spelling")
    v = xbt1.validate(real, val, replay_active, items[real], default)
    return (v, real, val, "validation" if v != "ok" else "stored")


def flat_ops(ops):
    for op in ops:
        if op["how"] == "multi":
            for s in op["subs"]:
                yield s
        else:
            yield op


def predict(ops, items, aliases):
    res = []
    replay = False
    for op in ops:
        e = expect_op(op, items, aliases, replay)
        res.append(e)
        if e[0] == "ok" and e[1] == "model-check/replay" and e[2] != "":
            replay = True
    return res


def same(typ, got, want):
    if got is None or isinstance(got, dict):
        return False
    if typ == "double":
        if isinstance(got, bool):
            return False
        g = float(got) if isinstance(got, (int, float)) or got in ("inf", "-inf", "nan", "-nan") else float.fromhex(got)
        if math.isnan(want):
            return math.isnan(g)
        return g == want and math.copysign(1, g) == math.copysign(1, want)
    return got == want and type(got) == type(want)


def show(typ, got):
    if typ == "double" and isinstance(got, str):
        try:
            return repr(float.fromhex(got))
        except ValueError:
            return got
    return repr(got)


def bound_expect(real, val, bound):
    """value that the variable bound to item `real` must hold once `val` was stored (None: no statement)."""
    if real in ("precision/timing", "precision/work-amount", "maxmin/concurrency-limit"):
        return val
    if real == "contexts/stack-size" and 0 <= val <= 2 ** 20:
        return val * 1024                      # "Stack size of contexts in KiB"
    if real == "contexts/guard-size" and 0 <= val <= 2 ** 18:
        return val * bound["pagesize"]        # "in memory pages"
    if real == "contexts/nthreads" and val >= 1:
        return val
    if real == "smpi/cpu-threshold":
        return val if val >= 0 else 1.7976931348623157e308     # "or -1 for infinity"
    return None


class C48(core.Prop):
    id = "C48"
    drivers = ["config_driver", "config_argv_driver", "config_inproc_driver"]
    sizes = {"quick": 1000, "thorough": 60000}
    max_workers = 8
    technique = ("property-based testing (Hypothesis): reference parsers (C strtol base 0 / strtod / the eight boolean spellings) and a table "
                 "of the documented validations, against set_parse / set_as_string / set_value<T> / sg_cfg_set_* / --cfg on a real Engine")
    rule = ("The registry (every item: name, type, aliases) is read from the tree's own config::help()/show_aliases(). A case is a sequence "
            "of 1-14 settings executed in ONE process that created an Engine: item drawn among all registered names (20% through an alias, "
            "5% a near-miss unknown name: char dropped, case flipped, '-'<->'_', truncated) x route (--cfg word on the Engine command line "
            "for the first op, set_parse, several settings glued in one --cfg string with every separator, set_as_string, set_value<T>, "
            "sg_cfg_set_*) x value: ints at INT/LONG boundaries, hex/octal/blank/'+' spellings, garbage; doubles from the C27 literal "
            "generator (range boundaries, garbage suffix); booleans in the 8 spellings with random case and near-misses; strings: members / "
            "near-members of the enumerations, module lists read from the help text, random text; values at the bounds of validated int items. "
            "After each op the target item is read back with get_value<T>; after the last op EVERY item is read and compared with the "
            "reference state (so a setting that lands in another item, or survives a rejection, is seen). Oracle per op: unknown name / "
            "unparsable value -> a C++ exception and no item changes; parsed value accepted by the documented validation -> stored value == "
            "reference parse exactly; value refused by the validation -> exception or abort (SIGABRT) with a message on stderr, never a "
            "stored value, never another signal; items without a known rule (new ones) and C spellings the docs do not mention: either. "
            "Settings that may end the process are placed last (one per case). Non-trivial: the case used an alias or a value at a type "
            "boundary (INT_MIN/MAX+-1, LONG overflow, double range boundary, bounds of a validated int) AND held a rejected setting. "
            "Distinct = distinct canonical JSON.")
    assumptions = ["int grammar = strtol(.., 0) as DESIGN.md fixes: plain decimals must be accepted; '+5', hex, octal, leading blanks are "
                   "tolerated either way but if accepted must give the strtol value; doubles: strtod, correctly rounded (exact equality "
                   "with Python's float()), overflow rejected, subnormal/inf/nan/hex open",
                   "validation table (enumerations, int ranges, model-checker-only items, module lists) copied from "
                   "Configuring_SimGrid.rst and the items' help texts; items not in the table get an 'either stored or cleanly rejected' verdict",
                   "get_value<T> is only called with the item's registered type (another T is undefined behaviour by design)",
                   "values with blanks or commas cannot be given through --cfg (set_parse splits on them): they go through the API"]
    ready = True

    def strategy(self, tier):
        items, aliases = registry()
        return cases(items, aliases)

    def fixed_cases(self, tier):
        """every item: a few good and unparsable values in one case (nothing there can end the process), then one case per
        value that the item's validation must refuse; every alias through every string route."""
        items, aliases = registry()
        res = []
        for name in sorted(items):
            it = items[name]
            typ = it["type"]
            vals = {"int": ["0", "1", "-1", "2147483647", "2147483648", "x", "-2147483648", "-2147483649"],
                    "double": ["0.5", "1e-3", "1e999", "1.5x", "-2.5e10"],
                    "boolean": ["yes", "OFF", "2", "True", "0"], "string": ["x", ""]}[typ]
            if name in xbt1.ENUMS:
                vals = list(xbt1.ENUMS[name][0]) + ["bogus"]
            elif name in xbt1.MODULE_FLAGS:
                vals = (xbt1.module_values(it["desc"]) or []) + ["bogus"]
            if name in xbt1.INT_RANGES:
                lo, hi = xbt1.INT_RANGES[name]
                vals += [str(v) for v in (lo - 1, lo, hi, hi + 1) if xbt1.INT_MIN <= v <= xbt1.INT_MAX]
            ops = [{"how": "parse", "name": name, "type": typ, "value": v} for v in vals]
            pred = predict(ops, items, aliases)
            safe = [o for o, p_ in zip(ops, pred) if p_[0] in ("ok", "exc")]
            if safe:
                res.append({"ops": safe})
            for o, p_ in zip(ops, pred):
                if p_[0] not in ("ok", "exc"):
                    res.append({"ops": [o]})
        # the driver's test flags: the same value again (other spelling, alias, other route), a refused value twice, poke and set back
        def S(name, typ, value, how="string"):
            return {"how": how, "name": name, "type": typ, "value": value, "seq": "fixed"}
        if all(n in items for n in xbt1.VF_FLAGS):
            res += [
                {"ops": [S("vf/int-range", "int", "3"), S("vf/int-range", "int", "3"), S("vf/int-range-alias", "int", "0x3", "parse"),
                         S("vf/int-range", "int", "03", "parse")]},
                {"ops": [S("vf/bool", "boolean", "yes"), S("vf/bool", "boolean", "on", "parse"), S("vf/bool-alias", "boolean", "TRUE"),
                         S("vf/bool", "boolean", "no"), S("vf/bool", "boolean", "0")]},
                {"ops": [S("vf/double-pos", "double", "0.5"), S("vf/dpos", "double", "5e-1", "parse"), S("vf/double-pos", "double", ".50")]},
                {"ops": [S("vf/string-abc", "string", "b"), S("vf/sabc", "string", "b", "parse"), S("vf/string-abc", "string", "b")]},
                {"ops": [S("vf/int-even", "int", "3"), S("vf/int-even", "int", "3"), S("vf/int-even", "int", "3", "parse"), S("vf/int-even", "int", "4")]},
                {"ops": [S("vf/int-even", "int", "2"), S("vf/int-even", "int", "7"), S("vf/int-even", "int", "7"), S("vf/int-even", "int", "2")]},
                {"ops": [S("vf/int-range", "int", "101"), S("vf/int-range-alias", "int", "101", "parse"), S("vf/int-range", "int", "100")]},
                {"ops": [S("vf/double-pos", "double", "-1"), S("vf/double-pos", "double", "-1.0"), S("vf/dpos", "double", "-1e0", "parse")]},
                {"ops": [S("vf/string-abc", "string", "d"), S("vf/string-abc", "string", "d"), S("vf/string-abc", "string", "c")]},
                {"ops": [S("vf/int-range", "int", "5"), S("vf/int-range", "int", 9, "poke"), S("vf/int-range", "int", "5")]},
                {"ops": [S("vf/bool", "boolean", "yes"), S("vf/bool", "boolean", False, "poke"), S("vf/bool", "boolean", "true", "parse")]},
                {"ops": [S("vf/int-range", "int", 1, "typed"), S("vf/int-range", "int", "1"), S("vf/int-range", "int", "1", "parse")]},
                {"ops": [S("vf/int-even", "int", "0", "argv"), S("vf/int-even", "int", "0"), S("vf/int-even", "int", "1"), S("vf/int-even", "int", "1")]},
                {"ops": [S("smpi/host-speed", "string", "fast"), S("smpi/host-speed", "string", "fast"), S("smpi/host-speed", "string", "1Gf")]},
                {"ops": [S("model-check/watch", "string", "xyz"), S("model-check/watch", "string", "xyz")]},
                {"ops": [S("precision/timing", "double", "1e-6"), S("surf/precision", "double", "1e-6", "parse"), S("precision/timing", "double", "0.000001")]},
            ]
        for al in sorted(aliases):
            real = aliases[al]
            typ = items[real]["type"]
            v = {"int": "3", "double": "0.25", "boolean": "yes", "string": "1.0"}[typ]
            for how in ("parse", "string", "argv"):
                res.append({"ops": [{"how": how, "name": al, "type": typ, "value": v}]})
        return res

    # -----------------------------------------------------------------------------------------
    def check(self, case):
        oc = core.Outcome()
        items, aliases = registry()
        ops = case["ops"]
        allread = [[n, items[n]["type"]] for n in sorted(items)]
        req = {"read0": allread, "read_end": allread, "ops": [], "argv": []}
        flat = []        # (op, index of the driver step that executes it, position inside a multi)
        first_argv = None
        for op in ops:
            if op["how"] == "argv" and not req["ops"] and first_argv is None:
                first_argv = op
                req["argv"] = ["--cfg=%s:%s" % (op["name"], op["value"])]
                continue
            if op["how"] == "multi":
                s = ""
                for k, sub in enumerate(op["subs"]):
                    s += ("" if k == 0 else op["seps"][k - 1]) + "%s:%s" % (sub["name"], sub["value"])
                    flat.append((sub, len(req["ops"]), k))
                reads = [[r, items[r]["type"]] for r in {resolve(sub["name"], items, aliases) for sub in op["subs"]} if r]
                req["ops"].append({"how": "parse_raw", "name": "", "value": s, "read": reads})
                continue
            real = resolve(op["name"], items, aliases)
            d = {"how": "parse" if op["how"] == "argv" else op["how"], "name": op["name"], "value": op["value"], "type": op["type"]}
            if real:
                d["read"] = [[real, items[real]["type"]]]
            flat.append((op, len(req["ops"]), 0))
            req["ops"].append(d)
        oc.evals = max(1, len(flat) + (1 if first_argv else 0))
        inproc = first_argv is None and all(resolve(o["name"], items, aliases) in xbt1.PURE or resolve(o["name"], items, aliases) is None
                                            for o, _s, _p in flat)
        oc.labels.append("mode:argv" if first_argv is not None else "mode:inproc" if inproc else "mode:fork")
        if inproc:
            r = core.serve("config_inproc_driver", req, cpu=20, wall=120)
            if r.wall_exceeded:
                raise core.Inconclusive()
            if r.rc != 0 or '"restored"' not in r.out:
                inproc = False          # the server died: judge the case in a forked child, where the exit status is exact
            elif '{"ok":true,"step":"restored"}' not in r.out:
                core.server("config_inproc_driver").stop()      # could not put the items back: start from a new process next time
                oc.labels.append("inproc-restore-failed")
        if not inproc:
            r = core.serve("config_argv_driver" if first_argv is not None else "config_driver", req, cpu=20, wall=120)
        if r.wall_exceeded:
            raise core.Inconclusive()
        steps = {}
        for o in r.json_lines():
            if isinstance(o, dict) and "step" in o:
                steps[o["step"]] = o
        died = "end" not in steps
        clean_abort = r.rc == -6 and len(r.err.strip()) > 0
        state = None
        replay = False

        def death(what, allowed, opdesc):
            """the process ended while executing `opdesc`"""
            if what == "exit0" and r.rc == 0:
                oc.labels.append("help-exit")
                return
            if allowed and clean_abort:
                oc.labels.append("rejected-by-abort")
                return
            if allowed and what == "open" and r.rc == 0:
                return
            sig = "crash" if r.rc not in (0, -6) else ("silent-abort" if r.rc == -6 and not clean_abort else "unexpected-end")
            if not allowed and r.rc == -6:
                sig = "valid-setting-aborts" if what == "ok" else "abort-instead-of-exception"
            oc.bad("%s:%s" % (sig, opdesc[1]), "process ended (rc=%s) while executing %s; expected %s; stderr tail: %s"
                   % (r.rc, opdesc[0], what, r.err[-600:]))

        def desc(op):
            real = resolve(op["name"], items, aliases)
            return ("%s %s=%r (item %s, type %s)" % (op["how"], op["name"], op["value"], real, items[real]["type"] if real else "?"), real or "<unknown>")

        boundary = False
        used_alias = False
        had_reject = False

        # ---- the op given on the command line of the Engine constructor
        eng = steps.get("engine")
        if first_argv is not None:
            e = expect_op(first_argv, items, aliases, False)
            oc.labels.append("route:argv")
            if e[0] == "ok" and e[1] == "contexts/factory" and str(first_argv["value"]) not in ("raw", "boost", "thread"):
                # the item itself stores any string, but on this route the Engine constructor USES it at once: a name that is not one
                # of the documented factories is refused there ("Invalid context factory specified ... Please use a valid factory")
                e = ("reject", e[1], e[2], "contexts/factory: not a documented factory name (raw, boost, thread)")
                oc.labels.append("argv:unknown-context-factory")
            if e[0] == "invalid":
                oc.invalid = True
                return oc
            if eng is None:
                death(e[0], e[0] in ("reject", "reject-exc", "open", "open-reject", "exit0"), desc(first_argv))
                return self.finish(oc, boundary, used_alias, True)
            if "exc" in eng:
                if e[0] == "ok":
                    oc.bad("valid-setting-rejected:%s" % e[1], "--cfg=%s:%s made the Engine constructor throw %s (%s); expected value %r"
                           % (first_argv["name"], first_argv["value"], eng["exc"], eng.get("msg"), e[2]))
                oc.labels.append("rejected-by-exception")
                return self.finish(oc, boundary, used_alias, True)
            state = dict(eng.get("read", {}))
            if e[0] in ("exc", "reject", "reject-exc", "open-reject"):
                oc.bad("invalid-setting-accepted:%s:%s" % (e[1] or "<unknown>", e[3].split(":")[0]),
                       "--cfg=%s:%s was accepted by the Engine constructor (item now %s); expected a rejection (%s)"
                       % (first_argv["name"], first_argv["value"], show(items[e[1]]["type"], state.get(e[1])) if e[1] else "-", e[3]))
                return oc
            if e[0] == "exit0":
                oc.bad("help-value-stored:%s" % e[1], "--cfg=%s:help did not print the help and exit" % first_argv["name"])
                return oc
            if e[2] is not None and e[1] in state:
                if not same(items[e[1]]["type"], state[e[1]], e[2]):
                    oc.bad("wrong-value-stored:%s" % e[1], "--cfg=%s:%s -> item %s holds %s, reference parse gives %r"
                           % (first_argv["name"], first_argv["value"], e[1], show(items[e[1]]["type"], state[e[1]]), e[2]))
                    return oc
            if e[0] == "ok" and e[1] == "model-check/replay" and e[2] != "":
                replay = True
            used_alias = used_alias or first_argv["name"] in aliases
        else:
            if eng is None or "exc" in (eng or {}):
                oc.bad("engine-creation-failed", "rc=%s %s stderr: %s" % (r.rc, eng, r.err[-400:]))
                return oc
            state = dict(eng.get("read", {}))
        def pyval(typ, g):
            if typ == "double" and isinstance(g, str):
                return float(g) if g in ("inf", "-inf", "nan", "-nan") else float.fromhex(g)
            return g

        expected = {k: pyval(items[k]["type"], v) for k, v in state.items() if k in items}     # name -> python value, or UNKNOWN

        def to_driver(typ, v):
            return v

        # the driver's own test flags: number of callback invocations and bound variable after each step
        vfm = None
        if eng and isinstance(eng.get("vf"), dict):
            vfm = {n: {"calls": d["calls"], "var": pyval(items[n]["type"], d["var"])} for n, d in eng["vf"].items() if n in items}
        last_refused = {}

        def vf_compare(st__, what):
            """every test flag: callback run exactly once per setting whose value parsed, never otherwise; bound variable = last accepted value"""
            if vfm is None or not isinstance(st__.get("vf"), dict):
                return True
            for n, m in vfm.items():
                o = st__["vf"].get(n)
                if o is None:
                    continue
                if o["calls"] != m["calls"]:
                    oc.bad("callback-count:%s" % n, "after %s the callback of %s has run %d time(s) since the start of the case where exactly %d "
                           "run(s) are due (one per setting whose value parses, refused or not; none otherwise)"
                           % (what, n, o["calls"] - vf0[n], m["calls"] - vf0[n]))
                    return False
                if not same(items[n]["type"], o["var"], m["var"]):
                    oc.bad("bound-variable:%s" % n, "after %s the variable bound to %s holds %s, expected %r (last accepted value)"
                           % (what, n, show(items[n]["type"], o["var"]), m["var"]))
                    return False
            return True

        vf0 = {n: m["calls"] for n, m in (vfm or {}).items()}

        # ---- the other ops
        for op, sidx, pos in flat:
            if req["ops"][sidx]["how"] == "parse_raw":
                # several settings glued in one --cfg string: applied in order, the first refused one throws and ends the string
                if pos > 0:
                    continue
                subs = [o for o, s2, _p in flat if s2 == sidx]
                exps = []
                rp = replay
                for o in subs:
                    e = expect_op(o, items, aliases, rp, None)
                    exps.append(e)
                    if e[0] == "ok" and e[1] == "model-check/replay" and e[2] != "":
                        rp = True
                if any(e[0] not in ("ok", "exc") for e in exps):
                    oc.invalid = True          # (the registry changed since this case was generated)
                    return oc
                f = next((i for i, e in enumerate(exps) if e[0] == "exc"), None)
                for o, e in zip(subs, exps):
                    oc.labels.append("route:multi")
                    oc.labels.append("expect:" + e[0] + (":" + e[3].split(":")[0] if e[0] != "ok" else ""))
                    if o["name"] in aliases:
                        used_alias = True
                        oc.labels.append("alias")
                    if self.is_boundary(o, items[e[1]]["type"] if e[1] else None, e[1]):
                        boundary = True
                        oc.labels.append("boundary-value")
                st_ = steps.get(sidx)
                text = req["ops"][sidx]["value"]
                if st_ is None:
                    death("ok" if f is None else "exc", False, ("glued --cfg string %r" % text, exps[f or 0][1] or "<unknown>"))
                    return self.finish(oc, boundary, used_alias, had_reject)
                if f is None and not st_["ok"]:
                    oc.bad("valid-setting-rejected:%s" % exps[0][1], "glued --cfg string %r threw %s (%s) although every setting is valid"
                           % (text, st_.get("exc"), st_.get("msg")))
                    return oc
                if f is not None:
                    had_reject = True
                    if st_["ok"]:
                        oc.bad("invalid-setting-accepted:%s:%s" % (exps[f][1] or "<unknown>", exps[f][3].split(":")[0]),
                               "glued --cfg string %r was accepted although its setting #%d must be refused (%s)" % (text, f, exps[f][3]))
                        return oc
                for o, e in zip(subs[:f] if f is not None else subs, exps):
                    if expected.get(e[1]) is not UNKNOWN and same(items[e[1]]["type"], expected.get(e[1]), e[2]):
                        oc.labels.append("same-value-again")
                    expected[e[1]] = e[2]
                    if vfm is not None and e[1] in vfm:
                        vfm[e[1]]["calls"] += 1
                        vfm[e[1]]["var"] = e[2]
                        oc.labels.append("callback-count-checked")
                    if e[1] == "model-check/replay" and e[2] != "":
                        replay = True
                if not vf_compare(st_, "the glued --cfg string %r" % text):
                    return oc
                for o, e in zip(subs, exps):
                    if e[1] and expected.get(e[1]) is not UNKNOWN:
                        got = st_.get("read", {}).get(e[1])
                        if not same(items[e[1]]["type"], got, expected[e[1]]):
                            oc.bad("wrong-value-stored:%s" % e[1], "after the glued --cfg string %r (settings before #%s applied) "
                                   "get_value(%s) = %s, the reference says %r" % (text, f, e[1], show(items[e[1]]["type"], got), expected[e[1]]))
                            return oc
                continue
            e = expect_op(op, items, aliases, replay, None)
            kind, real, val, why = e
            if kind == "invalid":
                oc.invalid = True
                return oc
            oc.labels.append("route:" + op["how"])
            oc.labels.append("expect:" + kind + (":" + why.split(":")[0] if kind != "ok" else ""))
            typ = items[real]["type"] if real else None
            if real:
                oc.labels.append("type:" + typ)
            if op["name"] in aliases:
                used_alias = True
                oc.labels.append("alias")
            if self.is_boundary(op, typ, real):
                boundary = True
                oc.labels.append("boundary-value")
            if op.get("seq"):
                oc.labels.append("seq:" + op["seq"])
            isvf = vfm is not None and real in vfm
            st_ = steps.get(sidx)
            if st_ is None:
                had_reject = True
                death(kind, kind in ("reject", "open", "open-reject", "exit0") or (kind == "reject-exc" and not isvf), desc(op))
                return self.finish(oc, boundary, used_alias, had_reject)
            failed = not st_["ok"]
            got = st_.get("read", {}).get(real) if real else None
            if isvf:
                oc.labels.append("callback-count-checked")
                if kind in ("open", "open-reject"):
                    # C spelling (0x.., +5): stored or refused, by the parser or by the callback: take the observed count if it is a possible one
                    o = st_.get("vf", {}).get(real, {})
                    if o.get("calls") in (vfm[real]["calls"], vfm[real]["calls"] + 1) and (failed or o.get("calls") == vfm[real]["calls"] + 1):
                        vfm[real]["calls"] = o["calls"]
                        if not failed:
                            vfm[real]["var"] = pyval(typ, o["var"])
                    else:
                        vfm[real]["calls"] += 0 if failed else 1
            if kind == "poke":
                vfm[real]["var"] = val
                oc.labels.append("poke")
            elif kind == "reject-exc":
                had_reject = True
                if last_refused.get(real) == (val,):
                    oc.labels.append("refused-value-again")
                last_refused[real] = (val,)
                if isvf:
                    vfm[real]["calls"] += 1          # the callback is what refuses: it ran; the bound variable keeps the last accepted value
                if not failed:
                    oc.bad("invalid-setting-accepted:%s:validation" % real, "%s was accepted (item now %s); the validation callback of %s "
                           "refuses this value by throwing%s" % (desc(op)[0], show(typ, got), real,
                                                                 " (it did so earlier in this very case)" if "refused-value-again" in oc.labels[-2:] else ""))
                    return oc
                oc.labels.append("rejected-by-exception")
                expected[real] = UNKNOWN                # the element is written before its callback runs: it holds the refused value
            elif kind == "ok":
                if expected.get(real) is not UNKNOWN and same(typ, expected.get(real), val) and op["how"] != "typed":
                    oc.labels.append("same-value-again")
                if isvf:
                    vfm[real]["calls"] += 1
                    vfm[real]["var"] = val
                if failed:
                    # a std::range_error comes from the value parsers (root cause: the grammar of the type), anything else from the item
                    where = "type=" + typ if st_.get("exc") == "std::range_error" and xbt1.validate(real, val, replay, items[real]) != "reject" \
                        and real in xbt1.PLAIN else real
                    oc.bad("valid-setting-rejected:%s" % where, "%s threw %s (%s); the documented grammar/validation accepts it (value %r)"
                           % (desc(op)[0], st_.get("exc"), st_.get("msg"), val))
                    return oc
                expected[real] = to_driver(typ, val)
                if real == "model-check/replay" and val != "":
                    replay = True
                if True:
                    bnd = st_.get("bound", {})
                    if real in bnd:
                        want_b = bound_expect(real, val, bnd)
                        if want_b is not None:
                            oc.labels.append("bound-variable-checked")
                            if not same(typ, bnd[real], want_b):
                                neg = real == "smpi/cpu-threshold" and val < 0
                                oc.bad("callback-effect-missing:%s%s" % (real, ":negative" if neg else ""),
                                       "%s -> the variable bound to %s holds %s, expected %r: the item's callback did not run or its "
                                       "effect was lost" % (desc(op)[0], real, show(typ, bnd[real]), want_b))
                                if not neg:
                                    return oc
                    if not same(typ, got, val):
                        oc.bad("wrong-value-stored:%s" % real, "%s -> get_value<%s>(%s) = %s, reference parse gives %r"
                               % (desc(op)[0], typ, real, show(typ, got), val))
                        return oc
            elif kind == "exc":
                had_reject = True
                if not failed:
                    oc.bad("invalid-setting-accepted:%s:%s" % (("type=" + typ) if real and why.startswith("unparsable") else (real or "<unknown>"),
                                                               why.split(":")[0]),
                           "%s was accepted (item now %s); expected a C++ exception (%s)" % (desc(op)[0], show(typ, got) if real else "-", why))
                    return oc
                oc.labels.append("exc:" + st_.get("exc", "?"))
                if real and expected.get(real) is not UNKNOWN and not same(typ, got, expected.get(real)):
                    oc.bad("rejected-setting-changed-item:%s" % real, "%s was rejected (%s) but the item changed from %s to %s"
                           % (desc(op)[0], st_.get("exc"), show(typ, expected.get(real)), show(typ, got)))
                    return oc
            elif kind in ("reject", "open-reject"):
                had_reject = True
                if not failed:
                    if kind == "open-reject":
                        oc.bad("invalid-setting-accepted:%s:validation" % real, "%s was accepted (item now %s) although the value it would "
                               "denote is refused by the item's validation" % (desc(op)[0], show(typ, got)))
                    else:
                        oc.bad("invalid-setting-accepted:%s:validation" % real, "%s was accepted (item now %s); the documented validation of "
                               "%s refuses this value" % (desc(op)[0], show(typ, got), real))
                    return oc
                oc.labels.append("rejected-by-exception")
                expected[real] = UNKNOWN
            elif kind == "open":
                if failed:
                    oc.labels.append("open:rejected")
                    expected[real] = UNKNOWN
                else:
                    oc.labels.append("open:stored")
                    if val is not None and not same(typ, got, val):
                        oc.bad("wrong-value-stored:type=%s:c-spelling" % typ, "%s was accepted (allowed) but get_value<%s>(%s) = %s, the C reading is %r"
                               % (desc(op)[0], typ, real, show(typ, got), val))
                        return oc
                    expected[real] = pyval(typ, got)
                    if real == "model-check/replay" and got != "":
                        replay = True
            elif kind == "exit0":
                oc.bad("help-value-stored:%s" % real, "%s did not print the help and exit" % desc(op)[0])
                return oc
            if not vf_compare(st_, desc(op)[0]):
                return oc
        # ---- final state of every item
        end = steps.get("end")
        if end is None:
            oc.bad("unexpected-end", "process ended (rc=%s) after the last op; stderr tail: %s" % (r.rc, r.err[-400:]))
            return oc
        for name, want in expected.items():
            if want is UNKNOWN:
                continue
            got = end.get("read", {}).get(name)
            if not same(items[name]["type"], got, want):
                oc.bad("collateral-change:%s" % name, "after ops %s item %s holds %s, the reference state says %s"
                       % ([desc(o)[0] for o, _s, _p in flat][:6], name, show(items[name]["type"], got), show(items[name]["type"], want)))
                break
        return self.finish(oc, boundary, used_alias, had_reject)

    @staticmethod
    def is_boundary(op, typ, real):
        v = op.get("value")
        if typ == "int":
            try:
                n = int(v, 0) if isinstance(v, str) else int(v)
            except (ValueError, TypeError):
                return False
            b = [xbt1.INT_MIN, xbt1.INT_MAX, xbt1.LONG_MIN, xbt1.LONG_MAX]
            if real in xbt1.INT_RANGES:
                b += list(xbt1.INT_RANGES[real])
            return any(abs(n - x) <= 1 for x in b)
        if typ == "double" and isinstance(v, str):
            k = xbt1.classify_number(v)
            if k[0] == "reject" and k[1] == "double-overflow":
                return True
            return k[0] == "accept" and k[1] != 0 and (abs(k[1]) > 1e307 or abs(k[1]) < 1e-306)
        return False

    @staticmethod
    def finish(oc, boundary, used_alias, had_reject):
        oc.nontrivial = (boundary or used_alias) and had_reject
        return oc


PROP = C48()
