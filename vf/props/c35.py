"""C35 Private parts of partially shared buffers are transferred exactly (level a: the block computations)."""
import itertools

from hypothesis import strategies as st

from .. import core

DRIVER = "smpi_blocks_driver"


# ---------------------------------------------------------------------------------------------
# interval-set reference model (half-open [b,e) intervals; coordinates may be large, so no byte sets)

def norm(blocks):
    """canonical form of a set of bytes: sorted, non-empty, non-touching intervals"""
    res = []
    for b, e in sorted((b, e) for b, e in blocks if e > b):
        if res and b <= res[-1][1]:
            res[-1][1] = max(res[-1][1], e)
        else:
            res.append([b, e])
    return res


def inter(a, b):
    res = []
    for x0, x1 in a:
        for y0, y1 in b:
            lo, hi = max(x0, y0), min(x1, y1)
            if lo < hi:
                res.append([lo, hi])
    return norm(res)


def minus(a, b):
    """bytes of a that are not in b (a, b canonical)"""
    res = []
    for x0, x1 in a:
        cur = x0
        for y0, y1 in b:
            if y1 <= cur or y0 >= x1:
                continue
            if y0 > cur:
                res.append([cur, y0])
            cur = max(cur, y1)
        if cur < x1:
            res.append([cur, x1])
    return norm(res)


def private_of(size, shared):
    """private blocks of SMPI_PARTIAL_SHARED_MALLOC(size, shared offsets): everything that is not shared (documentation)"""
    sh = [[shared[i], shared[i + 1]] for i in range(0, len(shared), 2)]
    return minus([[0, size]] if size > 0 else [], norm(sh))


def ref_shift(vec, off, n):
    """private bytes of the message [off, off+n) of the allocation, in message coordinates"""
    return norm([[max(b, off) - off, min(e, off + n) - off] for b, e in vec if min(e, off + n) > max(b, off)])


def wellformed(blocks, n):
    """what smpi_comm_copy_buffer_callback asserts about a list (check_blocks) + what merge_private_blocks relies on"""
    prev = 0
    for b, e in blocks:
        if not (b <= e <= n):
            return "out-of-frame"
        if b < prev:
            return "unsorted"
        prev = e
    return None


# ---------------------------------------------------------------------------------------------
# generators

UNITS = [1, 1, 1, 1, 3, 4096, (1 << 32) + 1]


@st.composite
def layout(draw, max_size=64, min_size=2):
    """(size, flat shared offsets) as accepted by smpi_shared_malloc_partial: >=1 shared block, start<stop<=size,
    stop < next start (so: private blocks are never empty and never touch)."""
    size = draw(st.integers(max(2, min_size), max_size))
    k = draw(st.integers(1, min(5, (size + 1) // 2)))
    cuts = draw(st.lists(st.integers(0, size), min_size=2 * k, max_size=2 * k, unique=True))
    return size, sorted(cuts)


def near(draw, points, lo, hi):
    """an integer of [lo,hi], preferably on or next to one of `points`"""
    cands = sorted({p + d for p in points for d in (-1, 0, 1) if lo <= p + d <= hi})
    if cands and draw(st.integers(0, 3)) > 0:
        return draw(st.sampled_from(cands))
    return draw(st.integers(lo, hi))


@st.composite
def message(draw, size, shared):
    """offset and length of a message lying inside the allocation (what every valid MPI program sends)"""
    pts = [0, size] + list(shared)
    off = near(draw, pts, 0, size - 1)
    n = near(draw, [p - off for p in pts], 0, size - off)
    return off, n


@st.composite
def wf_blocks(draw, n):
    """a well-formed private-block list inside [0,n]: sorted, non-empty, non-touching blocks (what real callers pass)"""
    k = draw(st.integers(0, min(4, (n + 1) // 2)))
    cuts = sorted(draw(st.lists(st.integers(0, n), min_size=2 * k, max_size=2 * k, unique=True)))
    res = []
    for i in range(0, len(cuts), 2):
        if res and cuts[i] == res[-1][1]:
            continue
        res.append([cuts[i], cuts[i + 1]])
    return res


def scale(x, u):
    if isinstance(x, list):
        return [scale(y, u) for y in x]
    return x * u


@st.composite
def query(draw):
    kind = draw(st.sampled_from(["shift", "shift", "copy", "copy", "copy", "merge", "alloc"]))
    u = draw(st.sampled_from(UNITS))
    if kind == "shift":
        size, sh = draw(layout())
        off, n = draw(message(size, sh))
        return ["shift", scale(private_of(size, sh), u), off * u, n * u]
    if kind == "merge":
        n = draw(st.integers(1, 40))
        full = [[0, n]]
        a = full if draw(st.integers(0, 5)) == 0 else draw(wf_blocks(n))
        b = full if draw(st.integers(0, 5)) == 0 else draw(wf_blocks(n))
        return ["merge", scale(a, u), scale(b, u)]
    if kind == "copy":
        sides = []
        # the same message length on both sides: draw the length first, then a layout + offset where it fits
        n = draw(st.integers(0, 40))
        for _ in range(2):
            if draw(st.integers(0, 4)) == 0:
                sides += [None, 0]
                continue
            size, sh = draw(layout(max_size=max(64, n + 8), min_size=n))
            pts = [0, size] + sh + [p - n for p in sh]
            off = near(draw, pts, 0, min(size - n, size - 1))
            sides += [scale(private_of(size, sh), u), off * u]
        return ["copy", sides[0], sides[1], sides[2], sides[3], n * u]
    # alloc: real allocation, small sizes only (it mmaps), unit 1
    size, sh = draw(layout(max_size=200))
    ptrs = draw(st.lists(st.integers(0, size - 1), min_size=1, max_size=4))
    ptrs = sorted(set(ptrs + [0, size - 1] + [p for p in sh if p < size]))
    return ["alloc", size, sh, ptrs]


# ---------------------------------------------------------------------------------------------
# level (b): end-to-end transfers between two MPI ranks (drivers/smpi_pshared_driver.cpp)

DRIVER_B = "smpi_pshared_driver"
SENDS = ["send", "send", "isend", "ssend", "ssend", "issend", "rsend", "bsend"]


@st.composite
def buffer_b(draw, n):
    """a buffer able to hold n bytes: plain malloc, a small partially shared layout, or a page-scale one (unit 1024 +-1)"""
    kind = draw(st.sampled_from(["plain", "small", "small", "pages", "pages"]))
    if kind == "plain":
        return {"size": draw(st.integers(max(n, 1), max(n, 1) + 16))}
    if kind == "small" or n > 20000:
        size, sh = draw(layout(max_size=max(64, n + 8), min_size=n))
        return {"size": size, "shared": sh}
    units = max(2, -(-n // 1024))
    size, sh = draw(layout(max_size=max(units + 2, 24), min_size=units))
    size *= 1024
    cuts = []
    for c in sh:
        c = c * 1024 + draw(st.sampled_from([-1, 0, 0, 0, 1]))
        c = min(max(c, 0), size)
        if cuts and c <= cuts[-1]:
            c = cuts[-1] + 1
        cuts.append(c)
    if cuts[-1] > size:
        return {"size": size, "shared": sh and [x * 1024 for x in sh]}
    return {"size": size, "shared": cuts}


@st.composite
def xfer(draw):
    n = draw(st.one_of(st.integers(0, 40), st.integers(0, 40), st.integers(1000, 9000), st.sampled_from([4096, 8192, 65535, 65536])))
    x = {"n": n}
    for side, okey in (("src", "so"), ("dst", "do")):
        b = draw(buffer_b(n))
        size = b["size"]
        pts = [0, size] + b.get("shared", []) + [p - n for p in b.get("shared", [])]
        x[side] = b
        x[okey] = near(draw, pts, 0, max(0, min(size - n, size - 1)))
    room = x["dst"]["size"] - x["do"] - n
    x["rn"] = n + (draw(st.integers(0, min(room, 8))) if room > 0 and draw(st.booleans()) else 0)
    x["send"] = draw(st.sampled_from(SENDS))
    x["recv"] = draw(st.sampled_from(["recv", "irecv"]))
    x["first"] = "recv" if x["send"] == "rsend" else draw(st.sampled_from(["recv", "send"]))
    return x


@st.composite
def case_b(draw):
    xs = draw(st.lists(xfer(), min_size=1, max_size=5))
    ns = sorted({x["n"] for x in xs})
    cfg = []
    d = draw(st.sampled_from(["default", "0", "0", "n", "n+1"]))
    dv = 65536
    if d != "default":
        nn = draw(st.sampled_from(ns))
        dv = 0 if d == "0" else nn if d == "n" else nn + 1
        cfg.append("smpi/send-is-detached-thresh:%d" % dv)
    a = draw(st.sampled_from(["default", "default", "n", "n+1", "big"]))
    if a != "default":
        nn = draw(st.sampled_from(ns))
        av = min(nn if a == "n" else nn + 1 if a == "n+1" else 100000, dv)      # SMPI refuses async-small > detached
        cfg.append("smpi/async-small-thresh:%d" % av)
    if draw(st.booleans()):
        cfg.append("smpi/shared-malloc-blocksize:4096")
    return {"cfg": cfg, "xfers": xs}


# ---------------------------------------------------------------------------------------------

class C35(core.Prop):
    id = "C35"
    drivers = [DRIVER, DRIVER_B]
    ready = True
    sizes = {"quick": 8000, "thorough": 400000}
    max_workers = 14
    technique = ("property-based testing (Hypothesis) of the block computations behind smpi_comm_copy_buffer_callback against an "
                 "interval-set reference model; exhaustive enumeration of all layouts/offsets/lengths of allocations <= 8 bytes")
    rule = ("Level (a): direct calls of shift_and_frame_private_blocks / merge_private_blocks (and of the real "
            "smpi_shared_malloc_partial + smpi_is_shared for the block metadata).  A case is a list of 1-6 queries: "
            "'shift' (private blocks of a random partially shared layout, message offset and length inside the allocation, drawn on/next "
            "to block boundaries), 'copy' (the two-sided pipeline of the copy callback: shift on each shared side, [0,n) for a plain "
            "side, then merge), 'merge' (two well-formed block lists), 'alloc' (real allocation, then smpi_is_shared at boundary "
            "pointers).  Coordinates are scaled by 1, 3, 4096 or 2^32+1.  Oracle: the byte set described by the returned list equals "
            "the reference (private bytes of the allocation clipped to the message and shifted; intersection for merge): a missing "
            "byte is a private byte that would not be copied, an extra byte is a shared byte treated as private; the list must be "
            "ascending and inside [0,n] (asserted by the callback / relied upon by merge).  Fixed cases: every layout x offset x "
            "length of allocations of 2..8 bytes.  NON-TRIVIAL: a private block straddles the start or the end of the message "
            "(shift/copy) or two blocks partially overlap (merge).  Distinct = distinct canonical JSON.")
    assumptions = ["messages lie inside the allocation (offset < size, offset+n <= size), layouts satisfy the assertions of "
                   "smpi_shared_malloc_partial (>=1 shared block, blocks non-empty, ascending, not touching)",
                   "merge_private_blocks is only given ascending lists of non-empty, non-touching blocks inside [0,n] (what its callers produce)",
                   "reporting an over-approximation (shared bytes listed as private, still inside the frame) is stricter than the "
                   "statement, which only requires that private bytes are copied; it follows DESIGN.md (a) 'the returned list equals the reference list'",
                   "level (b) (end-to-end MPI transfers, send modes) is not covered by this module yet"]

    def strategy(self, tier):
        a = st.fixed_dictionaries({"q": st.lists(query(), min_size=1, max_size=6)})
        # level (b) forks a 2-rank simulation per case: ~1/12 of the cases
        b = case_b()
        return st.sampled_from(range(12)).flatmap(lambda k: b if k == 0 else a)

    def fixed_cases(self, tier):
        cases = []
        for size in range(2, 9 if tier == "thorough" else 8):
            for k in range(2, size + 2, 2):
                for cuts in itertools.combinations(range(size + 1), k):
                    priv = private_of(size, list(cuts))
                    qs = [["shift", priv, off, n] for off in range(size) for n in range(0, size - off + 1)]
                    cases.append({"q": qs})
        # all pairs of well-formed lists inside [0,5]
        lists = []
        for k in range(0, 7, 2):
            for cuts in itertools.combinations(range(6), k):
                bl = [[cuts[i], cuts[i + 1]] for i in range(0, k, 2)]
                if all(bl[i][1] < bl[i + 1][0] for i in range(len(bl) - 1)):
                    lists.append(bl)
        qs = [["merge", a, b] for a in lists for b in lists]
        for i in range(0, len(qs), 200):
            cases.append({"q": qs[i:i + 200]})
        return cases

    # -----------------------------------------------------------------------------------------
    def _check_shift(self, oc, what, vec, off, n, got):
        """`got` = list returned for the private blocks `vec` of the allocation, message [off, off+n)"""
        ref = ref_shift(vec, off, n)
        wf = wellformed(got, n)
        if wf:
            oc.bad("shift:" + wf, "%s: shift_and_frame_private_blocks(%s, %d, %d) returned %s: not an ascending list inside [0,%d]"
                   % (what, vec, off, n, got, n))
            return
        g = norm(got)
        missing = minus(ref, g)
        extra = minus(g, ref)
        if missing:
            # root cause class: are all lost bytes in a block that begins before the message and ends inside/after it?
            strad = [[b, e] for b, e in vec if b < off < e]
            lost_outside = minus(missing, ref_shift(strad, off, n))
            sig = "shift:private-lost:block-straddles-message-start" if not lost_outside else "shift:private-lost"
            oc.bad(sig, "%s: shift_and_frame_private_blocks(%s, offset=%d, buff_size=%d) returned %s; the private bytes of the "
                   "message are %s: bytes %s of the message are private but would not be copied" % (what, vec, off, n, got, ref, missing))
        if extra:
            oc.bad("shift:shared-as-private", "%s: shift_and_frame_private_blocks(%s, offset=%d, buff_size=%d) returned %s; the "
                   "private bytes of the message are %s: bytes %s are not private" % (what, vec, off, n, got, ref, extra))

    def _check_merge(self, oc, what, a, b, got, n):
        ref = inter(norm(a), norm(b))
        wf = wellformed(got, n)
        if wf:
            oc.bad("merge:" + wf, "%s: merge_private_blocks(%s, %s) returned %s: not an ascending list inside [0,%d]" % (what, a, b, got, n))
            return
        g = norm(got)
        missing = minus(ref, g)
        extra = minus(g, ref)
        if missing:
            oc.bad("merge:private-lost", "%s: merge_private_blocks(%s, %s) returned %s; bytes private on both sides are %s: bytes %s "
                   "would not be copied" % (what, a, b, got, ref, missing))
        if extra:
            oc.bad("merge:shared-as-private", "%s: merge_private_blocks(%s, %s) returned %s; bytes private on both sides are %s: "
                   "bytes %s are not private on both sides" % (what, a, b, got, ref, extra))

    def _labels_msg(self, labels, vec, off, n):
        nt = False
        end = off + n
        if off == 0:
            labels.add("offset-0")
        if n == 0:
            labels.add("length-0")
        for b, e in vec:
            if b < off < e:
                labels.add("block-straddles-start")
                nt = True
            if b < end < e and n > 0:
                labels.add("block-straddles-end")
                nt = True
            if e <= off:
                labels.add("block-before-message")
            if b >= end:
                labels.add("block-after-message")
            if b <= off and end <= e and n > 0:
                labels.add("message-inside-one-private-block")
            if b == off:
                labels.add("block-begins-at-offset")
            if e == off:
                labels.add("block-ends-at-offset")
            if e == end:
                labels.add("block-ends-at-message-end")
            if b == end:
                labels.add("block-begins-at-message-end")
        if n > 0 and not ref_shift(vec, off, n):
            labels.add("message-all-shared")
        return nt

    def check(self, case):
        if "xfers" in case:
            return self.check_b(case)
        oc = core.Outcome()
        r = core.serve(DRIVER, case, cpu=20, wall=120)
        if r.wall_exceeded:
            raise core.Inconclusive()
        outs = r.json_lines()
        if r.rc != 0 or not outs or outs[-1].get("done") is not True or len(outs) != len(case["q"]) + 1:
            oc.bad("driver-crash", "smpi_blocks_driver rc=%s cpu_exceeded=%s, %d answers for %d queries; stderr tail: %s"
                   % (r.rc, r.cpu_exceeded, len(outs), len(case["q"]), r.err[-1500:]))
            return oc
        labels = set()
        nt = False
        for i, (q, o) in enumerate(zip(case["q"], outs)):
            what = "query #%d" % i
            op = q[0]
            labels.add(op)
            if op == "shift":
                _, vec, off, n = q
                nt |= self._labels_msg(labels, vec, off, n)
                if max([n] + [e for _, e in vec]) >= 1 << 32:
                    labels.add("coordinates>=2^32")
                self._check_shift(oc, what, vec, off, n, o["r"])
            elif op == "merge":
                _, a, b = q
                n = max([e for _, e in a + b] + [0])
                partial = any(x0 < y0 < x1 < y1 or y0 < x0 < y1 < x1 for x0, x1 in a for y0, y1 in b)
                if partial:
                    labels.add("merge-partial-overlap")
                    nt = True
                if any(x1 == y1 for _, x1 in a for _, y1 in b):
                    labels.add("merge-equal-ends")
                if any(x1 == y0 or y1 == x0 for x0, x1 in a for y0, y1 in b):
                    labels.add("merge-touching")
                if not a or not b:
                    labels.add("merge-empty-side")
                if any(sum(1 for y0, y1 in b if max(x0, y0) < min(x1, y1)) >= 2 for x0, x1 in a) or \
                   any(sum(1 for y0, y1 in a if max(x0, y0) < min(x1, y1)) >= 2 for x0, x1 in b):
                    labels.add("merge-one-block-meets-several")
                self._check_merge(oc, what, a, b, o["r"], n)
            elif op == "copy":
                _, sv, so, dv, do, n = q
                labels.add("copy:%s->%s" % ("plain" if sv is None else "partial", "plain" if dv is None else "partial"))
                if sv is not None:
                    nt |= self._labels_msg(labels, sv, so, n)
                    self._check_shift(oc, what + " (send side)", sv, so, n, o["s"])
                elif o["s"] != [[0, n]]:
                    oc.bad("driver-bug", "plain side not [[0,n]]")
                if dv is not None:
                    nt |= self._labels_msg(labels, dv, do, n)
                    self._check_shift(oc, what + " (receive side)", dv, do, n, o["d"])
                if wellformed(o["s"], n) is None and wellformed(o["d"], n) is None:
                    # the merge step is judged on what it was really given (so that a defect of the first step is not counted twice)
                    self._check_merge(oc, what + " (merge step)", o["s"], o["d"], o["m"], n)
                    rs = [[0, n]] if sv is None else ref_shift(sv, so, n)
                    rd = [[0, n]] if dv is None else ref_shift(dv, do, n)
                    both = inter(norm(rs), norm(rd))
                    if both:
                        labels.add("copy-some-bytes-private-on-both-sides")
                    else:
                        labels.add("copy-nothing-to-copy")
                    if len(both) >= 2:
                        labels.add("copy->=2-result-blocks")
            elif op == "alloc":
                _, size, sh, ptrs = q
                priv = private_of(size, sh)
                labels.add("alloc-%d-shared-blocks" % (len(sh) // 2) if len(sh) <= 6 else "alloc->=4-shared-blocks")
                if sh[0] == 0:
                    labels.add("alloc-shared-at-0")
                if sh[-1] == size:
                    labels.add("alloc-shared-to-end")
                if o.get("after_free") != 0:
                    oc.bad("alloc:still-registered-after-free", "%s: smpi_is_shared(mem) = %s after smpi_shared_free(mem)" % (what, o.get("after_free")))
                for p, (found, off, blocks) in zip(ptrs, o["ptr"]):
                    if found != 1 or off != p:
                        oc.bad("alloc:offset", "%s: smpi_is_shared(mem+%d) of an allocation of %d bytes returned found=%s offset=%s"
                               % (what, p, size, found, off))
                    elif norm(blocks) != priv or wellformed(blocks, size):
                        miss, extra = minus(priv, norm(blocks)), minus(norm(blocks), priv)
                        oc.bad("alloc:private-lost" if miss else "alloc:shared-as-private",
                               "%s: SMPI_PARTIAL_SHARED_MALLOC(%d, %s): private blocks registered %s, expected %s" % (what, size, sh, blocks, priv))
            if len(oc.violations) > 4:
                break
        oc.labels = sorted(labels)
        oc.nontrivial = nt
        return oc

    # ----------------------------------------------------------------------------------------- level (b)
    @staticmethod
    def _priv(b):
        return private_of(b["size"], b["shared"]) if "shared" in b else [[0, b["size"]]]

    @staticmethod
    def _overshared(b, bs):
        """Root-cause class of a known defect of smpi_shared_malloc_partial: when the LAST shared block ends at the end of the
        allocation and ALIGN_DOWN(stop, page) <= ALIGN_DOWN(stop, blocksize) (e.g. any allocation smaller than a page), the tail
        mapping starts at ALIGN_DOWN(stop, blocksize), i.e. possibly BEFORE the shared block: the private bytes in between are
        mapped on the shared file as well.  Returns those bytes (allocation coordinates)."""
        if "shared" not in b:
            return []
        size, sh = b["size"], b["shared"]
        st_, en = sh[-2], sh[-1]
        if en != size:
            return []
        page = 4096
        up = lambda x, a: -(-x // a) * a
        down = lambda x, a: x // a * a
        start_block, stop_block = up(st_, bs), down(en, bs)
        low_stop = start_block if start_block < down(en, page) else down(en, page)
        if low_stop <= stop_block < size:
            return inter(private_of(size, sh), [[stop_block, size]])
        return []

    def check_b(self, case):
        oc = core.Outcome()
        r = core.serve(DRIVER_B, case, cpu=60, wall=300)
        if r.wall_exceeded:
            raise core.Inconclusive()
        outs = r.json_lines()
        labels = {"level-b"}
        for c in case["cfg"]:
            labels.add("b:cfg:" + c.split(":")[0].split("/")[1])
        recs = {(o["x"], o["side"]): o for o in outs if "x" in o}
        ended = any("end" in o for o in outs)
        nt = False
        for k, x in enumerate(case["xfers"]):
            n, so, do = x["n"], x["so"], x["do"]
            sp, dp = self._priv(x["src"]), self._priv(x["dst"])
            # bytes hit by the known allocator defect are judged apart (own signature) and count as shared for everything else
            bs = 4096 if "smpi/shared-malloc-blocksize:4096" in case["cfg"] else 1 << 20
            so_, do_ = self._overshared(x["src"], bs), self._overshared(x["dst"], bs)
            sp_all, dp_all = sp, dp
            sp, dp = minus(sp, so_), minus(dp, do_)
            if so_ or do_:
                labels.add("b:allocator-tail-defect-in-play")
            what = ("transfer #%d: %s/%s (first: %s) of %d bytes from offset %d of %s to offset %d of %s, cfg %s"
                    % (k, x["send"], x["recv"], x["first"], n, so, x["src"], do, x["dst"], case["cfg"]))
            labels.add("b:send:" + x["send"])
            labels.add("b:%s->%s" % ("partial" if "shared" in x["src"] else "plain", "partial" if "shared" in x["dst"] else "plain"))
            labels.add("b:n:" + ("0" if n == 0 else "<=40" if n <= 40 else "<65536" if n < 65536 else ">=65536"))
            if x["src"]["size"] >= 4096 or x["dst"]["size"] >= 4096:
                labels.add("b:page-scale-buffer")
            for vec, off in ((sp, so), (dp, do)):
                if any(b < off < e for b, e in vec) and len(vec) and vec != [[0, max(e for _, e in vec)]] or \
                        any(b < off + n < e for b, e in vec if n > 0):
                    nt = True
            if any(b < so < e for b, e in sp) and "shared" in x["src"]:
                labels.add("b:src-block-straddles-start")
            if any(b < do < e for b, e in dp) and "shared" in x["dst"]:
                labels.add("b:dst-block-straddles-start")
            rv, sd = recs.get((k, "recv")), recs.get((k, "send"))
            if rv is None or sd is None:
                oc.bad("transfer:crash", "%s: the run stopped (rc=%s, cpu_exceeded=%s); stderr tail: %s" % (what, r.rc, r.cpu_exceeded, r.err[-1200:]))
                break
            # expectation in message coordinates
            ms = ref_shift(sp, so, n)
            md = ref_shift(dp, do, n)
            both = inter(ms, md)
            got_s = norm([[b - do, e - do] for c, b, e in rv["runs"] if c == "S"])
            missing = minus(both, got_s)
            if missing:
                strad = norm(ref_shift([[b, e] for b, e in sp if b < so < e and "shared" in x["src"]], so, n) +
                             ref_shift([[b, e] for b, e in dp if b < do < e and "shared" in x["dst"]], do, n))
                sig = "shift:private-lost:block-straddles-message-start" if not minus(missing, strad) else "transfer:private-byte-not-copied"
                oc.bad(sig, "%s: bytes %s of the message are private on both sides (private on both: %s) but the receive buffer does "
                       "not hold the sender's data there; receive buffer: %s" % (what, missing, both, rv["runs"]))
            # private bytes of the receive buffer outside the message must be untouched; inside, private-on-both must not be garbage
            rpriv_out = minus(dp, [[do, do + n]] if n > 0 else [])
            got_r = norm([[b, e] for c, b, e in rv["runs"] if c == "R"])
            touched = minus(rpriv_out, got_r)
            if touched:
                oc.bad("transfer:private-byte-outside-message-overwritten", "%s: private bytes %s of the receive buffer lie outside the "
                       "message but changed; receive buffer: %s" % (what, touched, rv["runs"]))
            got_x = norm([[b - do, e - do] for c, b, e in rv["runs"] if c == "X" and b >= do and e <= do + n])
            garbage = inter(both, got_x)
            if garbage:
                oc.bad("transfer:wrong-byte", "%s: bytes %s of the message (private on both sides) hold neither the sender's nor the "
                       "receiver's data; receive buffer: %s" % (what, garbage, rv["runs"]))
            own = norm([[b, e] for c, b, e in sd["runs"] if c == "O"])
            hurt = minus(sp, own)
            if hurt:
                oc.bad("transfer:sender-buffer-corrupted", "%s: private bytes %s of the send buffer changed; send buffer: %s" % (what, hurt, sd["runs"]))
            if both:
                labels.add("b:some-bytes-private-on-both-sides")
            if so_ or do_:
                # the same judgement on the bytes that the allocator wrongly shares
                both_all = inter(ref_shift(sp_all, so, n), ref_shift(dp_all, do, n))
                bad = minus(minus(both_all, got_s), both) or minus(minus(minus(dp_all, [[do, do + n]] if n > 0 else []), got_r), rpriv_out) \
                    or minus(minus(sp_all, own), sp)
                if bad:
                    oc.bad("alloc:private-bytes-before-final-shared-block-are-shared",
                           "%s: private bytes %s (send buffer) / %s (receive buffer) are mapped on the shared file by "
                           "smpi_shared_malloc_partial and were overwritten by the other rank (bytes %s); send buffer: %s; receive "
                           "buffer: %s" % (what, so_, do_, bad, sd["runs"], rv["runs"]))
        else:
            if not ended or r.rc != 0:
                oc.bad("transfer:crash", "the simulation did not end normally (rc=%s); stderr tail: %s" % (r.rc, r.err[-1200:]))
        oc.labels = sorted(labels)
        oc.nontrivial = nt
        return oc


PROP = C35()
