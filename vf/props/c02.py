"""C02 Outcome does not depend on context factory or worker threads."""
from hypothesis import strategies as st

from .. import core, s4u, syncgen
from .c01 import KINDS

FACTORIES = ["raw", "boost", "thread"]
SYNCHROS = ["futex", "posix", "busy_wait"]


def per_actor(log):
    """what each actor observed: its own request/response records without the global line number, and the kernel's records
    (signals) as a sorted multiset — the interleaving of same-date lines of different actors is not observable to a program
    whose actors share no memory"""
    acts = {}
    sig = []
    for l in log.lines:
        d = {k: v for k, v in l.items() if k != "n"}
        k = l.get("k")
        if k in ("req", "ret", "body_end", "on_exit"):
            acts.setdefault(l["a"], []).append(core.canon(d))
        elif k in ("done",):
            continue
        else:
            if d.get("type") == "comm":
                # Which of the two s4u::Comm handles (sender's or receiver's) a completed communication is reported through
                # depends on the order in which the two actors ran `pimpl_->set_iface(this)` after their simcall: that code runs
                # in actor context, so under parallel contexts it is whichever thread came last.  Not an observable result of
                # the simulation (dates, hosts and payloads are compared): the handle's name is left out.
                d.pop("name", None)
            sig.append(core.canon(d))
    return acts, sorted(sig)


class C02(core.Prop):
    id = "C02"
    drivers = ["s4u_interp"]
    ready = True
    sizes = {"quick": 150, "thorough": 1000}
    max_workers = 5
    flaky_ok = True
    technique = ("property-based differential testing (Hypothesis): per-actor observation sequences and kernel signal records of a generated "
                 "program under contexts/factory x contexts/nthreads x contexts/synchro vs the sequential raw configuration")
    rule = ("Programs as in C01 (sleeps, execs, blocking/asynchronous communications, message queues, mutexes, semaphores, condition variables, "
            "barriers; actors share no memory of their own) on the 3-host shared platform. Reference run: contexts/factory:raw, nthreads 1. "
            "Compared configurations per program: the two other factories with 1 thread, plus drawn combinations of factory x nthreads in {2,4} x "
            "synchro in {futex, posix, busy_wait} (4 in quick, all 18 in thorough). Oracle: every actor's own sequence of requests/responses "
            "(operation, hex-float dates, values, exceptions, on_exit records) is identical to the reference, and the multiset of kernel records "
            "(time advances, activity starts/ends with dates, actor creations/terminations, deadlock report) is identical; a crash or a run that "
            "does not finish is a violation. "
            "Non-trivial: >=3 actors are runnable in the same scheduling round at some point (>=3 request records of different actors at one date).")
    assumptions = ["parallel runs depend on the OS schedule: a rare race may survive (each parallel configuration is run once in quick, 3x in thorough)",
                   "the cross-actor order of same-date log lines is not compared"]

    def strategy(self, tier):
        prog = syncgen.programs(kinds=KINDS, max_actors=5, max_ops=10, min_actors=3, platform=s4u.small_shared_platform())
        combo = st.tuples(st.sampled_from(FACTORIES), st.sampled_from([2, 4]), st.sampled_from(SYNCHROS))
        n = 4 if tier == "quick" else 18
        return st.tuples(prog, st.lists(combo, min_size=n, max_size=n, unique=True) if tier == "quick" else
                         st.just([(f, t, s_) for f in FACTORIES for t in (2, 4) for s_ in SYNCHROS])).map(
            lambda t: {"program": t[0], "configs": [list(c) for c in t[1]]})

    def check(self, case):
        oc = core.Outcome()
        sc = case["program"]
        base = dict(sc)
        base["cfg"] = ["contexts/factory:raw", "contexts/nthreads:1"]
        ref = s4u.run(base)
        oc.evals = 1
        if ref.wall_exceeded:
            raise core.Inconclusive()
        if not ref.done:
            oc.bad("run-crashed:raw/1", "reference run did not finish: " + ref.crash_text())
            return oc
        ra, rs = per_actor(ref)
        configs = [["boost", 1, "futex"], ["thread", 1, "futex"]] + case["configs"]
        for fac, nth, syn in configs:
            run = dict(sc)
            run["cfg"] = ["contexts/factory:" + fac, "contexts/nthreads:%d" % nth] + (["contexts/synchro:" + syn] if nth > 1 else [])
            name = "%s/%d/%s" % (fac, nth, syn)
            log = s4u.run(run, cpu=60, wall=400)
            oc.evals += 1
            if log.wall_exceeded:
                raise core.Inconclusive()
            if not log.done:
                oc.bad("run-crashed:" + ("parallel" if nth > 1 else fac), "configuration %s did not finish: %s" % (name, log.crash_text()))
                continue
            a, s_ = per_actor(log)
            if a != ra:
                who = sorted(x for x in set(a) | set(ra) if a.get(x) != ra.get(x))[0]
                x, y = ra.get(who, []), a.get(who, [])
                i = 0
                while i < min(len(x), len(y)) and x[i] == y[i]:
                    i += 1
                oc.bad("actor-observations-differ:" + ("parallel" if nth > 1 else fac),
                       "configuration %s: actor %s observes something else than under raw/1 at its record %d:\n  raw/1: %s\n  %s: %s"
                       % (name, who, i, x[i] if i < len(x) else "<end>", name, y[i] if i < len(y) else "<end>"))
            elif s_ != rs:
                only_ref = [z for z in rs if z not in s_][:2]
                only_run = [z for z in s_ if z not in rs][:2]
                oc.bad("kernel-records-differ:" + ("parallel" if nth > 1 else fac),
                       "configuration %s: kernel records differ from raw/1; only raw/1: %s; only %s: %s" % (name, only_ref, name, only_run))
        # non-trivial rule
        by_date = {}
        for l in ref.of("req"):
            by_date.setdefault(l["t"], set()).add(l["a"])
        oc.nontrivial = any(len(v) >= 3 for v in by_date.values())
        if oc.nontrivial:
            oc.labels.append(">=3-actors-same-round")
        if ref.of("deadlock"):
            oc.labels.append("deadlock")
        return oc


PROP = C02()
