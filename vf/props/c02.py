"""C02 Outcome does not depend on context factory or worker threads."""
from hypothesis import strategies as st

from .. import core, lifecycle, s4u, syncgen, timing
from .c01 import KINDS

FACTORIES = ["raw", "boost", "thread"]
SYNCHROS = ["futex", "posix", "busy_wait"]


def per_actor(log):
    """what each actor observed: its own request/response records without the global line number, and the kernel's records
    (signals) as a sorted multiset — the interleaving of same-date lines of different actors is not observable to a program
    whose actors share no memory"""
    acts = {}
    sig = []
    for l in log.lines:
        d = {k: v for k, v in l.items() if k != "n"}
        k = l.get("k")
        if k in ("req", "ret", "body_end", "on_exit"):
            acts.setdefault(l["a"], []).append(core.canon(d))
        elif k in ("done",):
            continue
        else:
            if d.get("type") == "comm":
                # Which of the two s4u::Comm handles (sender's or receiver's) a completed communication is reported through
                # depends on the order in which the two actors ran `pimpl_->set_iface(this)` after their simcall: that code runs
                # in actor context, so under parallel contexts it is whichever thread came last.  Not an observable result of
                # the simulation (dates, hosts and payloads are compared): the handle's name is left out.
                d.pop("name", None)
            sig.append(core.canon(d))
    return acts, sorted(sig)


class C02(core.Prop):
    id = "C02"
    drivers = ["s4u_interp", timing.DRIVER]
    ready = True
    sizes = {"quick": 150, "thorough": 1000}
    max_workers = 5
    flaky_ok = True
    technique = ("property-based differential testing (Hypothesis): per-actor observation sequences and kernel signal records of a generated "
                 "program under contexts/factory x contexts/nthreads x contexts/synchro vs the sequential raw configuration")
    rule = ("Programs as in C01 (sleeps, execs, blocking/asynchronous communications, message queues, mutexes, semaphores, condition variables, "
            "barriers; actors share no memory of their own) on the 3-host shared platform; one program in four is an actor-management program "
            "of C11's generator (creations, kills, kill_all, host switches, restarts, daemons, several of them in one scheduling round; "
            "programs whose reference run ends in one of C11's recorded crash classes are counted invalid). Reference run: contexts/factory:raw, nthreads 1. "
            "Compared configurations per program: the two other factories with 1 thread, plus drawn combinations of factory x nthreads in {2,4} x "
            "synchro in {futex, posix, busy_wait} (4 in quick, all 18 in thorough). Oracle: every actor's own sequence of requests/responses "
            "(operation, hex-float dates, values, exceptions, on_exit records) is identical to the reference, and the multiset of kernel records "
            "(time advances, activity starts/ends with dates, actor creations/terminations, deadlock report) is identical; a crash or a run that "
            "does not finish is a violation. "
            "Non-trivial: >=3 actors are runnable in the same scheduling round at some point (>=3 request records of different actors at one date).")
    assumptions = ["parallel runs depend on the OS schedule: a rare race may survive (each parallel configuration is run once in quick, 3x in thorough)",
                   "the cross-actor order of same-date log lines is not compared"]

    def strategy(self, tier):
        prog = syncgen.programs(kinds=KINDS, max_actors=5, max_ops=10, min_actors=3, platform=s4u.small_shared_platform())
        combo = st.tuples(st.sampled_from(FACTORIES), st.sampled_from([2, 4]), st.sampled_from(SYNCHROS))
        n = 4 if tier == "quick" else 18
        # one program in four is an actor-management program of C11's generator (creations, kills, kill_all, host switches, restarts,
        # daemons, often several of them in one scheduling round): what an actor does between its creation and its first scheduling,
        # or between its kill and its clean-up, goes through factory-specific code (context wrappers)
        life = lifecycle.c11_programs().map(lambda p: dict(p, lifecycle=True))
        progs = st.integers(0, 3).flatmap(lambda k: life if k == 0 else prog)
        return st.tuples(progs, st.lists(combo, min_size=n, max_size=n, unique=True) if tier == "quick" else
                         st.just([(f, t, s_) for f in FACTORIES for t in (2, 4) for s_ in SYNCHROS])).map(
            lambda t: {"program": t[0], "configs": [list(c) for c in t[1]]})

    def fixed_cases(self, tier):
        """the two minimal inputs of C11's recorded finding 'an actor killed in the scheduling round of its creation': the newborn
        goes through the context wrapper of its factory with its death already decided, a path that generated programs reach about
        once in several thousand cases"""
        import json
        import os
        res = []
        root = os.path.dirname(os.path.dirname(os.path.dirname(os.path.abspath(__file__))))
        for name in ("known-actor-killed-in-the-round-of-its-creation.json", "known-actor-created-in-the-round-its-host-is-turned-off.json"):
            path = os.path.join(root, "replays", "C11", name)
            if os.path.exists(path):
                d = json.load(open(path))
                prog = dict(d["case"] if "case" in d else d, lifecycle=True)
                res.append({"program": prog, "configs": [["thread", 2, "futex"], ["boost", 2, "posix"], ["raw", 4, "busy_wait"]]})
        return res

    def check(self, case):
        oc = core.Outcome()
        sc = case["program"]
        life = bool(sc.get("lifecycle"))
        run_ = timing.run if life else s4u.run
        cfg0 = list(sc.get("cfg", [])) if life else []
        base = dict(sc)
        base["cfg"] = cfg0 + ["contexts/factory:raw", "contexts/nthreads:1"]
        ref = run_(base)
        oc.evals = 1
        if ref.wall_exceeded:
            raise core.Inconclusive()
        if life:
            oc.labels.append("actor-management-program")
        if life and not ref.done:
            oc.invalid = True      # the recorded crash classes of C11 (known_findings.json) are C11's business, not a difference between factories
            return oc
        if not ref.done:
            oc.bad("run-crashed:raw/1", "reference run did not finish: " + ref.crash_text())
            return oc
        ra, rs = per_actor(ref)
        configs = [["boost", 1, "futex"], ["thread", 1, "futex"]] + case["configs"]
        for fac, nth, syn in configs:
            run = dict(sc)
            run["cfg"] = cfg0 + ["contexts/factory:" + fac, "contexts/nthreads:%d" % nth] + (["contexts/synchro:" + syn] if nth > 1 else [])
            name = "%s/%d/%s" % (fac, nth, syn)
            log = run_(run, cpu=60, wall=400)
            oc.evals += 1
            if log.wall_exceeded:
                raise core.Inconclusive()
            if not log.done:
                oc.bad("run-crashed:" + ("parallel" if nth > 1 else fac), "configuration %s did not finish: %s" % (name, log.crash_text()))
                continue
            a, s_ = per_actor(log)
            if a != ra:
                who = sorted(x for x in set(a) | set(ra) if a.get(x) != ra.get(x))[0]
                x, y = ra.get(who, []), a.get(who, [])
                i = 0
                while i < min(len(x), len(y)) and x[i] == y[i]:
                    i += 1
                oc.bad("actor-observations-differ:" + ("parallel" if nth > 1 else fac),
                       "configuration %s: actor %s observes something else than under raw/1 at its record %d:\n  raw/1: %s\n  %s: %s"
                       % (name, who, i, x[i] if i < len(x) else "<end>", name, y[i] if i < len(y) else "<end>"))
            elif s_ != rs:
                only_ref = [z for z in rs if z not in s_][:2]
                only_run = [z for z in s_ if z not in rs][:2]
                oc.bad("kernel-records-differ:" + ("parallel" if nth > 1 else fac),
                       "configuration %s: kernel records differ from raw/1; only raw/1: %s; only %s: %s" % (name, only_ref, name, only_run))
        # non-trivial rule
        by_date = {}
        for l in ref.of("req"):
            by_date.setdefault(l["t"], set()).add(l["a"])
        oc.nontrivial = any(len(v) >= 3 for v in by_date.values())
        if oc.nontrivial:
            oc.labels.append(">=3-actors-same-round")
        if ref.of("deadlock"):
            oc.labels.append("deadlock")
        return oc


PROP = C02()
