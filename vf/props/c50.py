"""C50 Legacy xbt containers (xbt_dynar, xbt_dict) behave like their models."""
import json

from .. import core, xbtc

DRIVER = "xbt_containers_driver"
FUZZ = "xbt_containers_fuzz"


class C50(core.Prop):
    id = "C50"
    drivers = [DRIVER, FUZZ]
    ready = True
    sizes = {"quick": 3000, "thorough": 150000}
    max_workers = 14
    technique = ("stateful property-based testing (Hypothesis): operation histories executed on the real xbt_dynar / xbt_dict, every "
                 "return value and the full content after every operation compared with a Python list / dict model")
    rule = ("A case is ONE history (<= 200 operations, bulk fill/drain operations on dicts count for one) on a fresh container. "
            "dynar: element sizes 1,2,4,8,12,24 bytes (scalar mode) or pointers to objects with a logging free function (ptr mode); "
            "push/push_ptr/unshift/insert_at(_ptr)/set beyond and inside the end/pop/pop_ptr/shift/remove_at with and without "
            "destination (free_f called exactly when documented)/get_cpy/get_ptr/first/last/member/sort/map/reset/length/foreach/"
            "NULL-dynar queries, ended by xbt_dynar_free or xbt_dynar_free_container; indices are drawn on the boundaries "
            "(0, middle, last, end).  dict: set/set_ext/get/get_ext/get_elm/remove_ext(std::out_of_range when absent)/length/size/"
            "is_empty/foreach/explicit cursors with rewinds/bulk fills that force rehashes, with keys whose 32-bit hashes collide, "
            "keys that share a bucket before but not after a rehash, empty/long/non-ASCII keys, NULL data, and (1/4 of the "
            "histories, *_ext functions only) keys with embedded NUL bytes; with and without free function.  Oracle: after every "
            "operation return value, length, content as seen by the iteration API (while <= 48 elements; always on foreach) and "
            "the list of objects handed to the free function equal the model's; at the end every live object is freed exactly "
            "once (or never, free_container / no free function).  1/40 of the dynar histories end with a call that violates a "
            "bounds precondition and run in a forked child: the expected behaviour is that the call does not return.  "
            "NON-TRIVIAL: dynar: >= 1 reallocation after the first and a removal strictly inside the array; dict: >= 1 rehash "
            "and a removal from a bucket chain of >= 2 entries.  Distinct = distinct canonical JSON.")
    assumptions = ["iteration order of a dict is unspecified: compared as a set; two traversals of an unchanged dict must agree",
                   "insert_at beyond the end, operations on an empty dynar and out-of-bound indices are precondition violations: "
                   "not generated, except as the last call of the labelled 'abort' class",
                   "qsort with a total order (memcmp of the whole element): the sorted content is unique",
                   "keys given to the non-_ext functions are NUL-free C strings"]

    def strategy(self, tier):
        return xbtc.cases(200)

    def fixed_cases(self, tier):
        # coverage-guided fuzzing of the same API with ASan/UBSan (std::vector / std::map as models inside the target)
        if tier == "quick":
            fuzz = [{"kind": "fuzz", "seed": 1, "runs": 10000, "max_len": 400}]
        else:
            fuzz = [{"kind": "fuzz", "seed": s, "runs": 400000, "max_len": 1200} for s in range(1, 9)]
        # + the smallest form of a few structural corners (always run, independent of the seed)
        return fuzz + [
            {"kind": "dynar", "mode": "scalar", "elmsize": 4, "end": "free",
             "ops": [["push", 1], ["push", 2], ["push", 3], ["remove_at", 3], ["unshift", 0], ["insert_at", 3, 9], ["sort"], ["pop"]]},
            {"kind": "dynar", "mode": "ptr", "free_f": True, "end": "free",
             "ops": [["set", 21, 1], ["push", 1], ["remove_at_free", 3], ["reset"], ["push", 2]]},
            {"kind": "dict", "free_f": True, "binary": False,
             "ops": [["set", "aaaa", True], ["set", "aab@", True], ["set", "b@aa", True], ["remove", "aab@"], ["get", "b@aa"],
                     ["fill", "", 1, 119], ["get", "aaaa"], ["remove", "aaaa"], ["foreach"]]},
        ]

    # -----------------------------------------------------------------------------------------
    def check_fuzz(self, case):
        """one libFuzzer campaign (kind=fuzz: seed/runs/max_len) or the replay of one input (kind=fuzz-input: hex)"""
        import os
        import re
        import shutil
        from .. import build
        oc = core.Outcome()
        d = core.tmpdir()
        try:
            if case["kind"] == "fuzz-input":
                path = os.path.join(d, "input")
                with open(path, "wb") as f:
                    f.write(bytes.fromhex(case["hex"]))
                cmd = [build.drv(FUZZ), path]
                oc.labels.append("fuzz-input-replay")
            else:
                cmd = [build.drv(FUZZ), "-runs=%d" % case["runs"], "-seed=%d" % case["seed"], "-max_len=%d" % case["max_len"],
                       "-artifact_prefix=%s/" % d, "-print_final_stats=1"]
                oc.labels.append("fuzz-campaign")
            r = core.run(cmd, cpu=3600, wall=7200, env=build.runtime_env(), cwd=d, mem_gb=0)
            if r.wall_exceeded:
                raise core.Inconclusive()
            m = re.search(r"stat::number_of_executed_units:\s*(\d+)", r.err)
            oc.evals = int(m.group(1)) if m else 1
            cov = re.findall(r"cov: (\d+)", r.err)
            oc.info = {"executions": oc.evals, "edges_covered": int(cov[-1]) if cov else None}
            oc.nontrivial = case["kind"] == "fuzz" and oc.evals >= 1000
            if r.rc != 0:
                arts = [f for f in os.listdir(d) if f.startswith(("crash-", "leak-", "timeout-", "oom-"))]
                hexin = open(os.path.join(d, arts[0]), "rb").read().hex() if arts else case.get("hex")
                mm = re.search(r"MODEL-MISMATCH [^:]*:\d+: (.*)", r.err)
                if mm:
                    sig = "fuzz:model-mismatch"
                    what = mm.group(1)
                else:
                    a = re.search(r"ERROR: (AddressSanitizer|LeakSanitizer): ([a-zA-Z-]+)", r.err)
                    u = re.search(r"runtime error: (.*)", r.err)
                    sig = "fuzz:%s:%s" % (a.group(1), a.group(2)) if a else "fuzz:ubsan" if u else "fuzz:crash"
                    what = (a.group(0) if a else u.group(0) if u else "exit status %s" % r.rc)
                at = max(r.err.find("ERROR: "), r.err.find("runtime error: "), r.err.find("MODEL-MISMATCH"), 0)
                oc.bad(sig, "%s; replay with the case {\"kind\":\"fuzz-input\",\"hex\":\"%s\"}; report: %s"
                       % (what, hexin, r.err[at:at + 1800]))
        finally:
            shutil.rmtree(d, ignore_errors=True)
        return oc

    def check(self, case):
        if case["kind"] in ("fuzz", "fuzz-input"):
            return self.check_fuzz(case)
        oc = core.Outcome()
        kind = case["kind"]
        abort = None
        if kind == "dynar":
            conc, exp, final, abort = xbtc.resolve_dynar(case)
        else:
            conc, exp, final = xbtc.resolve_dict(case)
        r = core.serve(DRIVER, conc, cpu=30, wall=180)
        if r.wall_exceeded:
            raise core.Inconclusive()
        outs = r.json_lines()
        labels = set([kind])
        ops = conc["ops"]
        if kind == "dynar":
            labels.add("dynar:" + (case["mode"] if case["mode"] == "ptr" else "elmsize-%d" % case["elmsize"]))
            labels.add("dynar-end:" + conc["end"])
        else:
            labels.add("dict:free_f" if case["free_f"] else "dict:no-free_f")
            if case.get("binary"):
                labels.add("dict:binary-keys-allowed")

        def ctx(i):
            lo = max(0, i - 6)
            return "history (concrete, ops %d..%d of %d): %s" % (lo, i, len(ops), json.dumps(ops[lo:i + 1]))

        nsteps = len(exp)
        done = bool(outs) and outs[-1].get("done") is True
        child = None
        if abort is not None:
            if outs and "child" in outs[-1]:
                child = outs[-1]["child"]
                body = outs[:-1]
                done = bool(body) and body[-1].get("done") is True
                outs = body
            labels.add("abort-class:" + abort["class"])
        if abort is None and (r.rc != 0 or not done or len(outs) != nsteps + 2):
            # find how far it went
            oc.bad("%s:driver-crash" % kind, "driver rc=%s cpu_exceeded=%s after %d of %d operations; %s; stderr tail: %s"
                   % (r.rc, r.cpu_exceeded, max(0, len(outs)), nsteps, ctx(min(len(outs), nsteps - 1) if nsteps else 0), r.err[-1200:]))
            oc.labels = sorted(labels)
            return oc

        rs = 0
        mid_removal = False
        chain_removal = False
        for i, (e_r, e_n, e_c, e_f) in enumerate(exp):
            if i >= len(outs):
                break
            o = outs[i]
            op = ops[i]
            name = op[0]
            labels.add("%s.%s" % (kind, name))
            rs = o.get("rs", rs)
            if "error" in o:
                oc.bad("driver-bug", str(o))
                break
            if kind == "dynar":
                if name in ("remove_at", "remove_at_free") and 0 < op[1] < e_n:      # e_n = length after the removal
                    mid_removal = True
                if name == "set" and op[1] > (exp[i - 1][1] if i else 0):
                    labels.add("dynar.set-beyond-end-with-gap")
                if name in ("insert_at", "insert_at_ptr") and op[1] == e_n - 1 and e_n > 1:
                    labels.add("dynar.insert-at-end")
            else:
                if name == "remove" and o.get("chain", 0) >= 2 and e_r == "ok":
                    chain_removal = True
                if name == "remove" and e_r == "throw":
                    labels.add("dict.remove-absent")
                if name in ("set", "set_ext") and i and any(k == op[1] for k, _ in exp[i - 1][2]):
                    labels.add("dict.set-replaces")
                if name in ("set_ext", "get_ext", "remove") and "\x00" in op[1]:
                    labels.add("dict.binary-key-used")
            # --- root-cause class of a known defect: xbt_dict_remove_ext compares keys with strncmp (set/get use memcmp),
            # so a key with an embedded NUL also matches another entry of equal length and hash that agrees up to that NUL
            if kind == "dict" and name in ("remove", "drain") and self._nul_twin(op, exp[i - 1][2] if i else []) and \
                    (o.get("r") != e_r or o.get("n") != e_n or o.get("f", []) != e_f or ("c" in o and sorted(o["c"][:-1]) != e_c)):
                oc.bad("dict:remove_ext:nul-key-compared-as-c-string",
                       "op #%d %s returned %s and left %s entries, the model says %s and %d: the dict holds another key of the same "
                       "length and hash that is equal up to the first NUL byte, and that entry was removed instead; %s"
                       % (i, json.dumps(op), json.dumps(o.get("r")), o.get("n"), json.dumps(e_r), e_n, ctx(i)))
                break
            # --- return value
            if name == "cursor":
                self._check_cursor(oc, o, op, e_n, e_c, i, ctx)
            elif name == "foreach":
                pass
            elif o.get("r") != e_r:
                oc.bad("%s:%s:wrong-result" % (kind, name), "op #%d %s returned %s, the model says %s; %s"
                       % (i, json.dumps(op), json.dumps(o.get("r")), json.dumps(e_r), ctx(i)))
            # --- length / content
            if o.get("n") != e_n:
                oc.bad("%s:%s:wrong-length" % (kind, name), "after op #%d %s the length is %s, the model says %d; %s"
                       % (i, json.dumps(op), o.get("n"), e_n, ctx(i)))
            if "c" in o:
                got = o["c"]
                if kind == "dict":
                    if got[-1] is not True:
                        oc.bad("dict:foreach-cursor-not-freed", "after op #%d the foreach idiom left a cursor" % i)
                    got = sorted(got[:-1])
                if got != e_c:
                    oc.bad("%s:%s:wrong-content" % (kind, name), "after op #%d %s the content is %s, the model says %s; %s"
                           % (i, json.dumps(op), json.dumps(got)[:700], json.dumps(e_c)[:700], ctx(i)))
            elif name == "foreach" or e_n <= xbtc.DUMP_MAX:
                oc.bad("driver-bug", "no content dump at op #%d" % i)
            # --- free function calls
            gf = o.get("f", [])
            if (sorted(gf) if name in ("reset", "fill", "drain") else gf) != (sorted(e_f) if name in ("reset", "fill", "drain") else e_f):
                oc.bad("%s:%s:wrong-frees" % (kind, name), "op #%d %s handed %s to the free function (negative < -999: second free of "
                       "the same object), the model says %s; %s" % (i, json.dumps(op), gf, e_f, ctx(i)))
            if oc.violations:
                break

        if abort is not None:
            # everything before the last call was judged above; the last call must not return
            returned = len(outs) > nsteps and ("n" in outs[nsteps])
            if child is None:
                oc.bad("dynar:driver-crash", "no child status; rc=%s stderr: %s" % (r.rc, r.err[-800:]))
            elif returned or child.get("signal", 0) == 0:
                oc.bad("dynar:precondition-not-enforced:" + abort["op"][0],
                       "the call %s on a dynar of %d elements returned normally (child status %s); every version of this code "
                       "aborts here (xbt_assert)" % (json.dumps(abort["op"]), exp[-1][1] if exp else 0, child))
            elif child.get("signal") != 6:
                oc.bad("dynar:crash-instead-of-assert:" + abort["op"][0], "the call %s ended with signal %s instead of the "
                       "assertion abort; stderr: %s" % (json.dumps(abort["op"]), child.get("signal"), r.err[-600:]))
        elif not oc.violations:
            end = outs[nsteps]
            if end.get("end") is not True:
                oc.bad("%s:free:pointer-not-reset" % kind, "the destructor did not set the handle to NULL")
            if sorted(end.get("f", [])) != sorted(final):
                got_f = end.get("f", [])
                oc.bad("%s:free:wrong-frees" % kind, "the destructor (%s) handed %d objects to the free function, the model says %d: "
                       "never freed %s, freed but not expected (negative < -999: second free of the same object) %s; %s"
                       % (conc.get("end", "xbt_dict_free"), len(got_f), len(final), sorted(set(final) - set(got_f))[:20],
                          sorted(set(got_f) - set(final))[:20], ctx(nsteps - 1)))

        if rs >= 1:
            labels.add("%s:resized>=1" % kind)
        if rs >= 2:
            labels.add("%s:resized>=2" % kind)
        if mid_removal:
            labels.add("dynar:removal-in-the-middle")
        if chain_removal:
            labels.add("dict:removal-from-chain>=2")
        mx = max([e[1] for e in exp] + [0])
        labels.add("max-size:" + ("0-8" if mx <= 8 else "9-48" if mx <= 48 else "49-128" if mx <= 128 else ">128"))
        labels.add("ops:" + ("1-12" if len(ops) <= 12 else "13-60" if len(ops) <= 60 else "61-200"))
        if kind == "dynar":
            oc.nontrivial = rs >= 2 and mid_removal
        else:
            oc.nontrivial = rs >= 1 and chain_removal
        oc.labels = sorted(labels)
        return oc

    @staticmethod
    def _nul_twin(op, content):
        """does the dict (content before the op) hold a key that strncmp() confuses with one of the keys this op removes?"""
        ks = [op[1]] if op[0] == "remove" else [op[1] + chr(op[2] + j) for j in range(op[3])]
        present = [k for k, _ in content]
        for k in ks:
            if "\x00" not in k:
                continue
            kb = k.encode("utf-8")
            cut = kb.index(b"\x00") + 1
            for k2 in present:
                k2b = k2.encode("utf-8")
                if k2 != k and len(k2b) == len(kb) and k2b[:cut] == kb[:cut] and xbtc.djb2(k2) == xbtc.djb2(k):
                    return True
        return False

    def _check_cursor(self, oc, o, op, n, content, i, ctx):
        seen = o.get("r", [])
        acts = op[1]
        valid = {k: v for k, v in content}
        segs = [[]]
        for s, a in zip(seen, acts):
            segs[-1].append(s)
            if a == "rewind":
                segs.append([])
        bad = None
        for seg in segs:
            ks = set()
            for pos, s in enumerate(seg):
                if pos >= n:
                    if s is not None:
                        bad = "an element (%s) is delivered after %d steps on a dict of %d entries" % (s, pos, n)
                elif s is None:
                    bad = "the cursor is exhausted after %d steps on a dict of %d entries" % (pos, n)
                elif s[0] not in valid or valid[s[0]] != s[1]:
                    bad = "the cursor delivers %s which is not an entry of the dict" % (s,)
                elif s[0] in ks:
                    bad = "the cursor delivers key %r twice in one traversal" % s[0]
                else:
                    ks.add(s[0])
            m = min(len(seg), len(segs[0]))
            if seg[:m] != segs[0][:m]:
                bad = "two traversals of the unchanged dict disagree: %s vs %s" % (seg[:m], segs[0][:m])
        if o.get("cnul") is not True:
            bad = "xbt_dict_cursor_free did not reset the cursor"
        if bad:
            oc.bad("dict:cursor", "op #%d %s: %s (seen %s); %s" % (i, json.dumps(op), bad, json.dumps(seen)[:600], ctx(i)))


PROP = C50()
