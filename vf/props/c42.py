"""C42 Happens-before equals transitive dependency."""
import os

from hypothesis import strategies as st

from .. import core, mcds


class C42(core.Prop):
    id = "C42"
    drivers = ["mcds_driver"]
    ready = True
    max_workers = 14
    sizes = {"quick": 12000, "thorough": 400000}
    technique = ("property-based testing (Hypothesis) of odpor::Execution histories against a brute-force reference: "
                 "transitive closure of the pairwise depends() matrix along the sequence, races by their definition")
    rule = ("Hypothesis-generated histories of <=40 transitions over <=6 actors (ids mostly 1..6, sometimes anywhere in 0..30) pushed "
            "into a real odpor::Execution by mcds_driver (in-process, no application): REAL transition objects (mutex, semaphore, "
            "barrier, condvar, comm send/recv/iprobe/test/wait, testany/waitany, actor join/exit/sleep/create, random; built by "
            "their constructors or by deserialize_transition from a packed channel, object ids from pools of 1..3 so that "
            "dependencies are dense) and/or SYNTHETIC transitions (type UNKNOWN) whose depends() is a generated symmetric matrix; "
            "interleaved with remove_last_event, copies, push_partial_execution, the PartialExecution constructor and "
            "get_prefix_before.  At every dump the driver reports dispatch_depends() for all ordered pairs, happens_before(i,j) "
            "for ALL ordered pairs, get_racing_events_of(j) for all j, happens_before_process, and get_reversible_races_of for "
            "synthetic-only histories.  Oracle: hb(i,j) <=> i<j and a chain of pairwise-dependent events leads from i to j "
            "(closure of the dumped matrix; same-actor events are dependent); races(j) = {i from another actor, i->j, no k with "
            "i->k->j} (Execution.hpp), without duplicates; happens_before_process(e,p,limit) <=> proc(e)=p or some k in (e,limit) "
            "of p with e->k; reversible races = the races for which reversible_race(earlier, later) holds, called with the right "
            "handles.  Non-trivial: some pair is ordered only through a chain of >=3 events (not a direct dependency). "
            "Distinct = distinct canonical JSON.")
    assumptions = ["depends() is symmetric on the generated domain (generated matrix symmetric; dispatch_depends symmetrises real "
                   "types); an asymmetry observed in the dump is reported as a violation",
                   "NOMC transition types are excluded (dispatch_depends documents them as never evaluated)",
                   "an execution obtained by get_prefix_before and then extended (SDPOR's get_missing_source_set_actors_from) is only asserted "
                   "inside the prefix and among the new events, which is all its caller reads; remove_last_event on a prefix is outside "
                   "the domain (see notes/C42.md)"]

    def strategy(self, tier):
        if tier == "thorough":      # beyond the statement's bounds: longer histories, more actors
            return mcds.exec_cases(max_len=80, max_actors=12)
        return mcds.exec_cases(max_len=40)

    def fixed_cases(self, tier):
        if os.environ.get("VF_NO_FIXED"):    # sensitivity runs: measure the random search alone
            return []
        return FIXED

    def check(self, case):
        oc = core.Outcome()
        r = mcds.run_case(case)
        if r.wall_exceeded:
            raise core.Inconclusive()
        lines = r.json_lines()
        if not lines or lines[-1].get("done") is not True:
            exc = next((l["exc"] for l in lines if "exc" in l), None)
            oc.bad("driver-crash" if exc is None else "driver-exception",
                   "mcds_driver ended with rc=%s cpu_exceeded=%s exc=%s; stderr tail: %s" % (r.rc, r.cpu_exceeded, exc, r.err[-1500:]))
            return oc
        shadow = mcds.shadow_exec(case["ops"])
        dumps = {l["op"]: l for l in lines if "op" in l}
        if sorted(dumps) != sorted(shadow):
            oc.bad("driver-dumps", "dumps at ops %s, expected at %s" % (sorted(dumps), sorted(shadow)))
            return oc
        opnames = {op[0] for op in case["ops"]}
        for w in ("pop", "copy", "prefix", "pushmany", "ctor"):
            if w in opnames:
                oc.labels.append("op-" + w)
        chain = False
        last = None
        for idx in sorted(dumps):
            d = dumps[idx]
            specs, base = shadow[idx]
            self.check_dump(case, d, specs, oc, "dump at op #%d" % idx, base)
            if oc.violations:
                return oc
            chain = chain or d.get("_chain", False)
            last = (d, specs)
        d, specs = last
        n = d["n"]
        oc.labels.append("n=0" if n == 0 else "n<=5" if n <= 5 else "n<=15" if n <= 15 else "n<=30" if n <= 30 else "n<=40" if n <= 40 else "n<=80")
        fams = sorted({mcds.spec_family(s) for s in specs})
        for f in fams:
            oc.labels.append("fam-" + f)
        if any(s[0] in ("testany", "waitany") for s in specs):
            oc.labels.append("has-any")
        aids = {mcds.spec_aid(s) for s in specs}
        oc.labels.append("actors=%d" % len(aids))
        if aids & {0}:
            oc.labels.append("aid-0")
        if aids & {mcds.MAX_AID}:
            oc.labels.append("aid-30")
        for k in ("_races", "_rej_prev", "_rej_between", "_multi_race", "_chain", "_revraces", "_prefix_extended"):
            if any(dumps[i].get(k) for i in dumps):
                oc.labels.append(k[1:].replace("_", "-"))
        oc.nontrivial = chain
        oc.info = {"n": n, "families": fams}
        return oc

    def check_dump(self, case, d, specs, oc, where, base=None):
        """base = k: the execution is get_prefix_before(k) extended by the events >= k; then only the order inside each part is
        asserted (what SDPOR relies on), see notes/C42.md"""
        n = d["n"]
        exp_aids = [mcds.spec_aid(s) for s in specs]
        if n != len(specs) or d["aid"] != exp_aids:
            oc.bad("execution-content", "%s: the execution holds %d events of actors %s, expected %d events of actors %s"
                   % (where, n, d["aid"], len(specs), exp_aids))
            return
        aids = d["aid"]
        dep = [mcds.bits(r) for r in d["dep"]]
        hb = [mcds.bits(r) for r in d["hb"]]
        # depends(): symmetric, same actor => dependent, synthetic pairs follow the generated matrix
        tabs = case["syn"]
        for i in range(n):
            for j in range(n):
                if i == j:
                    continue
                dij = (dep[i] >> j) & 1
                if dij != (dep[j] >> i) & 1:
                    oc.bad("depends-asymmetric", "%s: depends(%d,%d)=%d but depends(%d,%d)=%d (%s / %s)"
                           % (where, i, j, dij, j, i, 1 - dij, specs[i], specs[j]))
                    return
                if aids[i] == aids[j] and not dij:
                    oc.bad("depends-same-actor", "%s: events %d and %d of actor %d are declared independent" % (where, i, j, aids[i]))
                    return
                if aids[i] != aids[j] and specs[i][0] == "syn" and specs[j][0] == "syn" and dij != tabs["dep"][specs[i][2]][specs[j][2]]:
                    oc.bad("driver-synthetic-depends", "%s: synthetic kinds %d,%d: depends=%d, generated %d"
                           % (where, specs[i][2], specs[j][2], dij, tabs["dep"][specs[i][2]][specs[j][2]]))
                    return
        anc = mcds.ref_happens_before(n, dep)
        for i in range(n):
            exp = 0
            for j in range(i + 1, n):
                if (anc[j] >> i) & 1:
                    exp |= 1 << j
            care = (1 << n) - 1
            if base is not None and i < base:
                care = (1 << base) - 1          # prefix event -> pushed event: not asserted
            if (hb[i] ^ exp) & care:
                diff = (hb[i] ^ exp) & care
                j = (diff & -diff).bit_length() - 1
                got = (hb[i] >> j) & 1
                if j <= i:
                    oc.bad("hb-not-forward", "%s: happens_before(%d,%d) is true although %d does not occur before %d" % (where, i, j, i, j))
                elif got:
                    oc.bad("hb-spurious", "%s: happens_before(%d,%d) is true but no chain of dependent events leads from %d to %d "
                           "(actors %s; dep rows %s)" % (where, i, j, i, j, aids, d["dep"]))
                else:
                    oc.bad("hb-missing", "%s: happens_before(%d,%d) is false but a chain of dependent events leads from %d to %d "
                           "(direct dependency: %s; actors %s; dep rows %s)" % (where, i, j, i, j, bool((dep[i] >> j) & 1), aids, d["dep"]))
                return
        # chain of >= 3 events that is not a direct dependency
        d["_chain"] = any(anc[j] & ~dep[j] & ((1 << j) - 1) for j in range(n))
        # races
        races = mcds.ref_races(n, aids, anc)
        nr = n if base is None else base
        if base is not None:
            d["_prefix_extended"] = True
        for j in range(nr):
            got = d["races"][j]
            if len(set(got)) != len(got):
                oc.bad("races-duplicate", "%s: get_racing_events_of(%d) = %s holds an event twice" % (where, j, got))
                return
            if set(got) != races[j]:
                extra = sorted(set(got) - races[j])
                miss = sorted(races[j] - set(got))
                oc.bad("races-spurious" if extra else "races-missing",
                       "%s: get_racing_events_of(%d) = %s, definition gives %s (spurious %s, missing %s; actors %s; hb rows %s)"
                       % (where, j, sorted(got), sorted(races[j]), extra, miss, aids, d["hb"]))
                return
            if races[j]:
                d["_races"] = True
            if len(races[j]) > 1:
                d["_multi_race"] = True
            # which corners of the implementation's filtering does this event exercise? (labels only)
            prev = max((i for i in range(j) if aids[i] == aids[j]), default=None)
            lastof = {}
            for i in range(j):
                if aids[i] != aids[j] and (anc[j] >> i) & 1:
                    lastof[aids[i]] = i
            for i in lastof.values():
                if i in races[j]:
                    continue
                if prev is not None and i < prev and (anc[prev] >> i) & 1:
                    d["_rej_prev"] = True
                else:
                    d["_rej_between"] = True
        # happens_before_process
        for limit, p, row in (d.get("hbp", []) if base is None else []):
            got = mcds.bits(row)
            for e in range(min(limit, n)):
                exp = aids[e] == p or any(aids[k] == p and (anc[k] >> e) & 1 for k in range(e + 1, limit))
                if bool((got >> e) & 1) != exp:
                    oc.bad("hb-process", "%s: happens_before_process(%d, actor %d, limit %d) = %s, expected %s (actors %s)"
                           % (where, e, p, limit, bool((got >> e) & 1), exp, aids))
                    return
        # reversible races (synthetic-only histories: reversible_race() is a generated table)
        if "revraces" in d:
            if d["rev_bad_args"]:
                oc.bad("revraces-args", "%s: reversible_race() was called %d times with handles that do not designate (this, other)"
                       % (where, d["rev_bad_args"]))
                return
            for j in range(nr):
                exp = {i for i in races[j] if tabs["rev"][specs[i][2]][specs[j][2]]}
                got = d["revraces"][j]
                if set(got) != exp or len(got) != len(set(got)):
                    oc.bad("revraces", "%s: get_reversible_races_of(%d) = %s, expected %s (races %s)" % (where, j, got, sorted(exp), sorted(races[j])))
                    return
                if exp:
                    d["_revraces"] = True


def _syn(n):
    return {"dep": [[0] * n for _ in range(n)], "real": [0] * n, "rev": [[1] * n for _ in range(n)]}


def _chain_case():
    # 1 -> 2 -> 3 ordered only through the middle event (kinds 0-1 and 1-2 dependent, 0-2 independent)
    t = _syn(3)
    t["dep"][0][1] = t["dep"][1][0] = 1
    t["dep"][1][2] = t["dep"][2][1] = 1
    return {"mode": "exec", "syn": t, "ops": [["push", ["syn", 1, 0]], ["push", ["syn", 2, 1]], ["push", ["syn", 3, 2]],
                                              ["push", ["syn", 4, 0]], ["dump", [4, 2], 1]]}


FIXED = [
    {"mode": "exec", "syn": _syn(1), "ops": [["dump", [0], 1]]},
    _chain_case(),
    # mutex: lock/lock same mutex dependent, unlock/wait dependent, different mutexes independent
    {"mode": "exec", "syn": _syn(1), "ops": [["push", ["mutex", "MUTEX_ASYNC_LOCK", 1, 1, -1]], ["push", ["mutex", "MUTEX_ASYNC_LOCK", 2, 1, 1]],
                                             ["push", ["mutex", "MUTEX_WAIT", 1, 1, 1]], ["push", ["mutex", "MUTEX_UNLOCK", 1, 1, 1]],
                                             ["push", ["mutex", "MUTEX_WAIT", 2, 1, 2]], ["push", ["mutex", "MUTEX_ASYNC_LOCK", 3, 2, 3]],
                                             ["dump", [6, 3], 0]]},
    # boundary actor ids
    {"mode": "exec", "syn": {"dep": [[1]], "real": [0], "rev": [[1]]},
     "ops": [["push", ["syn", 30, 0]], ["push", ["syn", 0, 0]], ["push", ["syn", 30, 0]], ["push", ["syn", 29, 0]], ["dump", [4], 1]]},
]

PROP = C42()
