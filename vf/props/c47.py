"""C47 Paje traces are well formed."""
from .. import core, paje, tracegen


class C47(core.Prop):
    id = "C47"
    drivers = [tracegen.DRIVER, "mpi_interp"]
    sizes = {"quick": 450, "thorough": 30000}
    max_workers = 6
    ready = True
    technique = ("property-based testing (Hypothesis): generated S4U programs run with generated tracing options; the Paje file is "
                 "judged by an independent validator (validity predicate)")
    rule = ("Class 1 (2/3 of the cases): generated S4U programs (vf/syncgen: 1-4 actors x <= 8 operations over mutexes, mailboxes, execs, "
            "asynchronous comms, sleeps, on 3 hosts with shared links and a disk) plus actor life-cycle operations inserted at random places "
            "(spawn of 1-2 templates on any host, kill, set_host on oneself or on another actor, suspend / resume, daemons), categorized execs and "
            "sends, user marks and user host variables; x a random subset of tracing/actor, uncategorized, categorized, platform, "
            "platform/topology:no, basic, disable-destroy, disable_link, disable_power, precision 0-12; one case in three makes 2-3 actors on "
            "distinct hosts begin with execs of different sizes with resource-utilisation tracing on (retroactive events that must be sorted in "
            "front of the buffered ones).  Class 2: MPI programs on drivers/mpi_interp "
            "(1-6 ranks x <= 10 steps: barrier, bcast, reduce, allreduce, gather, scatter, allgather, alltoall, scan, matched send/ssend+recv, "
            "sendrecv ring, isend/irecv ring + waitall, simulated sleeps; collective selector default / mpich / ompi / mvapich2) x tracing/smpi with "
            "internals, computing, sleeping, display-sizes, group, basic, uncategorized, platform, disable-destroy, precision.  Oracle: vf/paje.py, "
            "an independent validator of the Paje file: every event defined in the header with the declared number of fields; container types, "
            "variable / state / event / link types, entity values and containers defined before use; timestamps never decrease along the file "
            "(a decrease is classified against the flushes visible in the trace: behind a line that an earlier flush wrote = the known retroactive "
            "class, between two events that were buffered together = buffer-order, never known); "
            "no event on a destroyed container, no double destruction; PajePopState never on an empty stack and nothing left pushed when a "
            "container goes (unless its actor was killed, or ended with a pending asynchronous comm); every link key started once and ended once.  "
            "A run that only crashes with tracing on (same program re-run without tracing) or a tracing exception thrown into an operation is a "
            "violation too.  Non-trivial: a container is created after date 0 or the program has spawn / kill / host change (class 1); >= 2 ranks "
            "and a collective (class 2).")
    assumptions = ["consistency that the statement does not demand (a state / variable / link type used on a container of another container type, "
                   "aliases re-used) is counted as 'remark-*' labels, not reported",
                   "a state left pushed on the container of an actor that was killed while sleeping / computing / communicating, or that ended with "
                   "an asynchronous communication still pending, is tolerated",
                   "with tracing/disable-destroy and containers destroyed during the run the flushes are invisible: a decreasing variable event then "
                   "falls into a wider known class (a mis-sorted buffer cannot be told from a retroactive event there)",
                   "TI (time-independent) traces, tracing/vm and the tracing/smpi/format options are not covered",
                   "programs that do not complete WITHOUT tracing are counted invalid (their crash belongs to other properties)"]

    def strategy(self, tier):
        return tracegen.all_cases()

    def check_mpi(self, case):
        oc = core.Outcome()
        res, text = tracegen.run_mpi(case)
        labels = {"mpi", "np=%d" % case["mpi"]["np"] if case["mpi"]["np"] < 2 else "np>=2"}
        fail = res.failure()
        if fail is not None:
            if fail[0] == "bad-case":
                raise core.Inconclusive("malformed MPI case: " + fail[1][:300])
            # does the program complete without tracing?
            from .. import mpi
            res2 = mpi.run(dict(case["mpi"], cfg=(["smpi/coll-selector:" + case["selector"]] if case.get("selector") else []), fresh=True))
            oc.evals = 2
            if res2.failure() is None:
                oc.bad("mpi-run-fails-only-with-tracing:" + fail[0], "the MPI program completes without tracing; with tracing: %s: %s" % fail)
            else:
                oc.invalid = True
                oc.info = {"failure": fail[0]}
            return oc
        bad, stats = paje.validate(text, flushes_visible="tracing/disable-destroy" not in case["opts"])
        seen = set()
        has_sendrecv = any(o["op"] == "sendrecv" for o in case["mpi"]["prog"])
        for sig, msg, _ in bad:
            # MPI_Sendrecv traces its peers by rank where every other call uses actor ids: its link keys never match (a class of its own)
            cls = "sendrecv:" if has_sendrecv and sig.startswith("link-") else ""
            if not cls and sig.startswith("link-") and "tracing/smpi/internals" in case["opts"] and \
                    any(o["op"] == "send" and o.get("mode") == "ssend" for o in case["mpi"]["prog"]):
                cls = "ssend-with-internals:"         # a synchronous send is traced twice on the sender's side with tracing/smpi/internals
            sig = "mpi:" + cls + sig
            if sig not in seen:
                seen.add(sig)
                oc.bad(sig, msg)
        for o in case["opts"]:
            labels.add(o.replace("tracing/", "opt-"))
        ops = {o["op"] for o in case["mpi"]["prog"]}
        coll = ops & {"barrier", "bcast", "reduce", "allreduce", "gather", "scatter", "allgather", "alltoall", "scan"}
        for k in sorted(coll):
            labels.add("mpi-" + k)
        if case.get("selector"):
            labels.add("selector-" + case["selector"])
        for k in stats["kinds"]:
            labels.add("ev-" + k.replace("Paje", ""))
        if stats["links"]:
            labels.add("mpi-links")
        for k in stats["remarks"]:
            labels.add("remark-" + k)
        oc.labels = sorted(labels)
        oc.nontrivial = case["mpi"]["np"] >= 2 and bool(coll)
        oc.info = {"events": stats["events"], "containers": stats["containers"]}
        return oc

    def check(self, case):
        if "mpi" in case:
            return self.check_mpi(case)
        oc = core.Outcome()
        log, text = tracegen.run(case)
        if log.wall_exceeded:
            raise core.Inconclusive()
        labels = set()
        if not log.done:
            log2, _ = tracegen.run(case, tracing=False)
            oc.evals = 2
            if log2.wall_exceeded:
                raise core.Inconclusive()
            if log2.done:
                import re
                why = "signal-%d" % -log.rc if log.rc < 0 else "rc-%d" % log.rc
                m = re.search(r"Uncaught exception ([\w:]+) by [^:]*: (.*)", log.err)
                lines = [] if m else log.err.splitlines()
                if m:
                    why = re.sub(r"[^a-z]+", "-", re.sub(r"\([^)]*\)", "", (m.group(1).split("::")[-1] + " " + m.group(2)).lower())).strip("-")[:60]
                for l in lines:
                    m = re.match(r"^\[\s*[\d.]+\] \[[^\]]*\] (.*)$", l)
                    if m and not m.group(1).startswith(("Configuration change", "Oops! Deadlock", " - pid", "Current backtrace")) \
                            and "still active, awaiting" not in m.group(1) and not m.group(1).lstrip().startswith("#"):
                        why = re.sub(r"[^a-z]+", "-", re.sub(r"name \S+", "name", m.group(1).lower())).strip("-")[:50]
                oc.bad("run-crashes-only-with-tracing:" + why,
                       "the program completes without tracing; with tracing: " + log.crash_text())
            else:
                oc.invalid = True          # the program itself does not complete: not a matter of tracing
                oc.info = {"crash": log2.crash_text()[-300:]}
                import re
                msgs = [m.group(1) for m in (re.match(r"^\[\s*[\d.]+\] \[[^\]]*\] (.*)$", l) for l in log2.err.splitlines()) if m]
                oc.labels = ["fails-without-tracing:" + re.sub(r"[^a-z]+", "-", (msgs[-1] if msgs else "rc %s" % log2.rc).lower())[:50]]
            return oc
        # (without tracing/actor no container goes before the end of the simulation: the flush horizon stays 0 even if destructions are not written)
        bad, stats = paje.validate(text, flushes_visible=not ("tracing/disable-destroy" in case["opts"] and "tracing/actor" in case["opts"]))
        seen = set()
        # an exception of the tracing layer thrown into an operation of the program (the interpreter logs it and goes on)
        import re
        for r in log.ops():
            if "exc" in r and "not found in parent type" in r["exc"]:
                sig = "tracing-error-in-operation:" + re.sub(r"[^a-z]+", "-", re.sub(r"\([^)]*\)", "", r["exc"].split(":", 1)[-1].lower())).strip("-")[:50]
                if sig not in seen:
                    seen.add(sig)
                    oc.bad(sig, "operation %r of %s failed with %s" % (r["op"], r["a"], r["exc"]))
        finished = {l["a"] for l in log.of("body_end")}
        # Actor::suspend on a suspended actor / Actor::resume on a running one fire their signals all the same: the trace gets a second push /
        # a pop of a state that was never pushed
        depth, unpaired = {}, set()
        for l in log.of("actor_suspend", "actor_resume"):
            d = depth.get(l["a"], 0)
            if l["k"] == "actor_suspend":
                if d >= 1:
                    unpaired.add(l["a"])
                depth[l["a"]] = d + 1
            else:
                if d == 0:
                    unpaired.add(l["a"])
                depth[l["a"]] = max(0, d - 1)
        unpaired |= {a for a, d in depth.items() if d > 0}        # suspended and never resumed (e.g. it ended before the suspension took effect)
        if unpaired:
            labels.add("unpaired-suspend-resume")
        # an actor that ends while one of its asynchronous communications is still pending leaves its "send"/"receive" state pushed (it is
        # popped when the communication completes): tolerated
        pending = set()
        waited = {(r["a"], r["op"][1]) for r in log.ops() if r["op"][0] == "wait" and r.get("n_ret") is not None and "exc" not in r}
        for r in log.ops():
            if r["op"][0] in ("put_async", "get_async"):
                h = r["op"][4] if r["op"][0] == "put_async" else r["op"][2]
                if (r["a"], h) not in waited:
                    pending.add(r["a"])
        for sig, msg, container in bad:
            if "state-left-pushed" in sig and not sig.startswith("host-change:") and container is not None and container.rsplit("-", 1)[0] in pending:
                labels.add("ended-with-a-pending-async-comm")
                continue
            if "state-left-pushed" in sig and not sig.startswith("host-change:") and container is not None and container.rsplit("-", 1)[0] not in finished:
                # an actor that was killed (kill, end of the simulation for a daemon, deadlock) while sleeping / computing / communicating never
                # pops that state: its container goes away with it (tolerated: the statement is about what a running entity does)
                labels.add("killed-in-a-state")
                continue
            if container is not None and container.rsplit("-", 1)[0] in unpaired and ("pop-on-empty" in sig or "state-left-pushed" in sig):
                sig = "unpaired-suspend-resume:" + sig
            if sig not in seen:
                seen.add(sig)
                oc.bad(sig, msg)
        for o in case["opts"]:
            labels.add(o.replace("tracing/", "opt-"))
        if log.of("deadlock"):
            labels.add("deadlock")
        ops = [op[0] for a in case["prog"]["actors"] for op in a["ops"]]
        for k in ("spawn", "kill", "migrate", "set_host", "suspend"):
            if k in ops:
                labels.add("has-" + k)
        if stats["created_after_start"]:
            labels.add("container-created-during-run")
        # resource utilisation traced for activities on different resources that start together and end at different dates: their
        # retroactive events must be inserted IN FRONT of what is still buffered
        if "tracing/uncategorized" in case["opts"] or "tracing/categorized" in case["opts"]:
            by_start = {}
            for l in log.of("act_end"):
                if l.get("type") in ("exec", "comm") and "start" in l:
                    by_start.setdefault(l["start"], set()).add(l["finish"])
            if any(len(v) >= 2 for v in by_start.values()):
                labels.add("utilisation-of-activities-starting-together-ending-apart")
        if stats["max_depth"] >= 2:
            labels.add("state-depth>=2")
        for k in stats["remarks"]:
            labels.add("remark-" + k)
        for k in stats["kinds"]:
            labels.add("ev-" + k.replace("Paje", ""))
        oc.labels = sorted(labels)
        oc.nontrivial = bool(stats["created_after_start"]) or any(k in ops for k in ("spawn", "kill", "migrate", "set_host"))
        oc.info = {"events": stats["events"], "containers": stats["containers"]}
        return oc


PROP = C47()
