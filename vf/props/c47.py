"""C47 Paje traces are well formed."""
from .. import core, paje, tracegen


class C47(core.Prop):
    id = "C47"
    drivers = [tracegen.DRIVER]
    sizes = {"quick": 800, "thorough": 30000}
    max_workers = 6
    technique = ("property-based testing (Hypothesis): generated S4U programs run with generated tracing options; the Paje file is "
                 "judged by an independent validator (validity predicate)")
    rule = ""
    assumptions = []

    def strategy(self, tier):
        return tracegen.cases()

    def check(self, case):
        oc = core.Outcome()
        log, text = tracegen.run(case)
        if log.wall_exceeded:
            raise core.Inconclusive()
        labels = set()
        if not log.done:
            log2, _ = tracegen.run(case, tracing=False)
            oc.evals = 2
            if log2.wall_exceeded:
                raise core.Inconclusive()
            if log2.done:
                import re
                why = "signal-%d" % -log.rc if log.rc < 0 else "rc-%d" % log.rc
                m = re.search(r"Uncaught exception ([\w:]+) by [^:]*: (.*)", log.err)
                lines = [] if m else log.err.splitlines()
                if m:
                    why = re.sub(r"[^a-z]+", "-", re.sub(r"\([^)]*\)", "", (m.group(1).split("::")[-1] + " " + m.group(2)).lower())).strip("-")[:60]
                for l in lines:
                    m = re.match(r"^\[\s*[\d.]+\] \[[^\]]*\] (.*)$", l)
                    if m and not m.group(1).startswith(("Configuration change", "Oops! Deadlock", " - pid", "Current backtrace")) \
                            and "still active, awaiting" not in m.group(1) and not m.group(1).lstrip().startswith("#"):
                        why = re.sub(r"[^a-z]+", "-", re.sub(r"name \S+", "name", m.group(1).lower())).strip("-")[:50]
                oc.bad("run-crashes-only-with-tracing:" + why,
                       "the program completes without tracing; with tracing: " + log.crash_text())
            else:
                oc.invalid = True          # the program itself does not complete: not a matter of tracing
                oc.info = {"crash": log.crash_text()[-300:]}
            return oc
        bad, stats = paje.validate(text)
        seen = set()
        finished = {l["a"] for l in log.of("body_end")}
        # Actor::suspend on a suspended actor / Actor::resume on a running one fire their signals all the same: the trace gets a second push /
        # a pop of a state that was never pushed
        depth, unpaired = {}, set()
        for l in log.of("actor_suspend", "actor_resume"):
            d = depth.get(l["a"], 0)
            if l["k"] == "actor_suspend":
                if d >= 1:
                    unpaired.add(l["a"])
                depth[l["a"]] = d + 1
            else:
                if d == 0:
                    unpaired.add(l["a"])
                depth[l["a"]] = max(0, d - 1)
        if unpaired:
            labels.add("unpaired-suspend-resume")
        # an actor that ends while one of its asynchronous communications is still pending leaves its "send"/"receive" state pushed (it is
        # popped when the communication completes): tolerated
        pending = set()
        waited = {(r["a"], r["op"][1]) for r in log.ops() if r["op"][0] == "wait" and r.get("n_ret") is not None and "exc" not in r}
        for r in log.ops():
            if r["op"][0] in ("put_async", "get_async"):
                h = r["op"][4] if r["op"][0] == "put_async" else r["op"][2]
                if (r["a"], h) not in waited:
                    pending.add(r["a"])
        for sig, msg, container in bad:
            if "state-left-pushed" in sig and not sig.startswith("host-change:") and container is not None and container.rsplit("-", 1)[0] in pending:
                labels.add("ended-with-a-pending-async-comm")
                continue
            if "state-left-pushed" in sig and not sig.startswith("host-change:") and container is not None and container.rsplit("-", 1)[0] not in finished:
                # an actor that was killed (kill, end of the simulation for a daemon, deadlock) while sleeping / computing / communicating never
                # pops that state: its container goes away with it (tolerated: the statement is about what a running entity does)
                labels.add("killed-in-a-state")
                continue
            if container is not None and container.rsplit("-", 1)[0] in unpaired and ("pop-on-empty" in sig or "state-left-pushed" in sig):
                sig = "unpaired-suspend-resume:" + sig
            if sig not in seen:
                seen.add(sig)
                oc.bad(sig, msg)
        for o in case["opts"]:
            labels.add(o.replace("tracing/", "opt-"))
        if log.of("deadlock"):
            labels.add("deadlock")
        ops = [op[0] for a in case["prog"]["actors"] for op in a["ops"]]
        for k in ("spawn", "kill", "migrate", "set_host", "suspend"):
            if k in ops:
                labels.add("has-" + k)
        if stats["created_after_start"]:
            labels.add("container-created-during-run")
        if stats["max_depth"] >= 2:
            labels.add("state-depth>=2")
        for k in stats["kinds"]:
            labels.add("ev-" + k.replace("Paje", ""))
        oc.labels = sorted(labels)
        oc.nontrivial = bool(stats["created_after_start"]) or any(k in ops for k in ("spawn", "kill", "migrate", "set_host"))
        oc.info = {"events": stats["events"], "containers": stats["containers"]}
        return oc


PROP = C47()
