"""C47 Paje traces are well formed."""
from .. import core, paje, tracegen


class C47(core.Prop):
    id = "C47"
    drivers = [tracegen.DRIVER]
    sizes = {"quick": 800, "thorough": 30000}
    max_workers = 6
    technique = ("property-based testing (Hypothesis): generated S4U programs run with generated tracing options; the Paje file is "
                 "judged by an independent validator (validity predicate)")
    rule = ""
    assumptions = []

    def strategy(self, tier):
        return tracegen.cases()

    def check(self, case):
        oc = core.Outcome()
        log, text = tracegen.run(case)
        if log.wall_exceeded:
            raise core.Inconclusive()
        labels = set()
        if not log.done:
            log2, _ = tracegen.run(case, tracing=False)
            oc.evals = 2
            if log2.wall_exceeded:
                raise core.Inconclusive()
            if log2.done:
                import re
                why = "signal-%d" % -log.rc if log.rc < 0 else "rc-%d" % log.rc
                for l in log.err.splitlines():
                    m = re.match(r"^\[\s*[\d.]+\] \[[^\]]*\] (.*)$", l)
                    if m and not m.group(1).startswith(("Configuration change", "Oops! Deadlock", " - pid", "Current backtrace")) \
                            and "still active, awaiting" not in m.group(1) and not m.group(1).lstrip().startswith("#"):
                        why = re.sub(r"[^a-z]+", "-", re.sub(r"name \S+", "name", m.group(1).lower())).strip("-")[:50]
                oc.bad("run-crashes-only-with-tracing:" + why + (":after-deadlock" if log.of("deadlock") else ""),
                       "the program completes without tracing; with tracing: " + log.crash_text())
            else:
                oc.invalid = True          # the program itself does not complete: not a matter of tracing
                oc.info = {"crash": log.crash_text()[-300:]}
            return oc
        bad, stats = paje.validate(text)
        seen = set()
        finished = {l["a"] for l in log.of("body_end")}
        for sig, msg, container in bad:
            if "state-left-pushed" in sig and not sig.startswith("host-change:") and container is not None and container.rsplit("-", 1)[0] not in finished:
                # an actor that was killed (kill, end of the simulation for a daemon, deadlock) while sleeping / computing / communicating never
                # pops that state: its container goes away with it (tolerated: the statement is about what a running entity does)
                labels.add("killed-in-a-state")
                continue
            if sig not in seen:
                seen.add(sig)
                oc.bad(sig, msg)
        for o in case["opts"]:
            labels.add(o.replace("tracing/", "opt-"))
        if log.of("deadlock"):
            labels.add("deadlock")
        ops = [op[0] for a in case["prog"]["actors"] for op in a["ops"]]
        for k in ("spawn", "kill", "migrate", "set_host", "suspend"):
            if k in ops:
                labels.add("has-" + k)
        if stats["created_after_start"]:
            labels.add("container-created-during-run")
        if stats["max_depth"] >= 2:
            labels.add("state-depth>=2")
        for k in stats["kinds"]:
            labels.add("ev-" + k.replace("Paje", ""))
        oc.labels = sorted(labels)
        oc.nontrivial = bool(stats["created_after_start"]) or any(k in ops for k in ("spawn", "kill", "migrate", "set_host"))
        oc.info = {"events": stats["events"], "containers": stats["containers"]}
        return oc


PROP = C47()
