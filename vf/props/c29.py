"""C29 Every collective algorithm computes the MPI result."""
import re

import numpy as np
from hypothesis import strategies as st

from .. import coll, core, mpi

NP = coll.NP
ALL_SIZES = list(range(1, NP + 1))

# An algorithm may REFUSE a configuration (communicator size, count...) before producing anything: by throwing (caught per call by
# the driver) or by xbt_assert/xbt_die (kills the run).  A fatal message is a refusal only when it says that the configuration
# is not supported; anything else (THROW_IMPOSSIBLE, failed internal assertions, signals) is a violation.
REFUSAL_RE = re.compile(r"power of (two|2)|can't be used|cannot be used|only works|only work|not supported|unsupported|must be (a )?(multiple|power|even|divisible)"
                        r"|should be (a )?(multiple|power|even|divisible)|requires? |need(s)? |not implemented|not be used|doesn't (work|support)|does not (work|support)"
                        r"|works? only|too small|at least|No implementation|multiple of|divisible", re.I)


# message-less guards: `xbt_assert(pof2 == comm_size)`, `xbt_assert(recvcounts[i] == recvcounts[i+1])` in src/smpi/colls
ASSERT_GUARD_RE = re.compile(r"src/smpi/colls/\S+: \[root/CRITICAL\] Assertion [^|]*\b(pof2|comm_size|num_procs|nprocs|recvcounts|recvcount|sendcount|count)\b[^|]* failed")
GLIBC_RE = re.compile(r"malloc|free\(\)|corrupted|munmap_chunk|double free|invalid (next )?size|realloc\(\)|invalid pointer")


def fatal_message(err):
    """the line of stderr that says why the run died (not the backtrace)"""
    lines = [l.strip() for l in err.splitlines() if l.strip() and "Switch to algorithm" not in l]
    for l in lines:
        if "CRITICAL" in l or "ssertion" in l or GLIBC_RE.search(l) or "Deadlock" in l or "terminate called" in l or "what():" in l:
            return l[-400:]
    return " | ".join(lines[-3:])[-400:]


SMP_NAME_RE = re.compile(r"smp|two_level|mvapich2|impi|mpich|^ompi$|automatic|loosely|inter_node|intra_node|NTS|default", re.I)


def pof2(p):
    return p & (p - 1) == 0


MEMORY_UNSAFE = ("crash-", "abort", "guard-overrun")
LAST_RUN = None


class Run:
    """One check of a case.  Everything is first run in ONE simulated program (one fork); when something goes wrong the suspect
    calls are re-run ALONE (own fork, buffers reported in full) and only the verdict of that isolated run is reported, so that a call
    is never blamed for what an earlier call did to the process (heap corruption, leftover messages of a refused call)."""

    def __init__(self, case, oc):
        self.case, self.oc = case, oc
        self.coll, self.algo = case["coll"], case["algo"]
        self.calls = case["calls"]
        self.plans = {}
        self.fail = {}            # (target, kind) -> [(p, ci, msg)]
        self.refusals = {}        # p -> how
        self.judged = 0
        self.nontrivial = False
        self.abort_refusals = {}    # (target, p) -> calls refused by xbt_assert/xbt_die (each one kills a simulated program)
        self.unknown_failures = {}  # target -> failing (size, call) that no known finding explains
        self.ok_items = []          # (p, ci) that went through the whole oracle
        self.unsafe_calls = set()   # call indices confirmed (alone) to damage the process: never again in a batch
        self.retried = set()        # (p, ci) that failed in a batch but passed alone: re-run once in a later batch

    def plan(self, p, ci):
        key = (p, ci)
        if key not in self.plans:
            self.plans[key] = coll.Plan(self.calls[ci], p)
        return self.plans[key]

    def target(self, ci):
        """(collective, implementation) whose code executes call ci"""
        c = self.calls[ci]
        k = c["k"]
        if c.get("nb"):
            return ("i" + k, "nbc")
        if coll.COLL_OF_KIND.get(k) == self.coll:
            return (self.coll, self.algo)
        if k in coll.COLL_OF_KIND:
            return (coll.COLL_OF_KIND[k], "default")
        return (k, "single")

    # ---- program
    def execute(self, batch, full=False):
        """batch: {p: [call indices]} -> (Result, {(p, ci): prog index}, {p: prog index of its Comm_split})"""
        prog = coll.prologue()
        where, split_at = {}, {}
        for p in sorted(batch):
            mem = coll.members_of(self.case, p)
            color = [None] * NP
            key = [0] * NP
            for cr, w in enumerate(mem):
                color[w], key[w] = 0, cr
            split_at[p] = len(prog)
            prog.append({"op": "comm_split", "comm": "world", "color": {"@": color}, "key": {"@": key}, "out": "c%d" % p})
            for ci in batch[p]:
                P = self.plan(p, ci)
                a = dict(P.common, op="coll", comm="c%d" % p, only=mem)
                for name, vals in P.per.items():
                    a[name] = coll.per_world(mem, vals)
                if P.rcheck is not None and any(x is not None for x in P.rcheck):
                    W = coll.WORDSIZE[P.base]
                    a["rcheck"] = coll.per_world(mem, [(P.R0.shape[1] if x is None else x) * W for x in P.rcheck], 0)
                dl = coll.delays_of(self.calls[ci], p, P.common["root"])
                if dl:
                    a["delay"] = coll.per_world(mem, dl, 0.0)
                if full:
                    a["full"] = True
                where[(p, ci)] = len(prog)
                prog.append(a)
        kase = {"np": NP, "nhosts": self.case.get("nhosts", NP), "prog": prog}
        if self.coll != "nbc":
            kase["cfg"] = ["smpi/%s:%s" % (self.coll, self.algo)]
        res = mpi.run(kase, cpu=150, wall=1500)
        self.oc.evals += 1
        fail = res.failure()
        if fail and fail[0] == "driver-failed":
            # no crash record, no deadlock message, no budget exceeded: the forked run or the fork server died for a reason that the
            # program does not explain (seen once under load, not reproducible): once more; twice in a row is not a verdict either
            res = mpi.run(kase, cpu=150, wall=1500)
            self.oc.evals += 1
            fail = res.failure()
            if fail and fail[0] == "driver-failed":
                raise core.Inconclusive("mpi_interp failed twice without explanation: rc=%s %s" % (res.rr.rc, res.rr.err[-300:]))
        if fail and fail[0] == "bad-case" and len(where) <= 1:
            raise RuntimeError(fail[1])
        # (in a longer program a "malformed case" exit can also be the symptom of a damaged process: a handle table that lost an
        # entry...: handled like an unattributed crash, every call gets its own run)
        return res, where, split_at

    # ---- reading one run: status of every (p, ci)
    def scan(self, res, where, split_at):
        """-> {(p, ci): ("ok",) | ("refused", how) | ("nocomm", excs) | ("bad", kind, msg) | ("missing",)}"""
        st = {}
        for (p, ci), pi in sorted(where.items()):
            mem = coll.members_of(self.case, p)
            recs = [res.get(w, pi) for w in mem]
            if any(r is None for r in recs):
                st[(p, ci)] = ("missing", [cr for cr, r in enumerate(recs) if r is None])
                continue
            if any(r.get("skip") == "nocomm" for r in recs):
                st[(p, ci)] = ("nocomm", [(res.get(w, split_at[p]) or {}).get("exc") for w in mem])
                continue
            st[(p, ci)] = self.judge_call(p, ci, recs)
        return st

    def judge_call(self, p, ci, recs):
        P = self.plan(p, ci)
        call = self.calls[ci]
        excs = [r.get("exc") for r in recs]
        if any(e is not None for e in excs):
            if all(e is not None for e in excs):
                return ("refused", "exception", excs[0])
            return ("bad", "partial-refusal", "only ranks %s threw: %s" % ([i for i, e in enumerate(excs) if e], [e for e in excs if e][0]))
        rcs = sorted(set(r["rc"] for r in recs))
        if rcs != [0]:
            # an error code returned by every rank with every buffer untouched is a refusal too (alltoall 2dmesh/3dmesh: MPI_ERR_OTHER)
            untouched = all(r["rcrc"] == coll.crc(P.R0[cr], None if P.rcheck is None else P.rcheck[cr]) and r["scrc"] == coll.crc(P.S[cr])
                            for cr, r in enumerate(recs)) if call["k"] != "barrier" else True
            if len(rcs) == 1 and untouched:
                return ("refused", "error-code", "every rank returned error code %d" % rcs[0])
            return ("bad", "error-code", "return codes %s%s" % (rcs, "" if untouched else " and buffers modified"))
        if any(not r["guards"] for r in recs):
            return ("bad", "guard-overrun", "ranks %s wrote outside their buffers" % [i for i, r in enumerate(recs) if not r["guards"]])
        if call.get("nb"):
            if any(r.get("wait_rc", 0) != 0 for r in recs):
                return ("bad", "wait-error", "MPI_Wait/Test returned %s" % sorted(set(r.get("wait_rc") for r in recs)))
            if any(not r.get("req_null", True) for r in recs):
                return ("bad", "request-not-null", "the request is not MPI_REQUEST_NULL after completion")
        if any(r.get("uop_unknown") for r in recs):
            return ("bad", "user-op-foreign-datatype", "the user-defined operator was called with a datatype that is not the one of the call")
        if call["k"] == "barrier":
            tin = max(r["t_in"] for r in recs)
            tout = min(r["t_out"] for r in recs)
            if tout < tin:
                late = max(range(p), key=lambda i: recs[i]["t_in"])
                early = min(range(p), key=lambda i: recs[i]["t_out"])
                return ("bad", "no-synchronization", "rank %d left the barrier at t=%r, before rank %d entered it at t=%r" % (early, tout, late, tin))
            return ("ok",)
        wrong_s = [cr for cr in range(p) if recs[cr]["scrc"] != coll.crc(P.S[cr])]
        wrong_r = []
        for cr in range(p):
            if P.E[cr] is None:
                continue
            n = None if P.rcheck is None else P.rcheck[cr]
            if recs[cr]["rcrc"] != coll.crc(P.E[cr], n):
                wrong_r.append(cr)
        if not wrong_s and not wrong_r:
            return ("ok",)
        if "rhex" not in recs[0]:
            return ("bad", "mismatch", "CRC of the buffers differ on ranks %s (send) %s (receive)" % (wrong_s, wrong_r))
        return self.explain(p, ci, recs)

    def explain(self, p, ci, recs):
        """classify and describe the differences (run with the buffers reported in full)"""
        P = self.plan(p, ci)
        dt = coll.NPDT[P.base]
        kinds = {}
        for cr in range(p):
            got_s = np.frombuffer(bytes.fromhex(recs[cr]["shex"]), dtype=dt)
            if not np.array_equal(got_s.view(np.uint8), P.S[cr].view(np.uint8)):
                d = np.nonzero(got_s != P.S[cr])[0]
                kinds.setdefault("send-buffer-modified", []).append("rank %d: %d words of the send buffer changed (first: word %d: %r -> %r)"
                                                                    % (cr, len(d), d[0], P.S[cr][d[0]].item(), got_s[d[0]].item()))
            if P.E[cr] is None:
                continue
            got = np.frombuffer(bytes.fromhex(recs[cr]["rhex"]), dtype=dt)
            exp = P.E[cr]
            n = len(exp) if P.rcheck is None or P.rcheck[cr] is None else P.rcheck[cr]
            if n == 0:
                continue
            diff = np.unique(np.nonzero(got[:n].view(np.uint8).reshape(n, -1) != exp[:n].view(np.uint8).reshape(n, -1))[0])
            if len(diff) == 0:
                continue
            mask = P.sig_mask[cr][:n]
            insig = diff[mask[diff]]
            outsig = diff[~mask[diff]]
            if len(insig):
                w = insig[0]
                untouched = bool(np.array_equal(got[:n], P.R0[cr][:n]))
                kinds.setdefault("wrong-result", []).append("rank %d: %d of %d result words wrong (first: word %d = %r, expected %r)%s"
                                                            % (cr, len(insig), int(mask.sum()), w, got[w].item(), exp[w].item(),
                                                               "; the receive buffer was not written at all" if untouched else ""))
            else:
                kind = "unused-recvbuf-written" if not mask.any() else "written-outside-typemap"
                w = outsig[0]
                kinds.setdefault(kind, []).append("rank %d: %d words that the call must not touch changed (first: word %d: %r -> %r)"
                                                  % (cr, len(outsig), w, exp[w].item(), got[w].item()))
        if not kinds:
            return ("bad", "mismatch", "CRC mismatch without any difference in the reported buffers (harness problem)")
        order = ["wrong-result", "send-buffer-modified", "written-outside-typemap", "unused-recvbuf-written"]
        kind = [k for k in order if k in kinds][0]
        msgs = kinds[kind]
        return ("bad", kind, "; ".join(msgs[:3]) + (" ... (%d ranks)" % len(msgs) if len(msgs) > 3 else ""))

    # ---- process-level failures
    def failure_kind(self, fail, res):
        if res.crash is not None:
            s = res.crash["sig"]
            if s == 6:
                text = fatal_message(res.rr.err)
                if GLIBC_RE.search(text):
                    return "crash-memory"       # glibc detected a damaged heap
                if REFUSAL_RE.search(text) and "IMPOSSIBLE" not in text:
                    return "refusal-abort"
                if ASSERT_GUARD_RE.search(text):
                    return "refusal-abort"     # xbt_assert on the communicator size / the counts at the top of an algorithm
                return "abort"
            return {11: "crash-memory", 7: "crash-memory", 8: "crash-sigfpe", 4: "crash-sigill"}.get(s, "crash-sig%d" % s)
        return {"deadlock": "deadlock", "cpu-exceeded": "nontermination", "bad-case": "crash-memory"}.get(fail[0], fail[0])

    def culprits(self, res, where, split_at, st):
        """the calls (or sizes) that a failed run points at: [(p, ci or None)]"""
        if res.rr.rc == 64:
            return []
        if res.crash is not None:
            # mpi_interp's crash line names the operation started last by ANY rank; the second reporter (mpi_ops_coll.cpp) names the
            # rank that was running and the coll operation that it was executing
            c2 = [x for x in res.rr.json_lines() if x.get("k") == "crash2"]
            if c2 and c2[0]["r"] >= 0:
                r, ci = c2[0]["r"], c2[0]["ci"]
                if ci >= 0:
                    return [key for key, pi in where.items() if pi == ci]
                # not inside a collective call of the list: creating a communicator, or MPI_Finalize
                for p, pi in sorted(split_at.items(), key=lambda kv: kv[1]):
                    if res.get(r, pi) is None:
                        return [(p, None)]
                return []
            i = res.crash["i"]
            for key, pi in where.items():
                if pi == i:
                    return [key]
            for p, pi in split_at.items():
                if pi == i:
                    return [(p, None)]
            return []
        # deadlock / budget: every rank stopped in its first operation without record; the EARLIEST of those operations (program
        # order) is the one that blocks: the ranks stopped later are waiting for the ranks stopped there (MPI_Comm_split of the
        # next size is a collective of the whole world)
        ops = sorted([(pi, key) for key, pi in where.items()] + [(pi, (p, None)) for p, pi in split_at.items()])
        first = None
        for w in range(NP):
            for pi, key in ops:
                if key[1] is not None and w not in coll.members_of(self.case, key[0]):
                    continue
                if res.get(w, pi) is None:
                    if first is None or pi < first[0]:
                        first = (pi, key)
                    break
        return [first[1]] if first else []

    # ---- the whole case
    def known_crashers(self, todo):
        """A call inside the failure domain of a KNOWN finding that kills or blocks the run (known_findings.json (C29)) would take the rest of
        the program with it at every size: such calls are taken out of the common program.  They are run alone for the smallest and
        the largest size of the domain only (the finding also has its own replay file)."""
        groups = {}
        for p in sorted(todo):
            for ci in list(todo[p]):
                self.plan(p, ci)
                e = known_domain(self.target(ci), self.features(p, ci), FATAL_KINDS)
                if e is not None:
                    groups.setdefault((e["signature"], ci), []).append(p)
                    todo[p].remove(ci)
            if not todo[p]:
                del todo[p]
        for (sig, ci), ps in sorted(groups.items()):
            everything = sig.endswith(":runs-every-algorithm")      # the `automatic` pseudo-algorithms: smallest size only
            for p in sorted(set([min(ps)] if everything else [min(ps), max(ps)])):
                self.isolate(p, ci, "quarantined", False, False)
            if len(ps) > 2:
                self.oc.labels.append("known-fatal-domain:not-run-at-every-size")

    def go(self, batch):
        todo = {p: list(cis) for p, cis in batch.items() if cis}
        self.known_crashers(todo)
        one_size = False
        rounds = 0
        while todo:
            rounds += 1
            if rounds > 1500:
                raise RuntimeError("C29: too many rounds")
            # an implementation that already failed 25 times (unexplained failures) is not run any more: the violations are there,
            # every further one costs a simulated program
            broken = [t for t, n in self.unknown_failures.items() if n >= 25]
            if broken:
                for p in sorted(todo):
                    todo[p] = [ci for ci in todo[p] if self.target(ci) not in broken]
                    if not todo[p]:
                        del todo[p]
                if "gave-up-after-25-failures" not in self.oc.labels:
                    self.oc.labels.append("gave-up-after-25-failures")
                if not todo:
                    break
            # an implementation that refused a size three times by killing the run is taken to refuse that size: its other calls
            # at that size are not run (every refusal of this kind costs a simulated program)
            for (tgt, p), n in self.abort_refusals.items():
                if n >= 3 and p in todo:
                    left = [ci for ci in todo[p] if self.target(ci) != tgt]
                    if len(left) != len(todo[p]):
                        self.oc.labels.append("size-taken-as-refused-after-3-aborts")
                        todo[p] = left
                        if not todo[p]:
                            del todo[p]
            if not todo:
                break
            # calls known to damage the process are never mixed with others
            for p in sorted(todo):
                for ci in [c for c in todo[p] if c in self.unsafe_calls]:
                    todo[p].remove(ci)
                    self.isolate(p, ci, "quarantined", False, False)
                if not todo[p]:
                    del todo[p]
            if not todo:
                break
            if one_size:
                p0 = sorted(todo)[0]
                cur = {p0: todo[p0]}
            else:
                cur = todo
            res, where, split_at = self.execute(cur)
            fail = res.failure()
            st = self.scan(res, where, split_at)
            suspects = []
            unsafe = False          # something may have damaged the memory of this process
            refused_before = {}     # p -> smallest ci refused by exception in this process
            done = []
            for (p, ci), s in sorted(st.items()):
                if s[0] == "ok":
                    self.passed(p, ci)
                    done.append((p, ci))
                elif s[0] == "refused":
                    self.refuse(p, s[1], s[2], ci)
                    refused_before.setdefault(p, ci)
                    done.append((p, ci))
                elif s[0] == "nocomm":
                    done.append((p, ci))
                    self.nocomm(p, s[1])
                elif s[0] == "bad":
                    suspects.append((p, ci, s[1]))
                    done.append((p, ci))
            size_done = []
            if fail:
                kind = self.failure_kind(fail, res)
                cul = self.culprits(res, where, split_at, st)
                if not cul:
                    if res.crash is not None and not any(s[0] == "missing" for s in st.values()):
                        # died in MPI_Finalize after everything was reported
                        suspects.extend((p, ci, kind + "-at-finalize") for (p, ci) in where if (p, ci, None) not in suspects)
                        done.extend(where)
                    elif not one_size:
                        pass        # cannot tell which call made the run fail: one size at a time first
                    else:
                        # still no culprit (a rank died in MPI_Finalize or in another place while others were working, after an
                        # earlier call damaged the process): every remaining call of this size in its own fork
                        for (p, ci) in sorted(where):
                            if (p, ci) not in done:
                                suspects.append((p, ci, "unattributed-" + kind))
                                done.append((p, ci))
                for p, ci in cul:
                    if ci is None:
                        # creating the communicator failed (its constructor broadcasts the context id with the selected bcast algorithm)
                        self.comm_failed(p, kind, fatal_message(res.rr.err))
                        size_done.append(p)
                    elif st.get((p, ci), ("missing",))[0] == "missing":
                        suspects.append((p, ci, kind))
                        done.append((p, ci))
                one_size = True
            for p, ci, kind in suspects:
                if kind.startswith(MEMORY_UNSAFE):
                    unsafe = True
            # verdict of the suspects: from an isolated run
            seen = set()
            for p, ci, kind in suspects:
                if (p, ci) in seen:
                    continue
                seen.add((p, ci))
                if kind == "mismatch" and not fail:
                    # wrong buffers inside the failure domain of a known finding: reported as such, without the isolated run
                    e = known_domain(self.target(ci), self.features(p, ci), DATA_KINDS, unique=True)
                    if e is not None:
                        self.bad(self.target(ci), ([k for k in e["match"].get("kinds", []) if k in DATA_KINDS] or ["wrong-result"])[0], p, ci,
                                 "CRC of the buffers differ (not re-run alone: inside the domain of the known finding)")
                        continue
                if self.isolate(p, ci, kind, unsafe, refused_before.get(p, 1 << 30) < ci) == "retry":
                    done.remove((p, ci))
            for p in list(todo):
                if p in size_done:
                    del todo[p]
                    continue
                todo[p] = [ci for ci in todo[p] if (p, ci) not in done]
                if not todo[p]:
                    del todo[p]

    def isolate(self, p, ci, batch_kind, unsafe, after_refusal):
        res, where, split_at = self.execute({p: [ci]}, full=True)
        fail = res.failure()
        st = self.scan(res, where, split_at)
        s = st[(p, ci)]
        tgt = self.target(ci)
        if fail:
            kind = self.failure_kind(fail, res)
            cul = self.culprits(res, where, split_at, st)
            if (p, None) in cul:
                self.comm_failed(p, kind, fatal_message(res.rr.err))
                return
            if kind == "refusal-abort":
                self.refuse(p, "abort", res.rr.err, ci)
                return
            if kind.startswith(MEMORY_UNSAFE) and known_match(tgt, kind, self.features(p, ci)) is None:
                self.unsafe_calls.add(ci)      # (a known finding declares its domain: the other sizes stay in the common program)
            if kind == "deadlock" and s[0] == "missing":
                mem = coll.members_of(self.case, p)
                recs = [res.get(w, where[(p, ci)]) for w in mem]
                if any(r is not None and "exc" in r for r in recs):
                    kind = "partial-refusal-deadlock"
            if s[0] == "bad" and not kind.startswith(MEMORY_UNSAFE):
                kind = s[1]
            elif s[0] != "missing" and res.crash is not None and not cul:
                kind += "-at-finalize"
            self.bad(tgt, kind, p, ci, (s[2] + " / " if s[0] == "bad" else "") + fatal_message(res.rr.err))
            return
        if s[0] == "bad":
            if s[1].startswith(MEMORY_UNSAFE) and known_match(tgt, s[1], self.features(p, ci)) is None:
                self.unsafe_calls.add(ci)
            self.bad(tgt, s[1], p, ci, s[2])
        elif s[0] == "refused":
            self.refuse(p, s[1], s[2], ci)
        elif s[0] == "nocomm":
            self.nocomm(p, s[1])
        elif s[0] == "ok":
            # fails in the sequence, passes alone
            if batch_kind == "quarantined":
                pass
            elif after_refusal:
                self.oc.labels.append("post-refusal-artifact")      # the harness went on after a call that threw: not the library's fault
            elif (p, ci) not in self.retried:
                # maybe the victim of another call that damaged the process (reported on its own, then kept out of the batches):
                # once more in a later batch
                self.retried.add((p, ci))
                self.oc.labels.append("retried-in-a-later-batch")
                return "retry"
            else:
                self.bad(tgt, "only-in-sequence:" + batch_kind, p, ci, "fails (twice) after the preceding calls of the list, passes when it is the only call of the run")
            self.passed(p, ci)

    # ---- bookkeeping
    def passed(self, p, ci):
        self.judged += 1
        self.ok_items.append((p, ci))
        call = self.calls[ci]
        P = self.plan(p, ci)
        root = P.common.get("root", 0)
        if not pof2(p) or (call["k"] != "barrier" and P.count < p) or (call["k"] in coll.ROOTED and root != 0):
            self.nontrivial = True

    def refuse(self, p, how, text, ci=None):
        self.refusals[p] = how
        if ci is not None and how in ("abort", "comm-create-abort"):
            key = (self.target(ci), p)
            self.abort_refusals[key] = self.abort_refusals.get(key, 0) + 1
        self.oc.labels.append("refuse:%s:%s:p=%d" % (self.coll, self.algo, p))
        self.oc.labels.append("refusal-by-" + how)

    def nocomm(self, p, excs):
        if all(e is not None for e in excs):
            if self.refusals.get(p) != "comm-create-exception":
                self.refuse(p, "comm-create-exception", excs[0])
        else:
            self.bad((self.coll, self.algo) if self.coll == "bcast" else ("bcast", "default"), "partial-refusal:comm-create", p, None, "MPI_Comm_split: %s" % excs)

    def comm_failed(self, p, kind, msg):
        if kind == "refusal-abort":
            self.refuse(p, "comm-create-abort", msg)
        else:
            self.bad((self.coll, self.algo) if self.coll == "bcast" else ("bcast", "default"), kind + ":comm-create", p, None, msg[-700:])

    def bad(self, target, kind, p, ci, msg):
        if self.coll == "bcast" and target != (self.coll, self.algo):
            # every communicator of this run was created through the bcast algorithm under test (context id).  When that algorithm
            # has a KNOWN finding that hits communicator creation at this size (ranks returning without the data, unmatched messages),
            # a failure of another function on that communicator is its consequence, not a defect of that function
            f0 = {k: v for k, v in self.features(p, None).items()}
            for e in known_entries():
                ks = e["match"].get("kinds", [])
                if any(k.endswith(":comm-create") for k in ks) and _in_domain(e, "%s:%s" % (self.coll, self.algo), f0):
                    msg = "[seen in %s %s on a communicator created with this bcast] %s" % (target[0], target[1], msg)
                    target = (self.coll, self.algo)
                    kind = kind if kind in ks else [k for k in ks if k.endswith(":comm-create")][0]
                    ci = None
                    break
        self.fail.setdefault((target, kind), []).append((p, ci, msg))
        if known_match(target, kind, self.features(p, ci)) is None:
            self.unknown_failures[target] = self.unknown_failures.get(target, 0) + 1

    # ---- verdicts
    def describe(self, p, ci):
        if ci is None:
            return "p=%d" % p
        c = self.calls[ci]
        P = self.plans.get((p, ci))
        s = "p=%d %s%s" % (p, "I" if c.get("nb") else "", c["k"])
        if P is not None and c["k"] != "barrier":
            s += "(count=%d %s%s%s%s)" % (P.count, c.get("ty", ""), " " + c["op"] if "op" in c else "",
                                           " root=%d" % P.common["root"] if c["k"] in coll.ROOTED else "", " IN_PLACE" if P.common.get("inplace") else "")
        return s

    def features(self, p, ci):
        """what a known finding may depend on (known_findings.json (C29): "match": {"target": "coll:algo", "kinds": [...], "when": {...}})"""
        mem = coll.members_of(self.case, p)
        f = {"p": p, "pof2": pof2(p), "p_even": p % 2 == 0, "nhosts": self.case.get("nhosts", NP),
             # one rank per host and the ranks of the communicator in the order of the world ranks (= of the hosts)
             "plain_layout": self.case.get("nhosts", NP) >= NP and mem == sorted(mem)}
        if ci is None:
            return f
        c = self.calls[ci]
        P = self.plans.get((p, ci))
        f.update(k=c["k"], nb=c.get("nb", 0))
        if c["k"] != "barrier" and P is not None:
            f.update(count=P.count, count0=P.count == 0, count_lt_p=P.count < p, count_mod_p=P.count % p != 0, ty=c.get("ty"),
                     derived=c.get("ty") not in ("INT", "DOUBLE", "2INT"), op=c.get("op"), inplace=bool(P.common.get("inplace")),
                     root=P.common.get("root", 0), root0=P.common.get("root", 0) == 0, large=c.get("cnt") in ("L", "H"))
        return f

    @staticmethod
    def item_class(f):
        """coarse class of a failing (size, call): last part of the signature of a failure that no known finding explains"""
        parts = ["p=1" if f["p"] == 1 else "pof2" if f["pof2"] else "npof2"]
        if "count" in f:
            parts.append("count=0" if f["count0"] else "count<p" if f["count_lt_p"] else "count>=p")
            if f["derived"]:
                parts.append("derived")
            if f["inplace"]:
                parts.append("inplace")
        return "+".join(parts)

    def finish(self):
        oc = self.oc
        bysig = {}
        for (tgt, kind), items in sorted(self.fail.items(), key=lambda kv: str(kv[0])):
            for p, ci, msg in items:
                f = self.features(p, ci)
                e = known_match(tgt, kind, f)
                sig = e["signature"] if e else "%s:%s:%s:%s" % (tgt[0], tgt[1], kind, self.item_class(f))
                bysig.setdefault(sig, []).append((p, ci, msg, tgt, kind))
        for sig, items in sorted(bysig.items()):
            items = sorted(items, key=lambda x: (x[0], -1 if x[1] is None else x[1]))
            p, ci, msg, tgt, kind = items[0]
            wh = ", ".join(self.describe(p_, ci_) for p_, ci_, _, _, _ in items[:12]) + (" ... (%d failing calls)" % len(items) if len(items) > 12 else "")
            ctx = "" if tgt == (self.coll, self.algo) else " [run with smpi/%s:%s]" % (self.coll, self.algo)
            oc.bad(sig, "%s %s%s: %s: %s -- failing: %s" % (tgt[0], tgt[1], ctx, kind, msg[:700], wh))
        oc.nontrivial = self.nontrivial
        oc.info = {"refusals": {str(p): h for p, h in sorted(self.refusals.items())}, "judged": self.judged}


# ---------------------------------------------------------------------------------------------
# known findings describe their failure domain, so that a failure of the same algorithm OUTSIDE that domain is still reported:
#   "match": {"target": "allreduce:rab" (or a list), "kinds": ["wrong-result", ...], "when": {feature: value or [values], "count_ge": n, ...}}
_KNOWN = None
FATAL_KINDS = ("crash-memory", "crash-sigfpe", "abort", "deadlock", "nontermination", "partial-refusal-deadlock", "crash-*")
DATA_KINDS = ("wrong-result", "written-outside-typemap", "unused-recvbuf-written", "send-buffer-modified")


def known_entries():
    global _KNOWN
    if _KNOWN is None:
        from .. import known
        _KNOWN = [e for e in known.load_all() if e["property"] == "C29" and e.get("kind") == "known" and "match" in e]
    return _KNOWN


def _in_domain(e, name, f):
    m = e["match"]
    targets = m["target"] if isinstance(m["target"], list) else [m["target"]]
    if name not in targets:
        return False
    for key, want in m.get("when", {}).items():
        if key.endswith("_ge"):
            ok = f.get(key[:-3]) is not None and f[key[:-3]] >= want
        elif key.endswith("_le"):
            ok = f.get(key[:-3]) is not None and f[key[:-3]] <= want
        elif key.endswith("_not"):
            ok = f.get(key[:-4]) not in (want if isinstance(want, list) else [want])
        else:
            ok = f.get(key) in want if isinstance(want, list) else f.get(key) == want
        if not ok:
            return False
    return True


def known_match(tgt, kind, f):
    """the known finding that explains a failure of this kind for this (size, call), or None"""
    name = "%s:%s" % tgt
    for e in known_entries():
        kinds = e["match"].get("kinds", ["*"])
        if any(kind == k or (k.endswith("*") and kind.startswith(k[:-1])) for k in kinds) and _in_domain(e, name, f):
            return e
    return None


def known_domain(tgt, f, kinds, unique=False):
    """the known finding of one of these kinds whose failure domain contains this (size, call), or None (unique: also None when
    several findings qualify: the precise kind of the failure is needed to tell them apart)"""
    name = "%s:%s" % tgt
    found = [e for e in known_entries() if any(k in kinds or k == "*" for k in e["match"].get("kinds", [])) and _in_domain(e, name, f)]
    if not found or (unique and len(found) > 1):
        return None
    return found[0]


# ---------------------------------------------------------------------------------------------
# call lists
COUNTS = [0, 1, 2, "p-1", "p", "p+1", "L"]


def standard_calls(collective, n_main=None, n_other=6, seed=1):
    """The deterministic call list of the fixed cases: every count class, type, operator and root class for the MPI functions of
    `collective`, interleaved with a few calls of other collectives (default algorithms, non-blocking forms)."""
    det = coll.Det(seed, sum(map(ord, collective)))
    kinds = coll.KINDS_OF_COLL.get(collective) or (coll.SINGLE + coll.KINDS)
    if n_main is None:
        n_main = {1: 24, 2: 32}.get(len(kinds), 3 * len(kinds))
    calls = []
    roots = [0, 1, -1, 0, 5, 2, -1, 0, 3, 7]
    for i in range(n_main):
        k = kinds[i % len(kinds)]
        c = {"k": k, "seed": det.next(1 << 20), "nb": 0}
        if collective == "nbc":
            c["nb"] = 0 if (k in coll.SINGLE and i % 3 == 0) else 1 + (i // len(kinds)) % 2
        if k != "barrier":
            c["cnt"] = COUNTS[(i // len(kinds) + i) % len(COUNTS)]
            if k in coll.REDUCTIONS:
                c["ty"], c["op"] = coll.RED_PAIRS[(i * 5 + i // 7) % len(coll.RED_PAIRS)]
            else:
                c["ty"] = coll.MOVE_TYPES[(i * 3 + i // 10) % len(coll.MOVE_TYPES)]
            if c["cnt"] == "L" and c["ty"] not in ("INT", "DOUBLE") and i % 2:
                c["ty"] = "INT"
        if k in coll.ROOTED:
            c["root"] = roots[i % len(roots)]
        if k in coll.INPLACE_OK and i % 6 == 5:
            c["ip"] = True
        c["dl"] = [0, 0, 1, 0, 3, 0, 2, 0, 4, 0][i % 10] if k != "barrier" else [1, 3, 4, 2][i % 4]
        calls.append(c)
    others = [k for k in coll.KINDS if k not in kinds]
    out = []
    step = max(1, len(calls) // (n_other + 1))
    j = 0
    for i, c in enumerate(calls):
        out.append(c)
        if others and (i + 1) % step == 0 and j < n_other:
            k = others[det.next(len(others))]
            o = {"k": k, "seed": det.next(1 << 20), "nb": [0, 1, 2][j % 3]}
            if k != "barrier":
                o["cnt"] = [1, "p", 3, 0, "p+1", 2][j % 6]
                if k in coll.REDUCTIONS:
                    # (derived datatypes in non-blocking reductions: in the "nbc" list only, see known_findings.json (C29))
                    o["ty"], o["op"] = coll.RED_PAIRS[det.next(len(coll.RED_PAIRS) - (3 if o["nb"] else 0))]
                else:
                    o["ty"] = coll.MOVE_TYPES[det.next(len(coll.MOVE_TYPES))]
            if k in coll.ROOTED:
                o["root"] = det.next(NP)
            out.append(o)
            j += 1
    return out


@st.composite
def call_strategy(draw, kinds, nb_choices):
    k = draw(st.sampled_from(kinds))
    c = {"k": k, "seed": draw(st.integers(0, (1 << 20) - 1)), "nb": draw(st.sampled_from(nb_choices))}
    if k != "barrier":
        c["cnt"] = draw(st.one_of(st.sampled_from(COUNTS), st.integers(0, 40), st.sampled_from(["p-1", "p", "p+1"])))
        if k in coll.REDUCTIONS:
            c["ty"], c["op"] = draw(st.sampled_from(coll.RED_PAIRS))
        else:
            c["ty"] = draw(st.sampled_from(coll.MOVE_TYPES))
    if k in coll.ROOTED:
        c["root"] = draw(st.one_of(st.sampled_from([0, 1, -1]), st.integers(0, NP - 1)))
    if k in coll.INPLACE_OK and draw(st.integers(0, 5)) == 0:
        c["ip"] = True
    c["dl"] = draw(st.sampled_from([0, 0, 0, 1, 2, 3, 4])) if k != "barrier" else draw(st.sampled_from([1, 2, 3, 4]))
    return c


def selected_algorithms():
    """every (collective, algorithm) of the tree + the pseudo entry for the functions without selector.  VF_C29_ONLY=coll[:algo],...
    restricts the list (a debugging aid for sensitivity experiments: never set in a normal run)."""
    import os
    algos = coll.algorithms() + [("nbc", "single")]
    only = [x for x in os.environ.get("VF_C29_ONLY", "").split(",") if x]
    if only:
        algos = [(c, a) for c, a in algos if c in only or "%s:%s" % (c, a) in only]
    return algos


@st.composite
def cases(draw, tier):
    algos = selected_algorithms()
    algos = algos + [x for x in algos if x[0] == "nbc"] * 7       # the functions without selector: as often as a collective with 8 algorithms
    c, a = draw(st.sampled_from(algos))
    main = coll.KINDS_OF_COLL.get(c) or coll.KINDS
    n = 30 if tier == "quick" else 120
    calls = []
    nmain = draw(st.integers(max(1, n // 2), n))
    for _ in range(nmain):
        calls.append(draw(call_strategy(main, [0] if c != "nbc" else [0, 1, 1, 2])))
    for _ in range(draw(st.integers(0, 6))):
        pos = draw(st.integers(0, len(calls)))
        calls.insert(pos, draw(call_strategy(coll.KINDS, [0, 1, 2])))
    sizes = draw(st.one_of(st.just(ALL_SIZES), st.lists(st.integers(1, NP), min_size=1, max_size=6, unique=True).map(sorted)))
    case = {"coll": c, "algo": a, "nhosts": draw(st.sampled_from([NP, NP, 1, 2, 4, 6])), "rot": draw(st.integers(0, NP - 1)),
            "step": draw(st.integers(1, NP - 1)), "sizes": sizes, "calls": calls}
    if case["nhosts"] == 4 and draw(st.booleans()):
        case["members"] = coll.BLOCKED4
    return case


class C29(core.Prop):
    id = "C29"
    ready = True
    drivers = ["mpi_interp"]
    sizes = {"quick": 60, "thorough": 3000}
    max_workers = 6
    technique = ("property-based testing (Hypothesis) against a sequential reference of every MPI collective (numpy, exact integer / "
                 "exactly representable floating-point values), one simulated SMPI run per (algorithm, call list)")
    rule = ("The algorithm list is read from the tree itself (colls::get_smpi_coll_help() = the text of `smpirun --help-coll`: 186 "
            "algorithms of 11 collectives today) plus one pseudo entry `nbc` for the functions without selector (every MPI_I* form, "
            "gatherv, scatterv, alltoallw, scan, exscan). A case = (collective, algorithm) x a list of size-independent CALL descriptions "
            "x communicator sizes (all of 1..17, or a few) x the way sub-communicators are cut out of the 17-rank world (rotation, "
            "stride, ranks per host). It is ONE simulated program (one fork, --cfg=smpi/<collective>:<algorithm>, the other collectives "
            "keep their default): for every size p an MPI_Comm_split, then every call of the list on that communicator. A call = "
            "MPI function of the collective (blocking; MPI_I*+Wait or MPI_I*+Test loop in the nbc list and in a few interleaved "
            "calls), root (first/last/other), count in {0,1,2,p-1,p,p+1,large (4101 words, 301 per block), n}, datatype in {INT, "
            "DOUBLE, 2INT, vector with holes VEC/VECD, contiguous CONT3, resized RSZ}, operator in {SUM, PROD, MAX, MIN, BXOR, MAXLOC, "
            "MINLOC, a commutative user-defined operator (x+y+xy on 32-bit words, also on the derived types)}, MPI_IN_PLACE where MPI "
            "allows it, v variants with generated counts (zeros included) and shuffled displacements with gaps, alltoallw with a datatype "
            "per peer, arrival patterns (late root, late others, random delays). Buffers are filled by the driver with a pattern that "
            "the oracle recomputes; the driver reports CRC-32 of the send and receive buffers (full buffers when a call is re-run alone). "
            "ORACLE: a sequential reference of every collective on numpy arrays (exact: small integers, exactly representable doubles): "
            "the whole receive buffer of every rank must equal the reference (positions of the type map = MPI result, everything "
            "else untouched: holes of the datatypes, gaps between blocks, 2 extra words, receive buffers of non-root ranks), the send "
            "buffer must be unchanged, 256-byte guard zones intact, return code MPI_SUCCESS, request = MPI_REQUEST_NULL after completion, "
            "MPI_Barrier: nobody leaves before everybody entered (simulated dates, ranks delayed on purpose). The receive buffer of rank "
            "0 after MPI_Exscan and the tail of an in-place reduce_scatter buffer are not compared (undefined in MPI). "
            "REFUSALS are not violations: an exception thrown by every rank of the communicator (caught per call by the driver) or an "
            "xbt_assert/xbt_die whose message says that the configuration is not supported; they are counted per (algorithm, p) in the "
            "labels `refuse:<collective>:<algorithm>:p=<p>`. Violations: wrong buffers, signals, glibc heap-corruption aborts, "
            "other aborts, deadlocks, exceptions on some ranks only, error codes. When a run dies or a call looks wrong the suspect "
            "call is re-run ALONE (own fork) and only that verdict counts; calls proven to damage the process are kept out of the "
            "common program. Signature = <collective>:<algorithm>:<kind>:<class of (size, call)>; known findings (known_findings.json (C29)) "
            "declare their failure domain, a failure outside it is reported. Fixed cases: one standard call list per collective run "
            "with every algorithm at every size. Non-trivial: a judged call with p not a power of two, or count < p, or root != 0. "
            "Distinct = canonical JSON of the case.")
    assumptions = ["all values are integers or exactly representable doubles (sums of 17 values < 2^24, products of 17 values in +-1..3, halves): "
                   "exact equality whatever the association order; only commutative operators",
                   "MPI_MAXLOC/MINLOC ties resolve to the lowest index (MPI standard); +0/-0 do not occur",
                   "smpi/privatization:no, one rank per actor in one process (SMPI_app_instance_start); smpi/simulate-computation:no",
                   "a fatal message is a refusal only when it matches the list of 'unsupported configuration' phrases (REFUSAL_RE); "
                   "glibc heap messages are crashes",
                   "mixed send/receive datatypes of equal signature (VEC sent, INT received) are implemented (coll.MIXED_TYPES) but not "
                   "generated: outside the quantifier of the property",
                   "CPU budget 150 s per simulated program (median 1 s): exceeded = nontermination; wall clock never decides"]
    level_note = ("exploration of the stated quantifier: every algorithm x every size 1..17 x the standard call list (fixed cases) plus random "
                  "lists; not a proof for counts/roots/types outside the generated ones")

    def strategy(self, tier):
        return cases(tier)

    def fixed_cases(self, tier):
        res = []
        for c, a in selected_algorithms():
            res.append({"coll": c, "algo": a, "nhosts": NP, "rot": 0, "step": 1, "sizes": ALL_SIZES, "calls": standard_calls(c)})
        # second pass: 4 hosts, consecutive ranks of the communicators on the same host: the SMP-aware algorithms and the selectors
        # have other paths then (chosen by name, so that a new smp_* / two_level algorithm is included; the random cases vary the
        # placement for every algorithm)
        for c, a in selected_algorithms():
            if not SMP_NAME_RE.search(a) and c != "nbc":
                continue
            res.append({"coll": c, "algo": a, "nhosts": 4, "members": coll.BLOCKED4, "sizes": [2, 4, 5, 8, 9, 12, 16, 17],
                        "calls": standard_calls(c, seed=2)})
        return res

    def check(self, case):
        oc = core.Outcome()
        oc.evals = 0
        run = Run(case, oc)
        global LAST_RUN
        LAST_RUN = run              # (debugging / analysis scripts)
        run.go({p: list(range(len(case["calls"]))) for p in case["sizes"]})
        run.finish()
        oc.labels.append("coll:" + case["coll"])
        for c in case["calls"]:
            oc.labels.append("k:" + ("i" if c.get("nb") else "") + c["k"])
            if "cnt" in c:
                oc.labels.append("count:%s" % (c["cnt"] if not isinstance(c["cnt"], int) or c["cnt"] < 3 else "n"))
            if "ty" in c:
                oc.labels.append("type:" + c["ty"])
            if "op" in c:
                oc.labels.append("op:" + c["op"])
            if c.get("ip"):
                oc.labels.append("in-place")
        return oc


PROP = C29()
