"""C37 Trace replay reproduces the online simulated time."""
import os
import shutil

from hypothesis import strategies as st

from .. import core, mpi

PLATFORMS = {
    "small": ("/repo/examples/platforms/small_platform.xml", ["Tremblay", "Jupiter", "Fafard", "Ginette", "Bourassa", "Jacquelin", "Boivin"]),
    "cluster": ("/repo/examples/platforms/cluster_backbone.xml", ["node-%d.simgrid.org" % i for i in range(8)]),
    "fattree": ("/repo/examples/platforms/cluster_fat_tree.xml", ["node-%d.simgrid.org" % i for i in range(8)]),
}
TYPES = {"CHAR": 1, "SHORT": 2, "INT": 4, "DOUBLE": 8, "LONG_DOUBLE": 16, "BYTE": 1, "FLOAT": 4, "LONG_LONG": 8}
TYPE_NAMES = sorted(TYPES)
BUF = 1 << 21                  # bytes of the send and of the receive buffer of every rank
COLL_KINDS = ["barrier", "bcast", "reduce", "allreduce", "alltoall", "alltoallv", "gather", "gatherv", "scatter", "scatterv", "allgather",
              "allgatherv", "reduce_scatter", "scan", "exscan"]
ROOTED = {"bcast", "reduce", "gather", "gatherv", "scatter", "scatterv"}
REDUCTIONS = {"reduce", "allreduce", "reduce_scatter", "scan", "exscan"}
P2P_COUNTS = [0, 1, 2, 17, 100, 1000, 8191, 8192, 8193, 16384, 65536, 65537, 100000]      # around the eager / detached thresholds too
COLL_COUNTS = [0, 1, 2, 3, 16, 100, 1000, 2048, 4097, 8192]
REL = 1e-9


# ---------------------------------------------------------------------------------------------
# program construction
class Builder:
    def __init__(self, case):
        self.case = case
        self.np = case["np"]
        self.prog = [{"op": "buf", "name": "sb", "size": BUF, "fill": 1}, {"op": "buf", "name": "rb", "size": BUF}]
        self.nreq = 0
        self.ncoll = 0
        self.nb_completed_later = 0
        self.zero_recv_count = False
        self.same_key_out_of_order = False
        self.comms = {"world": list(range(self.np))}     # name -> world ranks in communicator-rank order (one of its instances)
        self.groups = {"world": [list(range(self.np))]}   # name -> every instance (a split creates several)
        self.labels = []
        self.tag = 10

    def add(self, op, only=None):
        if only is not None:
            op = dict(op, only=sorted(only))
        self.prog.append(op)

    # -- collectives (on MPI_COMM_WORLD: the trace does not say on which communicator a collective ran)
    def coll(self, s):
        np_ = self.np
        k = s["k"]
        T = s.get("type", "INT")
        size = TYPES[T]
        c = s.get("count", 1)
        root = s.get("root", 0) % np_
        a = {"op": "coll", "k": k, "comm": "world", "root": root}
        self.ncoll += 1
        self.labels.append("coll:" + k)
        if k in ("alltoall", "gather", "scatter", "allgather") and c == 0:
            self.zero_recv_count = True
        if k == "barrier":
            pass
        elif k == "bcast":
            a.update(rt=T, rc_=c, rbytes=c * size)
        elif k in ("reduce", "allreduce", "scan", "exscan"):
            a.update(st=T if T not in ("BYTE", "CHAR", "LONG_DOUBLE") else "INT", sc=c, mop=s.get("mop", "SUM"))
            sz = TYPES[a["st"]]
            a.update(sbytes=c * sz, rbytes=c * sz)
        elif k == "reduce_scatter":
            rcs = self.vector(s, np_, c)
            a.update(st=T if T not in ("BYTE", "CHAR", "LONG_DOUBLE") else "INT", rcs=rcs, mop=s.get("mop", "SUM"))
            sz = TYPES[a["st"]]
            a.update(sbytes=sum(rcs) * sz, rbytes=max(rcs + [0]) * sz)
        elif k in ("gather", "allgather"):
            a.update(st=T, rt=T, sc=c, rc_=c, sbytes=c * size, rbytes=c * size * np_)
        elif k == "scatter":
            a.update(st=T, rt=T, sc=c, rc_=c, sbytes=c * size * np_, rbytes=c * size)
        elif k == "alltoall":
            a.update(st=T, rt=T, sc=c, rc_=c, sbytes=c * size * np_, rbytes=c * size * np_)
        elif k in ("gatherv", "allgatherv"):
            rcs = self.vector(s, np_, c)
            rds = [sum(rcs[:i]) for i in range(np_)]
            a.update(st=T, rt=T, rcs=rcs, rds=rds, sc={"@": rcs}, sbytes=max(rcs + [0]) * size, rbytes=sum(rcs) * size)
        elif k == "scatterv":
            scs = self.vector(s, np_, c)
            sds = [sum(scs[:i]) for i in range(np_)]
            a.update(st=T, rt=T, scs=scs, sds=sds, rc_={"@": scs}, sbytes=sum(scs) * size, rbytes=max(scs + [0]) * size)
        elif k == "alltoallv":
            m = [self.vector(dict(s, seed=s.get("seed", 0) * 31 + r), np_, c) for r in range(np_)]     # m[src][dst]
            a.update(st=T, rt=T,
                     scs={"@": m}, sds={"@": [[sum(m[r][:j]) for j in range(np_)] for r in range(np_)]},
                     rcs={"@": [[m[j][r] for j in range(np_)] for r in range(np_)]},
                     rds={"@": [[sum(m[j][r] for j in range(i)) for i in range(np_)] for r in range(np_)]},
                     sbytes=max(sum(row) for row in m) * size, rbytes=max(sum(m[j][r] for j in range(np_)) for r in range(np_)) * size)
        else:
            raise ValueError(k)
        self.add(a)

    @staticmethod
    def vector(s, n, c):
        """n counts around c, a function of the step's seed (some zero)"""
        x = (s.get("seed", 0) * 2654435761 + 12345) & 0xFFFFFFFF
        out = []
        for _ in range(n):
            x = (x * 1103515245 + 12345) & 0x7FFFFFFF
            out.append([c, c, c // 2, 0, c + 1, 1][(x >> 8) % 6])
        return out

    # -- communicators
    def comm(self, s):
        np_ = self.np
        if s["k"] == "dup":
            self.add({"op": "comm_dup", "comm": "world", "out": "dup"})
            self.comms["dup"] = list(range(np_))
            self.groups["dup"] = [list(range(np_))]
        else:
            m = max(2, s.get("mod", 2))
            rev = bool(s.get("rev"))
            self.add({"op": "comm_split", "comm": "world", "color": {"@": [r % m for r in range(np_)]},
                      "key": {"@": [(-r if rev else r) for r in range(np_)]}, "out": "split"})
            groups = []
            for col in range(m):
                g = [r for r in range(np_) if r % m == col]
                if rev:
                    g.reverse()
                if g:
                    groups.append(g)
            self.groups["split"] = groups
        self.labels.append("comm:" + s["k"])

    # -- point to point
    def p2p(self, s):
        cname = s.get("comm", "world")
        if cname not in self.groups:
            cname = "world"
        rank_in = {}
        for g in self.groups[cname]:
            for i, w in enumerate(g):
                rank_in[w] = (i, id(g), g)
        msgs = []
        off_s = {r: 0 for r in range(self.np)}
        off_r = {r: 0 for r in range(self.np)}
        for (src, dst, count, T, smode, rmode) in s["msgs"]:
            src, dst = src % self.np, dst % self.np
            if src == dst or rank_in[src][1] != rank_in[dst][1]:
                continue                      # both ends in the same communicator; no message to oneself (a blocking pair would deadlock)
            nbytes = count * TYPES[T]
            if off_s[src] + nbytes > BUF or off_r[dst] + nbytes > BUF:
                continue
            self.tag += 1
            msgs.append(dict(src=src, dst=dst, count=count, type=T, smode=smode, rmode=rmode, tag=self.tag, soff=off_s[src], roff=off_r[dst],
                             sreq="s%d" % self.tag, rreq="r%d" % self.tag))
            off_s[src] += nbytes
            off_r[dst] += nbytes
        if not msgs:
            return
        pending = {r: [] for r in range(self.np)}
        # 1. every receiver posts its non-blocking receives
        for m in msgs:
            if m["rmode"] == "irecv":
                self.add({"op": "irecv", "buf": "rb", "off": m["roff"], "count": m["count"], "type": m["type"], "src": rank_in[m["src"]][0], "tag": m["tag"],
                          "comm": cname, "req": m["rreq"]}, [m["dst"]])
                pending[m["dst"]].append(m["rreq"])
        # 2. in the order of the list: the sender sends, the receiver of a blocking receive receives
        for m in msgs:
            sop = {"op": m["smode"], "buf": "sb", "off": m["soff"], "count": m["count"], "type": m["type"], "dest": rank_in[m["dst"]][0], "tag": m["tag"],
                   "comm": cname}
            if m["smode"] == "isend":
                sop["req"] = m["sreq"]
                pending[m["src"]].append(m["sreq"])
            self.add(sop, [m["src"]])
            if m["rmode"] == "recv":
                self.add({"op": "recv", "buf": "rb", "off": m["roff"], "count": m["count"], "type": m["type"], "src": rank_in[m["src"]][0], "tag": m["tag"],
                          "comm": cname}, [m["dst"]])
            self.labels.append("p2p:%s/%s" % (m["smode"], m["rmode"]))
            big = m["count"] * TYPES[m["type"]]
            self.labels.append("msg:" + ("0" if big == 0 else "<=64k" if big <= 65536 else ">64k"))
        # 3. something else happens while the requests are pending
        if s.get("inner"):
            self.coll(s["inner"])
        # 4. completion
        done = s.get("done", "wait")
        for r in range(self.np):
            reqs = pending[r]
            if not reqs:
                continue
            self.nb_completed_later += len(reqs)
            if done == "waitall":
                self.add({"op": "waitall", "reqs": reqs}, [r])
            else:
                order = list(reversed(reqs)) if s.get("rev") else reqs
                if done == "test":
                    for q in order[:3]:
                        self.add({"op": "test", "req": q}, [r])
                for q in order:
                    self.add({"op": "wait", "req": q}, [r])
        self.labels.append("done:" + done)
        if cname != "world":
            self.labels.append("p2p-on:" + cname)

    # -- bursts: 2..4 messages with the SAME (source, destination, tag), sizes spread over several decades, completed one by one
    def burst(self, s):
        """The trace names a request by (source, destination, tag) only: the replayer keeps one list per key.  a sends n messages with
        one tag to b; at least one side is non-blocking; every rank with pending requests (a `waiter`) completes them with MPI_Waitall or
        with individual MPI_Wait in posting / reverse / shuffled order, and does something that takes time between two waits: a small
        blocking send to a third rank (which receives it), or a collective that every rank executes once in this step."""
        np_ = self.np
        a, b = s["src"] % np_, s["dst"] % np_
        if a == b:
            b = (a + 1) % np_
        counts = [c for c in s["counts"]][:4]
        T = s.get("type", "BYTE")
        size = TYPES[T]
        smode, rmode = s.get("modes", ["isend", "irecv"])
        if smode == "send" and rmode == "recv":
            rmode = "irecv"
        self.tag += 1
        tag = self.tag
        soff = roff = 0
        msgs = []
        for i, c in enumerate(counts):
            if soff + c * size > BUF:
                break
            msgs.append((i, c, soff))
            soff += c * size
        if not msgs:
            return
        n = len(msgs)
        pending = {a: [], b: []}
        if rmode == "irecv":
            for i, c, off in msgs:
                self.add({"op": "irecv", "buf": "rb", "off": off, "count": c, "type": T, "src": a, "tag": tag, "req": "br%d_%d" % (tag, i)}, [b])
                pending[b].append("br%d_%d" % (tag, i))
        for i, c, off in msgs:
            op = {"op": smode, "buf": "sb", "off": off, "count": c, "type": T, "dest": b, "tag": tag}
            if smode == "isend":
                op["req"] = "bs%d_%d" % (tag, i)
                pending[a].append(op["req"])
            self.add(op, [a])
            nbytes = c * size
            self.labels.append("msg:" + ("0" if nbytes == 0 else "<=64k" if nbytes <= 65536 else ">64k"))
        if rmode == "recv":
            for i, c, off in msgs:
                self.add({"op": "recv", "buf": "rb", "off": off, "count": c, "type": T, "src": a, "tag": tag}, [b])
        self.labels.append("burst:%s/%s" % (smode, rmode))
        if n >= 2:
            self.labels.append("same-key-requests>=2")
        sizes = sorted(c * size for _, c, _ in msgs)
        if n >= 2 and sizes[-1] >= 100 * max(sizes[0], 1):
            self.labels.append("burst:sizes-two-decades-apart")
        done = s.get("done", "wait")
        between = s.get("between", "send3")
        third = [r for r in range(np_) if r not in (a, b)]
        c3 = third[s.get("third", 0) % len(third)] if third else None
        if between == "send3" and c3 is None:
            between = "coll"
        inner = s.get("inner") or {"t": "coll", "k": "barrier"}
        waiters = [r for r in (b, a) if pending[r]]
        coll_done = set()
        for r in waiters:
            reqs = pending[r]
            self.nb_completed_later += len(reqs)
            if done == "waitall" or len(reqs) < 2:
                if len(reqs) >= 2:
                    self.add({"op": "waitall", "reqs": reqs}, [r])
                else:
                    self.add({"op": "wait", "req": reqs[0]}, [r])
                continue
            order = list(range(len(reqs)))
            if s.get("order") == "rev":
                order.reverse()
            elif s.get("order") == "shuffled":
                k = 1 + s.get("rot", 0) % (len(order) - 1) if len(order) > 2 else 1
                order = order[k:] + order[:k]
            if order != sorted(order):
                self.same_key_out_of_order = True
            self.labels.append("individual-waits")
            self.labels.append("burst:wait-order=" + ("posting" if order == sorted(order) else s.get("order")))
            for j, i in enumerate(order):
                self.add({"op": "wait", "req": reqs[i]}, [r])
                if j == len(order) - 1 or (j > 0 and between == "coll"):
                    continue
                self.labels.append("action-between-waits")
                if between == "send3":
                    self.tag += 1
                    cnt = s.get("count3", 10)
                    self.add({"op": "send", "buf": "sb", "off": 0, "count": cnt, "type": "BYTE", "dest": c3, "tag": self.tag}, [r])
                    self.add({"op": "recv", "buf": "rb", "off": 0, "count": cnt, "type": "BYTE", "src": r, "tag": self.tag}, [c3])
                    self.labels.append("between:send-to-third-rank")
                else:
                    # a collective is executed once by every rank in this step: here by this waiter, below by the others
                    a_ = self.coll_op(inner)
                    self.add(a_, [r])
                    coll_done.add(r)
                    self.labels.append("between:collective")
        if between == "coll" and coll_done:
            rest = [r for r in range(np_) if r not in coll_done]
            if rest:
                self.add(self.coll_op(inner), rest)
            self.ncoll += 1
            self.labels.append("coll:" + inner["k"])

    def coll_op(self, s):
        """the `coll` operation of a collective step, without appending it"""
        n0 = len(self.prog)
        nc, lab = self.ncoll, list(self.labels)
        self.coll(s)
        op = self.prog.pop()
        assert len(self.prog) == n0
        self.ncoll, self.labels = nc, lab
        return op

    def sendrecv(self, s):
        np_ = self.np
        k = s.get("shift", 1) % np_
        T = s.get("type", "INT")
        c = s.get("count", 1)
        if c * TYPES[T] > BUF:
            return
        self.add({"op": "sendrecv", "sbuf": "sb", "scount": c, "stype": T, "dest": {"@": [(r + k) % np_ for r in range(np_)]}, "stag": 0,
                  "rbuf": "rb", "rcount": c, "rtype": T, "src": {"@": [(r - k) % np_ for r in range(np_)]}, "rtag": 0})
        self.labels.append("sendrecv")

    def build(self):
        for s in self.case["steps"]:
            t = s["t"]
            if t == "coll":
                self.coll(s)
            elif t == "comm":
                self.comm(s)
            elif t == "p2p":
                self.p2p(s)
            elif t == "sendrecv":
                self.sendrecv(s)
            elif t == "burst":
                self.burst(s)
        self.add({"op": "wtime"})
        return self.prog


# ---------------------------------------------------------------------------------------------
@st.composite
def coll_step(draw, zero_ok=True):
    k = draw(st.sampled_from(COLL_KINDS))
    s = {"t": "coll", "k": k}
    if k != "barrier":
        lo = 0 if zero_ok or k not in ("alltoall", "gather", "scatter", "allgather") else 1
        s["count"] = draw(st.one_of(st.sampled_from(COLL_COUNTS[1 - (lo == 0):]), st.integers(lo, 300)))
        s["type"] = draw(st.sampled_from(["INT", "DOUBLE", "FLOAT", "LONG_LONG", "SHORT"] if k in REDUCTIONS else TYPE_NAMES))
    if k in ROOTED:
        s["root"] = draw(st.integers(0, 7))
    if k in REDUCTIONS:
        s["mop"] = draw(st.sampled_from(["SUM", "MAX", "MIN", "PROD"]))
    if k in ("gatherv", "scatterv", "allgatherv", "alltoallv", "reduce_scatter"):
        s["seed"] = draw(st.integers(0, 1000))
    return s


@st.composite
def p2p_step(draw, np_, comms, zero_ok=True):
    n = draw(st.integers(1, 6))
    msgs = []
    for _ in range(n):
        msgs.append([draw(st.integers(0, np_ - 1)), draw(st.integers(0, np_ - 1)), draw(st.one_of(st.sampled_from(P2P_COUNTS), st.integers(0, 3000))),
                     draw(st.sampled_from(TYPE_NAMES)), draw(st.sampled_from(["send", "isend", "isend"])), draw(st.sampled_from(["recv", "irecv", "irecv"]))])
    s = {"t": "p2p", "msgs": msgs, "done": draw(st.sampled_from(["wait", "waitall", "test"])), "rev": draw(st.booleans()),
         "comm": draw(st.sampled_from(comms))}
    if draw(st.integers(0, 2)) == 0:
        s["inner"] = draw(coll_step(zero_ok))
    return s


BURST_COUNTS = [1, 10, 100, 1000, 10000, 65536, 65537, 100000, 1000000]      # bytes: below and above the eager / rendez-vous thresholds


@st.composite
def burst_step(draw, np_, zero_ok, odd_orders):
    n = draw(st.integers(2, 4))
    counts = draw(st.lists(st.sampled_from(BURST_COUNTS), min_size=n, max_size=n))
    if draw(st.integers(0, 2)) > 0 and max(counts) < 100 * min(counts):
        counts[draw(st.integers(0, n - 1))] = 1000000 if min(counts) < 10000 else 10      # most bursts: sizes several decades apart
    s = {"t": "burst", "src": draw(st.integers(0, np_ - 1)), "dst": draw(st.integers(0, np_ - 1)), "counts": counts,
         "modes": draw(st.sampled_from([["isend", "irecv"], ["isend", "irecv"], ["send", "irecv"], ["isend", "recv"]])),
         "done": draw(st.sampled_from(["wait", "wait", "wait", "waitall"])),
         "order": draw(st.sampled_from(["post"] * 4 + (["rev", "shuffled"] if odd_orders else []))),
         "rot": draw(st.integers(0, 2)), "between": draw(st.sampled_from(["send3", "send3", "coll"])), "third": draw(st.integers(0, 5)),
         "count3": draw(st.sampled_from([1, 10, 1000, 60000]))}
    if s["between"] == "coll":
        inner = draw(coll_step(zero_ok))
        if inner["k"] in ("alltoallv", "gatherv", "scatterv", "allgatherv", "reduce_scatter"):
            inner = {"t": "coll", "k": "barrier"}          # per-rank argument lists: kept for the plain collective steps
        s["inner"] = inner
    return s


@st.composite
def cases(draw, tier):
    np_ = draw(st.integers(2, 8))
    nsteps = draw(st.integers(2, 10 if tier == "quick" else 25))
    steps = []
    comms = ["world"]
    # communicator creation and zero-count collectives hit known findings (known_findings.json (C37)): in a minority of the cases only, so that
    # the other cases can show other divergences
    with_comm = draw(st.integers(0, 6)) == 0
    zero_ok = draw(st.integers(0, 6)) == 0
    # individual waits in another order than the posting order, on requests with the same (source, destination, tag), hit a known finding
    odd_orders = draw(st.integers(0, 5)) == 0
    for _ in range(nsteps):
        kind = draw(st.sampled_from(["coll", "coll", "coll", "p2p", "p2p", "burst", "burst", "burst", "sendrecv", "sendrecv"] + (["comm", "comm"] if with_comm else [])))
        if kind == "coll":
            steps.append(draw(coll_step(zero_ok)))
        elif kind == "p2p":
            steps.append(draw(p2p_step(np_, comms, zero_ok)))
        elif kind == "burst":
            steps.append(draw(burst_step(np_, zero_ok, odd_orders)))
        elif kind == "sendrecv":
            steps.append({"t": "sendrecv", "shift": draw(st.integers(1, 7)), "count": draw(st.sampled_from([0, 1, 100, 8192, 8193, 70000])),
                          "type": draw(st.sampled_from(TYPE_NAMES))})
        elif kind == "comm":
            k = draw(st.sampled_from(["dup", "split"]))
            s = {"t": "comm", "k": k}
            if k == "split":
                s.update(mod=draw(st.integers(2, 3)), rev=draw(st.booleans()))
            steps.append(s)
            if k not in comms:
                comms = comms + [k]
    plat = draw(st.sampled_from(["small", "small", "cluster", "fattree"]))
    return {"np": np_, "platform": plat, "hostshift": draw(st.integers(0, 6)), "hoststep": draw(st.sampled_from([1, 1, 2, 3])),
            "selector": draw(st.sampled_from(["default"] * 6 + ["ompi"] * 2 + ["mpich", "mvapich2"])), "steps": steps}


class C37(core.Prop):
    id = "C37"
    drivers = ["mpi_interp", "smpi_replay_driver"]
    ready = True
    sizes = {"quick": 280, "thorough": 12000}
    max_workers = 6
    technique = ("property-based testing (Hypothesis), differential: generated MPI programs run online with time-independent tracing, then "
                 "their trace replayed (smpi_replay_init/main with an overridden finalize action); per-rank end dates and final date compared")
    rule = ("A case = an SPMD MPI program of 2..8 ranks (steps: point-to-point phases of 1..6 messages in blocking/non-blocking mode completed by "
            "wait / waitall / test+wait, possibly with a collective between the posting and the completion; MPI_Sendrecv shifts; every "
            "collective that the replayer knows, on MPI_COMM_WORLD: barrier, bcast, reduce, allreduce, alltoall(v), gather(v), scatter(v), "
            "allgather(v), reduce_scatter, scan, exscan; MPI_Comm_dup / MPI_Comm_split and point-to-point on those communicators), "
            "ranks placed on the hosts of one of three example platforms, collective selector default/ompi/mpich/mvapich2, smpi/simulate-"
            "computation:no. The program runs ONLINE in the mpi_interp driver (SMPI_app_instance_start) with the options that `smpirun "
            "-trace-ti` passes (tracing:yes tracing/smpi:yes tracing/smpi/format:TI); every rank notes MPI_Wtime() just before "
            "MPI_Finalize. The per-rank trace files (listed by the index file) are then REPLAYED in the smpi_replay_driver "
            "(smpi_replay_init + own `finalize` action + smpi_replay_main, the documented override-the-replayer pattern) on the same "
            "platform, hosts and configuration. Oracle: for every rank the date of its finalize action equals the online date, and the "
            "final simulated dates are equal (relative 1e-9). A program that does not run online (deadlock, crash of a collective "
            "algorithm: C29) is out of the domain (counted as invalid). The messages of a p2p phase use distinct tags; a BURST step sends "
            "2..4 messages with the SAME (source, destination, tag) and sizes several decades apart (1 B..1 MB, below and above the eager "
            "and rendez-vous thresholds), at least one side non-blocking, completed by MPI_Waitall or by individual MPI_Wait in posting "
            "order (reverse / rotated order in 1 case out of 6: known finding) with, between two waits, a small send to a third rank "
            "that receives it or a collective executed once by every rank. Distinct buffer regions; waitall "
            "always covers every pending request of the rank (the trace format has no other form); collectives run on MPI_COMM_WORLD (the "
            "trace does not name the communicator). Non-trivial: at least one non-blocking request completed by a later wait and at "
            "least one collective. Distinct = canonical JSON of the case.")
    assumptions = ["relative tolerance 1e-9 on dates (in practice the dates are bit-identical)",
                   "smpi/wtime:0 in the online run: MPI_Wtime() itself costs 10 ns of simulated time by default, which is not part of the program",
                   "network/model:SMPI on both sides, as smpirun does; smpi/privatization:no (one process, no dlopen: the recorded calls are the same)",
                   "the replay entry points smpi_replay_init()/smpi_replay_main() are the ones of smpireplaymain; the crash found with them was "
                   "reproduced once with the real `smpirun -replay`"]

    def strategy(self, tier):
        return cases(tier)

    def hosts_of(self, case):
        _, names = PLATFORMS[case.get("platform", "small")]
        sh, stp = case.get("hostshift", 0), case.get("hoststep", 1)
        return [names[(sh + r * stp) % len(names)] for r in range(case["np"])]

    def check(self, case):
        oc = core.Outcome()
        oc.evals = 0
        np_ = case["np"]
        b = Builder(case)
        prog = b.build()
        path, _ = PLATFORMS[case.get("platform", "small")]
        hosts = self.hosts_of(case)
        tmp = core.tmpdir()
        try:
            cfg = ["smpi/wtime:0", "network/model:SMPI"]        # (smpirun selects the SMPI network model for online runs and replays)
            if case.get("selector", "default") != "default":
                cfg.append("smpi/coll-selector:" + case["selector"])
            index = os.path.join(tmp, "ti.txt")
            online = {"np": np_, "platform": path, "hosts": hosts, "prog": prog,
                      "cfg": cfg + ["tracing:yes", "tracing/filename:" + index, "tracing/smpi:yes", "tracing/smpi/format:TI", "tracing/smpi/computing:yes"]}
            res = mpi.run(online, cpu=120, wall=900)
            oc.evals += 1
            fail = res.failure()
            if fail:
                if fail[0] == "bad-case":
                    raise RuntimeError(fail[1])
                # the property is about programs that run online (collective algorithms that fail online are C29's business)
                oc.invalid = True
                oc.labels.append("online-run-failed:" + fail[0])
                return oc
            wt = len(prog) - 1
            t_on = []
            for r in range(np_):
                rec = res.get(r, wt)
                bad = [x for x in res.rank(r) if x.get("rc", 0) != 0 or "exc" in x]
                if bad:
                    oc.invalid = True
                    oc.labels.append("online-run-failed:mpi-error")
                    return oc
                t_on.append(rec["t"])
            try:
                traces = [l.strip() for l in open(index) if l.strip()]
            except OSError:
                oc.bad("no-trace", "the time-independent trace index %s was not written" % index)
                return oc
            if len(traces) != np_:
                oc.bad("no-trace", "the trace index lists %d files for %d ranks" % (len(traces), np_))
                return oc
            rr = core.serve("smpi_replay_driver", {"np": np_, "platform": path, "hosts": hosts, "traces": traces, "cfg": cfg}, cpu=120, wall=900)
            oc.evals += 1
            if rr.wall_exceeded:
                raise core.Inconclusive()
            if rr.rc == 64:
                raise RuntimeError("smpi_replay_driver rejected the case: " + rr.err[-600:])
            recs = rr.json_lines()
            fin = {x["r"]: x["t"] for x in recs if x.get("k") == "fin"}
            end = [x["t"] for x in recs if x.get("k") == "end"]
            actions = sorted(set(l.split()[1] for f in traces for l in open(f) if len(l.split()) > 1))
            if rr.rc != 0 or not end or len(fin) != np_:
                kind = "deadlock" if "eadlock" in rr.err else "cpu" if rr.cpu_exceeded else "crash" if rr.rc < 0 else "failed"
                # the algorithms chosen by the ompi / mpich / mvapich2 selectors may call Comm::init_smp(), which switches the replay mode
                # off for a while (known finding): a crash of the replay with such a selector is put in that class
                cls = "init-smp" if kind == "crash" and case.get("selector", "default") != "default" and b.ncoll else self.classify(b, actions)
                err = "\n".join(l for l in rr.err.splitlines() if "Switch to algorithm" not in l)
                oc.bad("%s:replay-%s" % (cls, kind), "the replay of the trace ended with rc=%s, %d/%d ranks reached finalize; traced actions: %s; stderr tail: %s"
                       % (rr.rc, len(fin), np_, actions, err[-1200:]))
                return oc
            oc.labels.extend(sorted(set(b.labels)))
            oc.labels.append("np=%d" % np_)
            oc.labels.append("platform:" + case.get("platform", "small"))
            oc.labels.append("selector:" + case.get("selector", "default"))
            for r in range(np_):
                if not core.close(t_on[r], fin[r], rel=REL):
                    cls = self.classify(b, actions)
                    oc.bad(cls + ":end-date", "rank %d ends at %r online (MPI_Wtime before MPI_Finalize) and at %r in the replay (difference %.3g); "
                           "all ranks online %s, replay %s; traced actions: %s" % (r, t_on[r], fin[r], fin[r] - t_on[r], t_on, [fin[x] for x in range(np_)], actions))
                    break
            else:
                if not core.close(res.end["t"], end[0], rel=REL):
                    oc.bad(self.classify(b, actions) + ":final-date", "the per-rank end dates agree but the final simulated date is %r online and %r in the replay" % (res.end["t"], end[0]))
            oc.nontrivial = b.nb_completed_later > 0 and b.ncoll > 0
            oc.info = {"t_online": t_on, "actions": actions}
        finally:
            shutil.rmtree(tmp, ignore_errors=True)
        return oc

    @staticmethod
    def classify(b, actions):
        """root-cause class of a divergence, from what the program contains (known causes first): first part of the signature"""
        if b.zero_recv_count:
            return "zero-receive-count-dropped"
        if any(l.startswith("comm:") for l in b.labels):
            return "communicator-creation-not-traced"
        if "coll:allgatherv" in b.labels and b.case.get("selector", "default") != "default":
            return "allgatherv-displacements-not-traced"
        if b.same_key_out_of_order:
            return "same-key-requests-waited-out-of-order"
        return "other"


PROP = C37()
